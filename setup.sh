#!/bin/bash
# Build the whole Coq development from scratch-safe state (full .vo build, no -vos).
set -e
cd "$(dirname "$0")"
export PYTHONHASHSEED=0
/venv/bin/python tools/gen_tables.py
cd coq
{ cat _CoqProject.head; find Base Gen Spec Model Proofs Properties -name '*.v' | sort; } > _CoqProject
coq_makefile -f _CoqProject -o Makefile > /dev/null
timeout 3000 make -j16 -k 2>&1 | tail -40
