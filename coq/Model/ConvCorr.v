(* Model/ConvCorr.v — agreement predicates (model = observed implementation) and
   oracles (the specification Spec/XsdPrims.v judged on the implementation's
   answers) used by the generated case files of the C05 check. *)
From Coq Require Import NArith ZArith List Bool String.
From XV Require Import Base.Str Base.Dec Base.Eqb Gen.ConvTables
  Model.ConvBool Model.ConvInt Model.ConvBytes Model.ConvFactory Model.ConvAll Spec.XsdPrims.
Import ListNotations.
Open Scope N_scope.

Definition lN_eqb := list_eqb N.eqb.
Definition olN_eqb := opt_eqb lN_eqb.
Definition obool_eqb := opt_eqb Bool.eqb.

(* ---------------- bool ---------------- *)
(* observed: None = ConverterError *)
Definition agree_bool_deser (c : str * option bool) : bool := obool_eqb (bool_deser (fst c)) (snd c).
Definition agree_bool_ser (c : bool * str) : bool := str_eqb (bool_ser (fst c)) (snd c).
Definition oracle_bool_ser_valid (c : bool * str) : bool := obool_eqb (xsd_boolean (snd c)) (Some (fst c)).
(* (a, core, b, observed): a ++ core ++ b was given to the implementation *)
Definition guard_ws (a b : str) : bool := forallb xml_ws a && forallb xml_ws b.
Definition oracle_bool_accepts (c : str * str * str * option bool) : bool :=
  let '(a, core, b, obs) := c in
  match xsd_boolean core with
  | Some v => negb (guard_ws a b) || obool_eqb obs (Some v)
  | None => true
  end.

(* ---------------- int ---------------- *)
Definition agree_int_deser (c : str * option Z) : bool := oZ_eqb (int_deser (fst c)) (snd c).
(* observed: None = ValueError from str() *)
Definition agree_int_ser (c : Z * option str) : bool := ostr_eqb (int_ser (fst c)) (snd c).
(* the produced text must be the lexical form of the value: decided by reading
   it with the specification's own grammar *)
Definition parse_integer_sp (s : str) : integer_sp :=
  match s with
  | 45 :: r => mk_integer_sp SgMinus r
  | 43 :: r => mk_integer_sp SgPlus r
  | _ => mk_integer_sp SgNone s
  end.
Definition oracle_int_ser_valid (c : Z * option str) : bool :=
  match snd c with
  | Some s => let i := parse_integer_sp s in
              wf_integer i && str_eqb (lex_integer i) s && Z.eqb (val_integer i) (fst c)
  | None => true
  end.
(* the digit-limit guard of Proofs/ConvInt.int_accepts_xsd *)
Definition int_limit_ok (i : integer_sp) : bool := N.of_nat (List.length (i_digits i)) <=? int_max_str_digits.
Definition oracle_int_accepts (c : str * integer_sp * str * option Z) : bool :=
  let '(a, i, b, obs) := c in
  negb (wf_integer i && guard_ws a b && int_limit_ok i) || oZ_eqb obs (Some (val_integer i)).
Definition guard_int_accepts (c : str * integer_sp * str * option Z) : bool :=
  let '(a, i, b, obs) := c in wf_integer i && guard_ws a b.
(* outside the limit the refusal is the interpreter's, reproduced by the model *)
Definition int_over_limit (c : str * integer_sp * str * option Z) : bool :=
  let '(a, i, b, obs) := c in negb (int_limit_ok i).
Definition agree_int_datatype (c : Z * str) : bool := str_eqb (int_datatype (fst c)) (snd c).

(* ---------------- bytes ---------------- *)
Definition agree_bytes_deser (c : option str * str * option (list N)) : bool :=
  let '(fmt, s, obs) := c in olN_eqb (bytes_deser fmt s) obs.
Definition kind_of_nat (n : nat) : bytes_kind := match n with O => BPlain | S O => BHex | _ => BB64 end.
Definition agree_bytes_ser (c : nat * option str * list N * option str) : bool :=
  let '(k, fmt, b, obs) := c in ostr_eqb (bytes_ser (kind_of_nat k) fmt b) obs.
(* what was produced is a valid literal of the datatype the format names, denoting the octets *)
Definition oracle_bytes_ser_valid (c : nat * option str * list N * option str) : bool :=
  let '(k, fmt, b, obs) := c in
  match obs with
  | None => true
  | Some s =>
      let hex := (match kind_of_nat k with BHex => true | _ => false end) || fmt_is fmt (lit "base16") in
      olN_eqb (if hex then xsd_hexBinary s else xsd_base64Binary s) (Some b)
  end.
(* XSD-valid literal (hexBinary: XML whitespace around; base64Binary: anywhere) accepted with its value *)
Definition oracle_hex_accepts (c : str * str * str * option (list N)) : bool :=
  let '(a, core, b, obs) := c in
  match xsd_hexBinary core with
  | Some v => negb (guard_ws a b) || olN_eqb obs (Some v)
  | None => true
  end.
Definition oracle_b64_accepts (c : str * option (list N)) : bool :=
  match xsd_base64Binary (fst c) with
  | Some v => olN_eqb (snd c) (Some v)
  | None => true
  end.
Definition is_valid_hex (c : str * str * str * option (list N)) : bool :=
  let '(a, core, b, obs) := c in match xsd_hexBinary core with Some _ => guard_ws a b | None => false end.
Definition is_valid_b64 (c : str * option (list N)) : bool :=
  match xsd_base64Binary (fst c) with Some _ => true | None => false end.

(* ---------------- factory ---------------- *)
Definition lt_eqb := list_eqb pytype_eqb.
Definition agree_sort_types (c : list pytype * list pytype) : bool := lt_eqb (sort_types (fst c)) (snd c).

Definition value_eqb (a b : value) : bool :=
  match a, b with
  | VInt x, VInt y => Z.eqb x y
  | VBool x, VBool y => Bool.eqb x y
  | VStr x, VStr y => str_eqb x y
  | VBytes _ x, VBytes _ y => lN_eqb x y
  | _, _ => false
  end.
(* observed: the Python class of the result and the result; None = ConverterError *)
Definition agree_deserialize (c : kwargs * str * list pytype * option value) : bool :=
  let '(kw, s, types, obs) := c in
  opt_eqb value_eqb (option_map snd (deserialize kw s types)) obs.
(* the priority oracle, judged on the implementation alone: given which candidate
   types the implementation accepts one at a time (acc), the result for the
   sorted list must be the result of the first accepting type in priority order *)
Definition oracle_priority (c : list (pytype * option value) * option value) : bool :=
  let '(single, obs) := c in
  let accepts (t : pytype) (_ : str) : option value :=
      match find (fun r => pytype_eqb (fst r) t) single with Some r => snd r | None => None end in
  opt_eqb value_eqb (option_map snd (deserialize_gen accepts [] (sort_types (map fst single)))) obs.
