(* Model/ConvCorr.v — agreement predicates (model = observed implementation) and
   oracles (the specification Spec/XsdPrims.v judged on the implementation's
   answers) used by the generated case files of the C05 check. *)
From Coq Require Import NArith ZArith List Bool String PrimFloat.
From XV Require Import Base.Str Base.Dec Base.PyInt Base.Eqb Gen.ConvTables
  Model.ConvBool Model.ConvInt Model.ConvBytes Model.ConvDecimal Model.ConvQName Model.ConvFloat Model.ConvEnum
  Model.ConvFactory Model.ConvAll Model.ConvDataType Model.ConvGuards Spec.XsdPrims Spec.XsdDates.
Import ListNotations.
Open Scope N_scope.

Definition lN_eqb := list_eqb N.eqb.
Definition olN_eqb := opt_eqb lN_eqb.
Definition obool_eqb := opt_eqb Bool.eqb.

(* ---------------- bool ---------------- *)
(* observed: None = ConverterError *)
Definition agree_bool_deser (c : str * option bool) : bool := obool_eqb (bool_deser (fst c)) (snd c).
Definition agree_bool_ser (c : bool * str) : bool := str_eqb (bool_ser (fst c)) (snd c).
Definition oracle_bool_ser_valid (c : bool * str) : bool := obool_eqb (xsd_boolean (snd c)) (Some (fst c)).
(* (a, core, b, observed): a ++ core ++ b was given to the implementation *)
Definition guard_ws (a b : str) : bool := forallb xml_ws a && forallb xml_ws b.
Definition oracle_bool_accepts (c : str * str * str * option bool) : bool :=
  let '(a, core, b, obs) := c in
  match xsd_boolean core with
  | Some v => negb (guard_ws a b) || obool_eqb obs (Some v)
  | None => true
  end.

(* ---------------- int ---------------- *)
Definition agree_int_deser (c : str * option Z) : bool := oZ_eqb (int_deser (fst c)) (snd c).
(* observed: None = ValueError from str() *)
Definition agree_int_ser (c : Z * option str) : bool := ostr_eqb (int_ser (fst c)) (snd c).
(* the produced text must be the lexical form of the value: decided by reading
   it with the specification's own grammar *)
Definition parse_integer_sp (s : str) : integer_sp :=
  match s with
  | 45 :: r => mk_integer_sp SgMinus r
  | 43 :: r => mk_integer_sp SgPlus r
  | _ => mk_integer_sp SgNone s
  end.
Definition oracle_int_ser_valid (c : Z * option str) : bool :=
  match snd c with
  | Some s => let i := parse_integer_sp s in
              wf_integer i && str_eqb (lex_integer i) s && Z.eqb (val_integer i) (fst c)
  | None => true
  end.
(* the digit-limit guard of int_accepts_xsd *)
Definition int_limit_ok := int_sp_in_limit.
Definition oracle_int_accepts (c : str * integer_sp * str * option Z) : bool :=
  let '(a, i, b, obs) := c in
  negb (wf_integer i && guard_ws a b && int_limit_ok i) || oZ_eqb obs (Some (val_integer i)).
Definition guard_int_accepts (c : str * integer_sp * str * option Z) : bool :=
  let '(a, i, b, obs) := c in wf_integer i && guard_ws a b.
(* outside the limit the refusal is the interpreter's, reproduced by the model *)
Definition int_over_limit (c : str * integer_sp * str * option Z) : bool :=
  let '(a, i, b, obs) := c in negb (int_limit_ok i).
Definition agree_int_datatype (c : Z * str) : bool := str_eqb (int_datatype (fst c)) (snd c).
Definition oracle_int_datatype (c : Z * str) : bool := xsd_integer_type_contains (snd c) (fst c).

(* ---------------- bytes ---------------- *)
Definition agree_bytes_deser (c : option str * str * option (list N)) : bool :=
  let '(fmt, s, obs) := c in olN_eqb (bytes_deser fmt s) obs.
Definition kind_of_nat (n : nat) : bytes_kind := match n with O => BPlain | S O => BHex | _ => BB64 end.
Definition agree_bytes_ser (c : nat * option str * list N * option str) : bool :=
  let '(k, fmt, b, obs) := c in ostr_eqb (bytes_ser (kind_of_nat k) fmt b) obs.
(* what was produced is a valid literal of the datatype the format names, denoting the octets *)
Definition oracle_bytes_ser_valid (c : nat * option str * list N * option str) : bool :=
  let '(k, fmt, b, obs) := c in
  match obs with
  | None => true
  | Some s =>
      let hex := (match kind_of_nat k with BHex => true | _ => false end) || fmt_is fmt (lit "base16") in
      olN_eqb (if hex then xsd_hexBinary s else xsd_base64Binary s) (Some b)
  end.
(* XSD-valid literal (hexBinary: XML whitespace around; base64Binary: anywhere) accepted with its value *)
Definition oracle_hex_accepts (c : str * str * str * option (list N)) : bool :=
  let '(a, core, b, obs) := c in
  match xsd_hexBinary core with
  | Some v => negb (guard_ws a b) || olN_eqb obs (Some v)
  | None => true
  end.
Definition oracle_b64_accepts (c : str * option (list N)) : bool :=
  match xsd_base64Binary (fst c) with
  | Some v => olN_eqb (snd c) (Some v)
  | None => true
  end.
Definition is_valid_hex (c : str * str * str * option (list N)) : bool :=
  let '(a, core, b, obs) := c in match xsd_hexBinary core with Some _ => guard_ws a b | None => false end.
Definition is_valid_b64 (c : str * option (list N)) : bool :=
  match xsd_base64Binary (fst c) with Some _ => true | None => false end.

(* ---------------- Decimal ---------------- *)
Definition pydec_eqb (a b : pydec) : bool :=
  match a, b with
  | DFin n1 c1 e1, DFin n2 c2 e2 => Bool.eqb n1 n2 && N.eqb c1 c2 && Z.eqb e1 e2
  | DInf n1, DInf n2 => Bool.eqb n1 n2
  | DNaN n1 s1 p1, DNaN n2 s2 p2 => Bool.eqb n1 n2 && Bool.eqb s1 s2 && N.eqb p1 p2
  | _, _ => false
  end.
Definition agree_dec_deser (c : str * option pydec) : bool := opt_eqb pydec_eqb (dec_deser (fst c)) (snd c).
Definition agree_dec_ser (c : pydec * str) : bool := str_eqb (dec_ser (fst c)) (snd c).
Definition oracle_dec_ser_valid (c : pydec * str) : bool :=
  match fst c with
  | DFin n co e =>
      let sp := parse_decimal_sp (snd c) in
      wf_decimal sp && str_eqb (lex_decimal sp) (snd c) && decnum_eq (val_decimal sp) (mk_decnum n co e)
  | _ => false
  end.
Definition dec_value_finite (c : pydec * str) : bool := dec_finite (fst c).
Definition oracle_dec_accepts (c : str * decimal_sp * str * option pydec) : bool :=
  let '(a, sp, b, obs) := c in
  negb (wf_decimal sp && guard_ws a b && dec_sp_fits sp)
  || let v := val_decimal sp in opt_eqb pydec_eqb obs (Some (DFin (dn_neg v) (dn_coeff v) (dn_exp v))).
Definition guard_dec_accepts (c : str * decimal_sp * str * option pydec) : bool :=
  let '(a, sp, b, obs) := c in wf_decimal sp && guard_ws a b && dec_sp_fits sp.

(* ---------------- QName ---------------- *)
Definition nsmap_eqb : nsmap -> nsmap -> bool := list_eqb (pair_eqb okey_eqb str_eqb).
Definition agree_qname_deser (c : str * option nsmap * option str) : bool :=
  let '(s, m, obs) := c in ostr_eqb (qname_deser s m) obs.
Definition agree_qname_ser (c : str * option nsmap * option (str * option nsmap)) : bool :=
  let '(t, m, obs) := c in opt_eqb (pair_eqb str_eqb (opt_eqb nsmap_eqb)) (qname_ser t m) obs.
(* every xs:QName literal whose prefix is bound in the map is accepted with the
   expanded name XML Namespaces assigns; (a, spelling, b, bindings, observed) *)
Definition oracle_qname_accepts (c : str * qname_sp * str * nsmap * option str) : bool :=
  let '(a, sp, b, env, obs) := c in
  match wf_qname sp && guard_ws a b, val_qname env sp with
  | true, Some v => ostr_eqb obs (Some (expanded_name v))
  | _, _ => true
  end.
Definition is_valid_qname_case (c : str * qname_sp * str * nsmap * option str) : bool :=
  let '(a, sp, b, env, obs) := c in
  match wf_qname sp && guard_ws a b, val_qname env sp with true, Some _ => true | _, _ => false end.
(* clause 3 of the guard *)
Definition qname_case_py_guard (c : str * qname_sp * str * nsmap * option str) : bool :=
  let '(a, sp, b, env, obs) := c in qname_sp_edge_guard sp.
(* serialize with a prefix map: the text is an xs:QName literal that, under the
   resulting bindings, denotes the value; (uri, local, map, observed text, observed map) *)
Definition parse_qname_sp (s : str) : qname_sp :=
  let '(l, r) := partition1 58 s in
  match r with [] => mk_qname_sp None l | _ => mk_qname_sp (Some l) r end.
Definition oracle_qname_ser_valid (c : option str * str * str * nsmap) : bool :=
  let '(uri, local, s, m') := c in
  let sp := parse_qname_sp s in
  wf_qname sp && str_eqb (lex_qname sp) s
  && match val_qname m' sp with
     | Some v => str_eqb (expanded_name v) (expanded_name (uri, local))
     | None => false
     end.
(* the same, restricted to QName values (XSD NCName local part) and well-formed maps *)
Definition oracle_qname_ser_valid_g (c : option str * str * nsmap * str * nsmap) : bool :=
  let '(uri, local, m, s, m') := c in
  negb (qname_rt_inputs_ok uri local (Some m) && xsd_ncname local)
  || oracle_qname_ser_valid (uri, local, s, m').
(* round trip classification; (uri, local, map) *)
Definition qname_rt_in_guard (c : option str * str * option nsmap) : bool :=
  let '(uri, local, m) := c in qname_rt_guard uri local m.
Definition qname_rt_inputs (c : option str * str * option nsmap) : bool :=
  let '(uri, local, m) := c in qname_rt_inputs_ok uri local m.
Definition qname_rt_clark_ok (c : option str * str * option nsmap) : bool :=
  let '(uri, local, m) := c in qname_rt_clause_clark uri m.
(* the namespace name is a plain ASCII URI: is_uri must accept it (C05_is_uri_accepts_plain) *)
Definition qname_rt_uri_plain (c : option str * str * option nsmap) : bool :=
  let '(uri, local, m) := c in match uri with Some u => spec_uri_plain u | None => false end.
Definition qname_rt_edges_ok (c : option str * str * option nsmap) : bool :=
  let '(uri, local, m) := c in qname_rt_clause_edges local.
Definition qname_rt_default_ok (c : option str * str * option nsmap) : bool :=
  let '(uri, local, m) := c in qname_rt_clause_default uri m.
(* the faithful model explains the failure: deser (ser v) <> v in the model too *)
Definition qname_model_rt_fails (c : option str * str * option nsmap) : bool :=
  let '(uri, local, m) := c in
  match qname_ser (qname_text uri local) m with
  | Some (s, m') => negb (ostr_eqb (qname_deser s m') (Some (qname_text uri local)))
  | None => true
  end.
Definition xsd_local_ok (c : option str * str * option nsmap) : bool :=
  let '(uri, local, m) := c in xsd_ncname local.

(* ---------------- float (text side only) ---------------- *)
(* the reading of an accepted text, cross-checked against an independent
   reading (Python's Decimal on the normalised text): same number *)
Definition fsyn_num_eqb (a b : fsyn) : bool :=
  match a, b with
  | FsFin n1 c1 e1, FsFin n2 c2 e2 =>
      Bool.eqb n1 n2 && decnum_eq (mk_decnum false c1 e1) (mk_decnum false c2 e2)
  | FsInf n1, FsInf n2 => Bool.eqb n1 n2
  | FsNan _, FsNan _ => true
  | _, _ => false
  end.
Definition agree_float_syntax (c : str * option fsyn) : bool :=
  opt_eqb fsyn_num_eqb (float_syntax (fst c)) (snd c).
(* serialized floats are xs:double literals *)
Definition oracle_double_lexical (s : str) : bool :=
  let d := parse_double_sp s in wf_double d && str_eqb (lex_double d) s.
Definition repr_shape_ok := ConvGuards.repr_shape_ok.
(* an xs:double spelling is accepted and read as the number it denotes *)
Definition oracle_float_accepts (c : str * double_sp * str) : bool :=
  let '(a, d, b) := c in
  negb (wf_double d && guard_ws a b)
  || match float_syntax (a ++ lex_double d ++ b), d with
     | Some (FsFin n co e), DbNum m ex =>
         let v := val_double_num m ex in Bool.eqb n (dn_neg v) && decnum_eq (mk_decnum false co e) (mk_decnum false (dn_coeff v) (dn_exp v))
     | Some (FsInf n), DbInf sg => Bool.eqb n (sign_neg sg)
     | Some (FsNan _), DbNaN => true
     | _, _ => false
     end.

(* ---------------- enums ---------------- *)
Definition agree_enum_deser (c : option nsmap * enum_def * str * option nat) : bool :=
  let '(m, d, s, obs) := c in opt_eqb Nat.eqb (enum_deser m d s) obs.
Definition agree_enum_ser (c : option nsmap * evalue * option str) : bool :=
  let '(m, v, obs) := c in ostr_eqb (option_map fst (enum_ser m v)) obs.

(* ---------------- factory ---------------- *)
Definition lt_eqb := list_eqb pytype_eqb.
Definition agree_sort_types (c : list pytype * list pytype) : bool := lt_eqb (sort_types (fst c)) (snd c).

Definition value_eqb (a b : value) : bool :=
  match a, b with
  | VInt x, VInt y => Z.eqb x y
  | VBool x, VBool y => Bool.eqb x y
  | VStr x, VStr y => str_eqb x y
  | VBytes _ x, VBytes _ y => lN_eqb x y
  | VDec x, VDec y => pydec_eqb x y
  | VQName x, VQName y => str_eqb x y
  | VFloat x, VFloat y => fsyn_num_eqb x y
  | VEnum k x, VEnum j y => Nat.eqb k j && Nat.eqb x y
  | _, _ => false
  end.
(* observed: the Python class of the result and the result; None = ConverterError *)
Definition agree_deserialize (c : kwargs * enum_env * str * list pytype * option value) : bool :=
  let '(kw, env, s, types, obs) := c in
  opt_eqb value_eqb (option_map snd (deserialize kw env s types)) obs.
(* the priority oracle, judged on the implementation alone with the documented
   order of the specification: given what each candidate type gives on its own,
   the result for the sorted candidates must be that of the first accepting type
   in documented order.  Applies when every candidate is a documented type. *)
Definition pytype_name (t : pytype) : option str := match t with TName n => Some n | _ => None end.
Definition oracle_priority (c : list (pytype * option value) * option value) : bool :=
  let '(single, obs) := c in
  let names := map (fun r => pytype_name (fst r)) single in
  if forallb (fun o => match o with Some n => existsb (str_eqb n) documented_priority | None => false end) names then
    let cands := flat_map (fun o => match o with Some n => [n] | None => [] end) names in
    let accepts (n : str) : option value :=
        match find (fun r => pytype_eqb (fst r) (TName n)) single with Some r => snd r | None => None end in
    opt_eqb value_eqb (choose_by_priority documented_priority cands accepts) obs
  else true.
Definition priority_case_applies (c : list (pytype * option value) * option value) : bool :=
  forallb (fun r => match pytype_name (fst r) with Some n => existsb (str_eqb n) documented_priority | None => false end) (fst c).

(* ---------------- DataType.from_value ---------------- *)
Definition agree_from_value (c : fv_input * str) : bool := str_eqb (from_value (fst c)) (snd c).
(* an XSD-valid g* literal gets the datatype of its own lexical space *)
Definition oracle_period_datatype (c : period_sp * str) : bool :=
  negb (wf_period (fst c)) || str_eqb (snd c) (period_kind (fst c)).
Definition guard_period_sp (c : period_sp * str) : bool := wf_period (fst c).
(* (datatype, serialized value): the text is in the lexical space of the datatype
   (judged for the primitive families specified in Spec.XsdPrims; other datatypes pass) *)
Definition oracle_from_value_lexical (c : str * str) : bool :=
  let '(dt, s) := c in
  if str_eqb dt (lit "BOOLEAN") then match xsd_boolean s with Some _ => true | None => false end
  else if str_eqb dt (lit "SHORT") || str_eqb dt (lit "INT") || str_eqb dt (lit "LONG") || str_eqb dt (lit "INTEGER") then
    let i := parse_integer_sp s in wf_integer i && str_eqb (lex_integer i) s && xsd_integer_type_contains dt (val_integer i)
  else if str_eqb dt (lit "DECIMAL") then
    let d := parse_decimal_sp s in wf_decimal d && str_eqb (lex_decimal d) s
  else if str_eqb dt (lit "FLOAT") || str_eqb dt (lit "DOUBLE") then oracle_double_lexical s
  else true.
