(* Model/EventGenCorr.v — predicates evaluated by the generated case files of the
   C03b check: the model's event list (or exception kind) against what the real
   EventGenerator produced for the same metadata, instance and recorded conversions. *)
From Coq Require Import NArith ZArith List Bool.
From XV Require Import Base.Str Base.Eqb Model.Bind Model.EventGen.
Import ListNotations.

Definition gres_events_eqb (a b : gres (list wevent)) : bool :=
  match a, b with
  | Ok x, Ok y => list_eqb wevent_eqb x y
  | Err e, Err e' =>
      gerr_eqb e e' && negb (gerr_eqb e EFuel) && negb (gerr_eqb e EUnmodelled)
  | _, _ => false
  end.

(* one case: config flag, recorded conversion table, instance, observed outcome *)
Record gen_case := mk_gen_case {
  gc_ignore : bool;
  gc_table : conv_table;
  gc_value : value;
  gc_observed : gres (list wevent)
}.

Definition agree_gen (u : universe) (k : gen_case) : bool :=
  gres_events_eqb (generate (gc_ignore k) (conv_of_table (gc_table k)) u (gc_value k)) (gc_observed k).

(* the same, with the universe carried by the case (cases of several models in one file) *)
Definition agree_gen_u (uk : universe * gen_case) : bool := agree_gen (fst uk) (snd uk).

(* the model never answered "unmodelled" / "out of fuel" (coverage accounting) *)
Definition modelled (uk : universe * gen_case) : bool :=
  match generate (gc_ignore (snd uk)) (conv_of_table (gc_table (snd uk))) (fst uk) (gc_value (snd uk)) with
  | Err EFuel | Err EUnmodelled => false
  | _ => true
  end.

(* the check's two streams: well-typed instances must agree exactly; hostile (type-confused)
   instances may additionally fall outside the modelled fragment (`Err EUnmodelled`), which
   the check counts separately *)
Definition agree_gen_stream (k : bool * (universe * gen_case)) : bool :=
  let '(hostile, uk) := k in
  agree_gen_u uk ||
  (* an exception class the model has no name for (e.g. ConverterError of an ill-typed value) *)
  (hostile && match gc_observed (snd uk) with Err EUnmodelled => true | _ => false end) ||
  (hostile && match generate (gc_ignore (snd uk)) (conv_of_table (gc_table (snd uk))) (fst uk) (gc_value (snd uk)) with
              | Err EUnmodelled => true
              | _ => false
              end).
Definition unmodelled_stream (k : bool * (universe * gen_case)) : bool := modelled (snd k).

(* ---------------------------------------------------------------- the specification oracle *)
(* Spec/MetaSpec.v judged on what the IMPLEMENTATION emitted: inside the guard of theorem
   C03b_eventgen_matches_metadata the observed events, after the writer's xsi:nil rule, must
   be the events the description prescribes. *)
From XV Require Import Spec.MetaSpec Model.Builder Model.BuilderCorr.

Definition spec_guard (D : mdesc) (pns : cls -> option str) (v : value) : bool :=
  wf_desc D && typed_value D (S (sdepth v)) v && cache_consistent D pns (S (sdepth v)) None v.

(* hostile?, exported universe, description, recorded parent namespaces, the run *)
Definition full_case := (bool * universe * mdesc * list (cls * option str) * gen_case)%type.

Definition fc_agree (x : full_case) : bool :=
  let '(h, u, _, _, k) := x in agree_gen_stream (h, (u, k)).
Definition fc_modelled (x : full_case) : bool :=
  let '(_, u, _, _, k) := x in modelled (u, k).

Definition spec_matches (D : mdesc) (k : gen_case) (r : gres (list wevent)) : bool :=
  match r with
  | Ok evs => list_eqb wevent_eqb (norm_nil evs)
                (spec_events (conv_of_table (gc_table k)) D (gc_ignore k) (gc_value k))
  | Err _ => false
  end.

Definition fc_in_guard (x : full_case) : bool :=
  let '(_, _, D, pns, k) := x in spec_guard D (pns_of_list pns) (gc_value k).

(* the specification judged on the implementation's answer, inside the guard / unconditionally *)
Definition fc_oracle_raw (x : full_case) : bool :=
  let '(_, _, D, _, k) := x in spec_matches D k (gc_observed k).
Definition fc_oracle (x : full_case) : bool := negb (fc_in_guard x) || fc_oracle_raw x.

(* the theorem's statement evaluated on the case: the MODEL on the MODEL's universe *)
Definition fc_theorem (x : full_case) : bool :=
  let '(_, _, D, pns, k) := x in
  negb (fc_in_guard x)
  || spec_matches D k (generate (gc_ignore k) (conv_of_table (gc_table k)) (universe_of D (pns_of_list pns)) (gc_value k)).

(* which guard clause excludes the case: 1 wf_desc 2 typed 3 cache *)
Definition fc_guard_clauses (x : full_case) : list N :=
  let '(_, _, D, pns, k) := x in
  let v := gc_value k in
  (if wf_desc D then [] else [1%N]) ++ (if typed_value D (S (sdepth v)) v then [] else [2%N])
  ++ (if cache_consistent D (pns_of_list pns) (S (sdepth v)) None v then [] else [3%N]).

(* the theorem's conclusion alone (no guard): the MODEL on the MODEL's universe against the specification *)
Definition fc_model_matches (x : full_case) : bool :=
  let '(_, _, D, pns, k) := x in
  spec_matches D k (generate (gc_ignore k) (conv_of_table (gc_table k)) (universe_of D (pns_of_list pns)) (gc_value k)).
(* the model's universe is the exported one *)
Definition fc_builder_agrees (x : full_case) : bool :=
  let '(_, u, D, pns, _) := x in BuilderCorr.universe_eqb (universe_of D (pns_of_list pns)) u.

(* inside the guard of theorem C03b_eventgen_matches_metadata (the oracle's guard plus: no sequence groups) *)
Definition fc_in_theorem_guard (x : full_case) : bool :=
  let '(_, _, D, _, _) := x in fc_in_guard x && no_sequences D.

(* ---------------------------------------------------------------- compound fields over class hierarchies *)
(* Independent reading of XmlVar.find_clazz_choice's documented "best matches" (1. the class is
   explicitly listed in a choice, 2. the class derives from a listed class): the element of a
   compound item that is a model instance.  Judged on the implementation's events for the
   hand-written hierarchy models (root = one compound field): the names of the root's child
   elements must be these. *)
Definition lists_exact (c : cls) (e : xvar) : bool :=
  match v_clazz e with Some _ => existsb (ptype_eqb (TClass c)) (v_types e) | None => false end.
Definition lists_base (u : universe) (c : cls) (e : xvar) : bool :=
  match v_clazz e with
  | Some _ => existsb (fun t => match t with TClass d => is_subclass u c d | _ => false end) (v_types e)
  | None => false
  end.
Definition expected_choice (u : universe) (var : xvar) (c : cls) : option xvar :=
  match find (fun qe => lists_exact c (snd qe)) (v_elements var) with
  | Some qe => Some (snd qe)
  | None => option_map snd (find (fun qe => lists_base u c (snd qe)) (v_elements var))
  end.

(* a primitive that is not a str is written under the first choice that lists its exact Python type
   (bool is not int) *)
Definition expected_prim_choice (var : xvar) (p : prim) : option xvar :=
  option_map snd (find (fun qe => let e := snd qe in
                                  negb (v_any_type e) && match v_clazz e with None => true | Some _ => false end
                                  && negb (v_tokens e) && existsb (ptype_eqb (prim_type p)) (v_types e))
                       (v_elements var)).

(* names of the depth-1 children of the document element *)
Fixpoint child_names (depth : nat) (evs : list wevent) : list qname :=
  match evs with
  | [] => []
  | WStart q :: r => (if Nat.eqb depth (S O) then [q] else []) ++ child_names (S depth) r
  | WEnd _ :: r => child_names (Nat.pred depth) r
  | _ :: r => child_names depth r
  end.

Definition oracle_compound_names (x : full_case) : bool :=
  let '(_, u, _, _, k) := x in
  match gc_value k, gc_observed k with
  | VObj c [(_, items)], Ok evs =>
      match u_meta u c with
      | Some meta =>
          match m_choices meta with
          | [var] =>
              let its := match items with VList _ l => l | VNone => [] | x => [x] end in
              let want := map (fun it => match it with
                                         | VObj ci _ => option_map v_qname (expected_choice u var ci)
                                         | VP (PStr _) => None        (* a str is first offered to every earlier choice *)
                                         | VP p => option_map v_qname (expected_prim_choice var p)
                                         | _ => None
                                         end) its in
              if forallb (fun o => match o with Some _ => true | None => false end) want
              then list_eqb str_eqb (child_names O evs) (flat_map (fun o => match o with Some q => [q] | None => [] end) want)
              else true
          | _ => true
          end
      | None => true
      end
  | _, _ => true
  end.
