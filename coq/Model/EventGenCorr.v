(* Model/EventGenCorr.v — predicates evaluated by the generated case files of the
   C03b check: the model's event list (or exception kind) against what the real
   EventGenerator produced for the same metadata, instance and recorded conversions. *)
From Coq Require Import NArith ZArith List Bool.
From XV Require Import Base.Str Base.Eqb Model.Bind Model.EventGen.
Import ListNotations.

Definition gres_events_eqb (a b : gres (list wevent)) : bool :=
  match a, b with
  | Ok x, Ok y => list_eqb wevent_eqb x y
  | Err e, Err e' =>
      gerr_eqb e e' && negb (gerr_eqb e EFuel) && negb (gerr_eqb e EUnmodelled)
  | _, _ => false
  end.

(* one case: config flag, recorded conversion table, instance, observed outcome *)
Record gen_case := mk_gen_case {
  gc_ignore : bool;
  gc_table : conv_table;
  gc_value : value;
  gc_observed : gres (list wevent)
}.

Definition agree_gen (u : universe) (k : gen_case) : bool :=
  gres_events_eqb (generate (gc_ignore k) (conv_of_table (gc_table k)) u (gc_value k)) (gc_observed k).

(* the same, with the universe carried by the case (cases of several models in one file) *)
Definition agree_gen_u (uk : universe * gen_case) : bool := agree_gen (fst uk) (snd uk).

(* the model never answered "unmodelled" / "out of fuel" (coverage accounting) *)
Definition modelled (uk : universe * gen_case) : bool :=
  match generate (gc_ignore (snd uk)) (conv_of_table (gc_table (snd uk))) (fst uk) (gc_value (snd uk)) with
  | Err EFuel | Err EUnmodelled => false
  | _ => true
  end.

(* the check's two streams: well-typed instances must agree exactly; hostile (type-confused)
   instances may additionally fall outside the modelled fragment (`Err EUnmodelled`), which
   the check counts separately *)
Definition agree_gen_stream (k : bool * (universe * gen_case)) : bool :=
  let '(hostile, uk) := k in
  agree_gen_u uk ||
  (* an exception class the model has no name for (e.g. ConverterError of an ill-typed value) *)
  (hostile && match gc_observed (snd uk) with Err EUnmodelled => true | _ => false end) ||
  (hostile && match generate (gc_ignore (snd uk)) (conv_of_table (gc_table (snd uk))) (fst uk) (gc_value (snd uk)) with
              | Err EUnmodelled => true
              | _ => false
              end).
Definition unmodelled_stream (k : bool * (universe * gen_case)) : bool := modelled (snd k).
