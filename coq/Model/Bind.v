(* Model/Bind.v — SHARED binding model: values, XmlVar / XmlMeta mirrors, the
   universe of classes of one generated binding model, and the metadata lookups of
   xsdata/formats/dataclass/models/elements.py.  No proofs here.

   Mirrors, field for field, what harness/bind_export.py prints from the REAL
   XmlContext.build output, so that EventGen.v / Parser.v / DictCodec.v run on the
   metadata the implementation actually built.

   Modelling decisions
   * qualified names are Clark strings "{uri}local" exactly as in xsdata;
   * the metadata cache is abstracted to one xmeta per class (valid when every class
     declares its namespace or is reached under a single parent namespace — the
     cache-key defect is property C14's subject);
   * floats and Decimals travel as their canonical Python text (repr / str), dates
     and durations as their canonical XML text. *)
From Coq Require Import NArith ZArith List Bool.
From XV Require Import Base.Str Base.Eqb.
Import ListNotations.
Open Scope N_scope.

Definition qname := str.
Definition cls := N.

(* ---------------------------------------------------------------- types *)
Inductive ptype :=
| TStr | TInt | TBool | TFloat | TDecimal | TBytes | TQName
| TXmlDate | TXmlTime | TXmlDateTime | TXmlDuration | TXmlPeriod
| TObject                      (* typing `object` (anyType) *)
| TEnum (e : N)
| TClass (c : cls).

Definition ptype_eqb (a b : ptype) : bool :=
  match a, b with
  | TStr, TStr | TInt, TInt | TBool, TBool | TFloat, TFloat | TDecimal, TDecimal
  | TBytes, TBytes | TQName, TQName | TXmlDate, TXmlDate | TXmlTime, TXmlTime
  | TXmlDateTime, TXmlDateTime | TXmlDuration, TXmlDuration | TXmlPeriod, TXmlPeriod
  | TObject, TObject => true
  | TEnum x, TEnum y => N.eqb x y
  | TClass x, TClass y => N.eqb x y
  | _, _ => false
  end.

(* ---------------------------------------------------------------- values *)
Inductive prim :=
| PStr (s : str)
| PInt (z : Z)
| PBool (b : bool)
| PFloat (repr : str)           (* repr(float): "1.5", "inf", "nan", "1e+22" *)
| PDecimal (s : str)            (* str(Decimal) *)
| PBytes (b : list N)
| PQName (s : str)              (* QName.text, Clark notation *)
| PEnum (e : N) (member : N)    (* enum id, member index in definition order *)
| PXml (t : ptype) (s : str).   (* XmlDate & co: str(value) *)

Definition prim_eqb (a b : prim) : bool :=
  match a, b with
  | PStr x, PStr y => str_eqb x y
  | PInt x, PInt y => Z.eqb x y
  | PBool x, PBool y => Bool.eqb x y
  | PFloat x, PFloat y => str_eqb x y
  | PDecimal x, PDecimal y => str_eqb x y
  | PBytes x, PBytes y => str_eqb x y
  | PQName x, PQName y => str_eqb x y
  | PEnum e m, PEnum e' m' => N.eqb e e' && N.eqb m m'
  | PXml t x, PXml t' y => ptype_eqb t t' && str_eqb x y
  | _, _ => false
  end.

Inductive value :=
| VNone
| VP (p : prim)
| VList (is_tuple : bool) (l : list value)
| VObj (c : cls) (fields : list (str * value))         (* dataclass instance, declaration order *)
| VAny (q : option qname) (text tail : option str) (attrs : list (qname * str)) (children : list value)
| VDerived (q : qname) (v : value) (ty : option qname)  (* DerivedElement *)
| VMap (m : list (qname * str)).                        (* Attributes dict, insertion order *)

(* structural equality of values (lists vs tuples distinguished, dict order ignored
   is NOT done here: dict order is insertion order on both sides) *)
Fixpoint value_eqb (a b : value) {struct a} : bool :=
  let fix vl (x y : list value) : bool :=
    match x, y with
    | [], [] => true
    | p :: x', q :: y' => value_eqb p q && vl x' y'
    | _, _ => false
    end in
  let fix fl (x y : list (str * value)) : bool :=
    match x, y with
    | [], [] => true
    | (n, p) :: x', (m, q) :: y' => str_eqb n m && value_eqb p q && fl x' y'
    | _, _ => false
    end in
  match a, b with
  | VNone, VNone => true
  | VP p, VP q => prim_eqb p q
  | VList t x, VList t' y => Bool.eqb t t' && vl x y
  | VObj c f, VObj c' f' => N.eqb c c' && fl f f'
  | VAny q t tl at_ ch, VAny q' t' tl' at' ch' =>
      ostr_eqb q q' && ostr_eqb t t' && ostr_eqb tl tl'
      && list_eqb (pair_eqb str_eqb str_eqb) at_ at' && vl ch ch'
  | VDerived q v ty, VDerived q' v' ty' => str_eqb q q' && value_eqb v v' && ostr_eqb ty ty'
  | VMap m, VMap m' => list_eqb (pair_eqb str_eqb str_eqb) m m'
  | _, _ => false
  end.

(* ---------------------------------------------------------------- metadata *)
Inductive vkind := KText | KElement | KElements | KWildcard | KAttribute | KAttributes.
Inductive factory := FList | FTuple.
(* field default: nothing, a value, or a factory (list / tuple / dict -> empty) *)
Inductive vdefault := DNone | DValue (v : value) | DFactoryList | DFactoryTuple | DFactoryDict.

Inductive xvar := mk_xvar {
  v_index : N;
  v_name : str;
  v_local_name : str;
  v_qname : qname;
  v_wrapper_qname : option qname;
  v_kind : vkind;
  v_types : list ptype;
  v_clazz : option cls;
  v_init : bool;
  v_mixed : bool;
  v_factory : option factory;          (* list_element = factory in (list, tuple) *)
  v_tokens_factory : option factory;   (* tokens = tokens_factory is not None *)
  v_format : option str;
  v_any_type : bool;
  v_process_contents : str;
  v_required : bool;
  v_nillable : bool;
  v_sequence : option N;
  v_default : vdefault;
  v_namespaces : list str;
  v_elements : list (qname * xvar);    (* compound-field choices, insertion order *)
  v_wildcards : list xvar
}.

Definition v_list_element (v : xvar) : bool := match v_factory v with Some _ => true | None => false end.
Definition v_tokens (v : xvar) : bool := match v_tokens_factory v with Some _ => true | None => false end.
Definition v_is (k : vkind) (v : xvar) : bool :=
  match k, v_kind v with
  | KText, KText | KElement, KElement | KElements, KElements | KWildcard, KWildcard
  | KAttribute, KAttribute | KAttributes, KAttributes => true
  | _, _ => false
  end.
Definition v_is_clazz_union (v : xvar) : bool :=
  match v_clazz v with Some _ => (1 <? N.of_nat (length (v_types v))) | None => false end.

Record xmeta := mk_xmeta {
  m_clazz : cls;
  m_qname : qname;
  m_target_qname : option qname;
  m_nillable : bool;
  m_text : option xvar;
  m_choices : list xvar;
  m_elements : list (qname * list xvar);   (* dict qname -> [vars], insertion order *)
  m_wildcards : list xvar;
  m_attributes : list (qname * xvar);
  m_any_attributes : list xvar;
  m_wrappers : list (qname * qname);       (* wrapper qname -> item qname *)
  m_namespace : option str;
  m_mixed_content : bool
}.

Record enum_def := mk_enum { en_id : N; en_members : list (str * prim) }.   (* member name, value *)

Record universe := mk_universe {
  u_metas : list (cls * xmeta);
  u_mro : list (cls * list cls);           (* model classes in the MRO of each class, itself first *)
  u_bases : list (cls * list cls);         (* direct model-class bases (clazz.__bases__ minus object) *)
  u_xsi : list (qname * list cls);         (* XmlContext.xsi_cache once built *)
  u_enums : list enum_def;
  u_names : list (cls * str)               (* __qualname__, for messages *)
}.

(* ---------------------------------------------------------------- assoc helpers *)
Fixpoint assoc {A} (k : str) (l : list (str * A)) : option A :=
  match l with
  | [] => None
  | (k', v) :: r => if str_eqb k k' then Some v else assoc k r
  end.
Fixpoint assocN {A} (k : N) (l : list (N * A)) : option A :=
  match l with
  | [] => None
  | (k', v) :: r => if N.eqb k k' then Some v else assocN k r
  end.

Definition u_meta (u : universe) (c : cls) : option xmeta := assocN c (u_metas u).
Definition u_mro_of (u : universe) (c : cls) : list cls := match assocN c (u_mro u) with Some l => l | None => [c] end.
Definition u_bases_of (u : universe) (c : cls) : list cls := match assocN c (u_bases u) with Some l => l | None => [] end.
Definition is_subclass (u : universe) (c d : cls) : bool := existsb (N.eqb d) (u_mro_of u c).

(* ---------------------------------------------------------------- namespaces.py *)
(* split_qname: "{uri}name" -> (Some uri, name); otherwise (None, qname).
   xsdata: if qname[0] == "{": left, right = text.split(qname[1:], "}"); if left: return left, right
           return None, qname *)
Fixpoint split_at (c : N) (s : str) : option (str * str) :=
  match s with
  | [] => None
  | x :: r => if N.eqb x c then Some ([], r)
              else match split_at c r with Some (a, b) => Some (x :: a, b) | None => None end
  end.

(* xsdata.utils.text.split(value, sep): left, _, right = value.partition(sep);
   return (left, right) if right else (None, left) *)
Definition text_split (sep : N) (s : str) : option str * str :=
  match split_at sep s with
  | Some (l, r) => match r with [] => (None, l) | _ => (Some l, r) end
  | None => (None, s)
  end.

Definition split_qname (q : qname) : option str * str :=
  match q with
  | 123 :: r =>
      match text_split 125 r with
      | (Some l, rgt) => match l with [] => (None, q) | _ => (Some l, rgt) end
      | (None, _) => (None, q)
      end
  | _ => (None, q)
  end.

Definition target_uri (q : qname) : option str := fst (split_qname q).
Definition local_name (q : qname) : str := snd (split_qname q).

Definition build_qname (ns : option str) (tag : str) : qname :=
  match ns, tag with
  | Some ((_ :: _) as u), _ :: _ => [123] ++ u ++ [125] ++ tag
  | Some ((_ :: _) as u), [] => u
  | _, _ => tag
  end.

(* ---------------------------------------------------------------- XmlVar lookups *)
Definition ANY_NS : str := [35;35;97;110;121].   (* "##any" *)

(* XmlVar._match_namespace (the per-var memo is a pure cache of this function) *)
Definition match_namespace (v : xvar) (q : qname) : bool :=
  let uri := target_uri q in
  match v_namespaces v, uri with
  | [], None => true
  | nss, _ =>
      existsb (fun check =>
        match check, uri with
        | [], None => true
        | _, _ =>
            ostr_eqb (Some check) uri || str_eqb check ANY_NS
            || match check with
               | 33 :: rest => negb (ostr_eqb (Some rest) uri)   (* "!uri" : ##other *)
               | _ => false
               end
        end) nss
  end.

Definition find_by_namespace (vars : list xvar) (q : qname) : option xvar :=
  find (fun v => match_namespace v q) vars.

Definition find_choice (v : xvar) (q : qname) : option xvar :=
  match assoc q (v_elements v) with
  | Some c => Some c
  | None => find_by_namespace (v_wildcards v) q
  end.

(* ---------------------------------------------------------------- XmlMeta lookups *)
Definition find_attribute (m : xmeta) (q : qname) : option xvar := assoc q (m_attributes m).
Definition find_any_attributes (m : xmeta) (q : qname) : option xvar := find_by_namespace (m_any_attributes m) q.

Definition find_wildcard (m : xmeta) (q : qname) : option xvar :=
  match find_by_namespace (m_wildcards m) q with
  | Some w =>
      match v_elements w with
      | [] => Some w
      | _ => match find_choice w q with Some c => Some c | None => Some w end
      end
  | None => None
  end.

Definition find_any_wildcard (m : xmeta) : option xvar := hd_error (m_wildcards m).

Definition find_children (m : xmeta) (q : qname) : list xvar :=
  (match assoc q (m_elements m) with Some l => l | None => [] end)
  ++ flat_map (fun c => match find_choice c q with Some x => [x] | None => [] end) (m_choices m)
  ++ (match find_wildcard m q with Some w => [w] | None => [] end).

(* sorted(..., key=index): stable insertion sort *)
Fixpoint insert_by_index (v : xvar) (l : list xvar) : list xvar :=
  match l with
  | [] => [v]
  | x :: r => if v_index v <=? v_index x then v :: l else x :: insert_by_index v r
  end.
Definition sort_by_index (l : list xvar) : list xvar := fold_right insert_by_index [] l.
(* fold_right inserts the LAST element first; inserting an earlier element before the
   keys that are >= its own keeps equal keys in their original order (stable) *)

Definition get_element_vars (m : xmeta) : list xvar :=
  sort_by_index (m_wildcards m ++ m_choices m ++ flat_map snd (m_elements m)
                 ++ match m_text m with Some t => [t] | None => [] end).

Definition get_attribute_vars (m : xmeta) : list xvar :=
  sort_by_index (m_any_attributes m ++ map snd (m_attributes m)).

Definition get_all_vars (m : xmeta) : list xvar :=
  sort_by_index (m_wildcards m ++ m_choices m ++ m_any_attributes m ++ map snd (m_attributes m)
                 ++ flat_map snd (m_elements m)
                 ++ match m_text m with Some t => [t] | None => [] end).

(* XmlContext.find_types / find_type over the built index; DataType.from_qname
   (standard xs: type names) is decided by the caller *)
Definition find_types (u : universe) (q : qname) : list cls :=
  match assoc q (u_xsi u) with Some l => l | None => [] end.
Fixpoint last_error {A} (l : list A) : option A :=
  match l with [] => None | [x] => Some x | _ :: r => last_error r end.
Definition find_type (u : universe) (q : qname) : option cls := last_error (find_types u q).

(* ---------------------------------------------------------------- event streams *)
(* what EventGenerator.generate yields (serializers/mixins.py): values are already
   encoded to text except QNames, enum/token lists containing them, and the raw
   primitive of a DerivedElement, which the writer encodes *)
Inductive wval := WNone | WP (p : prim) | WL (l : list wval).
Inductive wevent :=
| WStart (q : qname)
| WAttr (q : qname) (v : wval)
| WData (v : wval)
| WEnd (q : qname).

Fixpoint wval_eqb (a b : wval) {struct a} : bool :=
  let fix wl (x y : list wval) : bool :=
    match x, y with
    | [], [] => true
    | p :: x', q :: y' => wval_eqb p q && wl x' y'
    | _, _ => false
    end in
  match a, b with
  | WNone, WNone => true
  | WP p, WP q => prim_eqb p q
  | WL x, WL y => wl x y
  | _, _ => false
  end.
Definition wevent_eqb (a b : wevent) : bool :=
  match a, b with
  | WStart q, WStart q' => str_eqb q q'
  | WAttr q v, WAttr q' v' => str_eqb q q' && wval_eqb v v'
  | WData v, WData v' => wval_eqb v v'
  | WEnd q, WEnd q' => str_eqb q q'
  | _, _ => false
  end.

(* what the parser handlers feed NodeParser.start/end (parsers/bases.py) *)
Definition nsmap := list (option str * str).     (* prefix (None = default) -> uri, insertion order *)
Inductive pevent :=
| PStart (q : qname) (attrs : list (qname * str)) (ns : nsmap)
| PEnd (q : qname) (text tail : option str)
| PStartNs (prefix : option str) (uri : str).

(* standard xsi / xs names used by both directions *)
Definition XSI_NS : str := [104;116;116;112;58;47;47;119;119;119;46;119;51;46;111;114;103;47;50;48;48;49;47;88;77;76;83;99;104;101;109;97;45;105;110;115;116;97;110;99;101].
Definition XS_NS : str := [104;116;116;112;58;47;47;119;119;119;46;119;51;46;111;114;103;47;50;48;48;49;47;88;77;76;83;99;104;101;109;97].
Definition XSI_TYPE : qname := build_qname (Some XSI_NS) [116;121;112;101].
Definition XSI_NIL : qname := build_qname (Some XSI_NS) [110;105;108].

(* ---------------------------------------------------------------- converter interface *)
(* The binding model is parametric in the primitive converter (property C05 models and
   proves it separately).  Theorems quantify over a `conv` satisfying the laws they need
   (Section hypotheses discharged by C05's theorems where available); the correspondence
   check instantiates it with `conv_of_table`, a finite table of the conversions the REAL
   converter performed while the implementation processed the same case (recorded by the
   harness by wrapping xsdata.formats.converter.converter in the implementation process).
   A lookup that misses the table makes the model fail closed (`None` results are
   distinguished from misses by the `option (option _)` in the table). *)
Record conv := mk_conv {
  (* converter.deserialize(text, types, ns_map=..., format=...): None = ConverterError *)
  c_deser : list ptype -> option str -> nsmap -> str -> option prim;
  (* converter.serialize(value, format=...) *)
  c_ser : option str -> prim -> str;
  (* converter.test(text, types) used by compound-field choice matching *)
  c_test : prim -> list ptype -> bool;
  (* DataType.from_value(value) as (qualified name of the XSD type, is it xs:string?) *)
  c_datatype : prim -> qname * bool;
  (* DataType.from_qname(qname): python type, format, wrapper type if any *)
  c_from_qname : qname -> option (ptype * option str * option ptype)
}.

Definition lptype_eqb := list_eqb ptype_eqb.
Definition nsmap_eqb : nsmap -> nsmap -> bool := list_eqb (pair_eqb ostr_eqb str_eqb).

Record conv_table := mk_conv_table {
  t_deser : list (list ptype * option str * nsmap * str * option prim);
  t_ser : list (option str * prim * str);
  t_test : list (prim * list ptype * bool);
  t_datatype : list (prim * (qname * bool));
  t_from_qname : list (qname * option (ptype * option str * option ptype))
}.

(* result of a lookup that the recorded run never performed *)
Definition MISS : str := [60;109;105;115;115;62].   (* "<miss>" *)

Definition conv_of_table (t : conv_table) : conv :=
  mk_conv
    (fun tys fmt ns s =>
       match find (fun e => let '(tys', fmt', ns', s', _) := e in
                            lptype_eqb tys tys' && ostr_eqb fmt fmt' && nsmap_eqb ns ns' && str_eqb s s') (t_deser t) with
       | Some (_, _, _, _, r) => r
       | None => Some (PStr MISS)
       end)
    (fun fmt p =>
       match find (fun e => let '(fmt', p', _) := e in ostr_eqb fmt fmt' && prim_eqb p p') (t_ser t) with
       | Some (_, _, r) => r
       | None => MISS
       end)
    (fun p tys =>
       match find (fun e => let '(p', tys', _) := e in prim_eqb p p' && lptype_eqb tys tys') (t_test t) with
       | Some (_, _, r) => r
       | None => false
       end)
    (fun p =>
       match find (fun e => prim_eqb p (fst e)) (t_datatype t) with
       | Some (_, r) => r
       | None => (MISS, false)
       end)
    (fun q =>
       match find (fun e => str_eqb q (fst e)) (t_from_qname t) with
       | Some (_, r) => r
       | None => None
       end).
