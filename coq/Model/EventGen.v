(* Model/EventGen.v — executable model of EventGenerator
   (xsdata/formats/dataclass/serializers/mixins.py, class EventGenerator) and of the
   XmlVar value-choice lookups it uses (models/elements.py) and XmlContext.is_derived
   (context.py).  No proofs here.

     generate (ignore_defaults : bool) (c : conv) (u : universe) (v : value) : gres (list wevent)

   Modelling decisions
   * every Python call of a recursive method costs one unit of fuel (`call` is the
     sum of the recursive entry points); `generate` supplies 12 * (1 + depth of the value),
     running out of fuel is the distinguishable outcome `Err EFuel`;
   * generators are consumed to a list; the first exception in iteration order is the
     outcome (partial output is lost exactly as in `list(gen)` / a failed render);
   * XmlContext.build / fetch are lookups in the universe (one xmeta per class: the cache
     content at the time of the call; cache keying is C14's subject), so the `namespace`
     argument threaded through the Python methods has no influence and is dropped;
   * `getattr(obj, var.name)` is a lookup in the instance's field list; an instance
     produced by the exporter has every dataclass field, so the lookups of next_value are
     done eagerly (the AttributeError of a missing field cannot be observed on real objects);
   * AnyElement / DerivedElement instances used *as binding models* (is_dataclass is true
     for them: real code builds XmlMeta for the generic classes) are outside the universe:
     `Err EUnmodelled`, never equal to an implementation outcome. *)
From Coq Require Import NArith ZArith List Bool.
From XV Require Import Base.Str Base.Eqb Model.Bind.
Import ListNotations.
Open Scope N_scope.

(* ---------------------------------------------------------------- outcomes *)
Inductive gerr :=
| ESerializer      (* xsdata.exceptions.SerializerError *)
| EContext         (* xsdata.exceptions.XmlContextError *)
| EAttribute       (* AttributeError *)
| EType            (* TypeError *)
| EKey             (* KeyError *)
| EIndex           (* IndexError *)
| EParser          (* xsdata.exceptions.ParserError (Model/DictCodec.v) *)
| EConverter       (* xsdata.exceptions.ConverterError *)
| EAmbiguous       (* the implementation's answer depends on set iteration order: any candidate *)
| EFuel            (* model ran out of fuel: never an implementation outcome *)
| EUnmodelled.     (* input outside the modelled fragment: never an implementation outcome *)

Inductive gres (A : Type) := Ok (a : A) | Err (e : gerr).
Arguments Ok {A} a.
Arguments Err {A} e.

Definition gbind {A B} (x : gres A) (f : A -> gres B) : gres B :=
  match x with Ok a => f a | Err e => Err e end.
Notation "x <- a ;; b" := (gbind a (fun x => b)) (at level 61, a at next level, right associativity).

Fixpoint mapM {A B} (f : A -> gres B) (l : list A) : gres (list B) :=
  match l with
  | [] => Ok []
  | x :: r => y <- f x ;; ys <- mapM f r ;; Ok (y :: ys)
  end.

Definition concatM {A B} (f : A -> gres (list B)) (l : list A) : gres (list B) :=
  ys <- mapM f l ;; Ok (concat ys).

Definition gerr_eqb (a b : gerr) : bool :=
  match a, b with
  | ESerializer, ESerializer | EContext, EContext | EAttribute, EAttribute | EType, EType
  | EKey, EKey | EIndex, EIndex | EFuel, EFuel | EUnmodelled, EUnmodelled
  | EParser, EParser | EConverter, EConverter | EAmbiguous, EAmbiguous => true
  | _, _ => false
  end.

(* ---------------------------------------------------------------- Python value predicates *)
Definition is_array (v : value) : bool := match v with VList _ _ => true | _ => false end.

(* is_dataclass(value): user models and the two generic dataclasses *)
Definition is_model (v : value) : bool :=
  match v with VObj _ _ | VAny _ _ _ _ _ | VDerived _ _ _ => true | _ => false end.

Definition nonempty {A} (l : list A) : bool := match l with [] => false | _ => true end.
Definition ostr_true (o : option str) : bool := match o with Some (_ :: _) => true | _ => false end.

(* Decimal.__bool__: a finite decimal is false iff its coefficient is zero *)
Definition decimal_is_zero (s : str) : bool :=
  let s := match s with 45 :: r => r | 43 :: r => r | _ => s end in           (* sign *)
  let mant := fst (span (fun c => negb (N.eqb c 69 || N.eqb c 101)) s) in        (* up to E / e *)
  nonempty mant && forallb (fun c => N.eqb c 48 || N.eqb c 46) mant.

Definition FLOAT_ZERO : str := [48;46;48].         (* "0.0" *)
Definition FLOAT_NZERO : str := [45;48;46;48].     (* "-0.0" *)
Definition FLOAT_NAN : str := [110;97;110].        (* "nan" *)

Definition prim_truthy (p : prim) : bool :=
  match p with
  | PStr s => nonempty s
  | PInt z => negb (Z.eqb z 0)
  | PBool b => b
  | PFloat r => negb (str_eqb r FLOAT_ZERO || str_eqb r FLOAT_NZERO)
  | PDecimal s => negb (decimal_is_zero s)
  | PBytes b => nonempty b
  | PQName _ => true                (* ElementTree.QName: no __bool__ / __len__ *)
  | PEnum _ _ => true
  | PXml _ s => true                (* NamedTuples with fields; UserString of a non-empty lexical form *)
  end.

Definition py_truthy (v : value) : bool :=
  match v with
  | VNone => false
  | VP p => prim_truthy p
  | VList _ l => nonempty l
  | VObj _ _ | VAny _ _ _ _ _ | VDerived _ _ _ => true
  | VMap m => nonempty m
  end.

(* type(value) as a member of XmlVar.types *)
Definition prim_type (p : prim) : ptype :=
  match p with
  | PStr _ => TStr | PInt _ => TInt | PBool _ => TBool | PFloat _ => TFloat | PDecimal _ => TDecimal
  | PBytes _ => TBytes | PQName _ => TQName | PEnum e _ => TEnum e | PXml t _ => t
  end.
Definition value_type (v : value) : option ptype :=
  match v with VP p => Some (prim_type p) | VObj c _ => Some (TClass c) | _ => None end.
Definition type_in (t : option ptype) (l : list ptype) : bool :=
  match t with Some t => existsb (ptype_eqb t) l | None => false end.

(* Python `a == b` where the model can decide it; None = outside the modelled fragment.
   bool is an int; QName.__eq__ accepts a str; Decimal / float / Xml* values compare by
   value, which the canonical text decides only when the texts are equal (or for floats,
   whose repr is injective apart from the zeros and nan). *)
Definition b2z (b : bool) : Z := if b then 1%Z else 0%Z.
Definition prim_py_eq (a b : prim) : option bool :=
  match a, b with
  | PStr x, PStr y => Some (str_eqb x y)
  | PInt x, PInt y => Some (Z.eqb x y)
  | PBool x, PBool y => Some (Bool.eqb x y)
  | PInt x, PBool y => Some (Z.eqb x (b2z y))
  | PBool x, PInt y => Some (Z.eqb (b2z x) y)
  | PFloat x, PFloat y =>
      if str_eqb x FLOAT_NAN || str_eqb y FLOAT_NAN then Some false
      else if (str_eqb x FLOAT_ZERO || str_eqb x FLOAT_NZERO) && (str_eqb y FLOAT_ZERO || str_eqb y FLOAT_NZERO) then Some true
      else Some (str_eqb x y)
  | PDecimal x, PDecimal y => if str_eqb x y then Some true else None
  | PBytes x, PBytes y => Some (str_eqb x y)
  | PQName x, PQName y | PQName x, PStr y | PStr x, PQName y => Some (str_eqb x y)
  | PEnum e m, PEnum e' m' => Some (N.eqb e e' && N.eqb m m')
  | PXml t x, PXml t' y => if ptype_eqb t t' then (if str_eqb x y then Some true else None) else Some false
  | _, _ =>
      let numeric := fun p => match p with PInt _ | PBool _ | PFloat _ | PDecimal _ => true | _ => false end in
      if numeric a && numeric b then None (* numeric tower *) else Some false
  end.

Fixpoint py_eq (a b : value) {struct a} : option bool :=
  let fix leq (x y : list value) : option bool :=
    match x, y with
    | [], [] => Some true
    | p :: x', q :: y' =>
        match py_eq p q with
        | Some true => leq x' y'
        | Some false => Some false
        | None => None
        end
    | _, _ => Some false
    end in
  match a, b with
  | VNone, VNone => Some true
  | VP p, VP q => prim_py_eq p q
  | VList t x, VList t' y => if Bool.eqb t t' then leq x y else Some false
  | VMap m, VMap m' => if list_eqb (pair_eqb str_eqb str_eqb) m m' then Some true else None
  | VNone, _ | _, VNone => Some false
  | VP _, _ | _, VP _ => Some false
  | VList _ _, _ | _, VList _ _ => Some false
  | _, _ => None
  end.

(* ---------------------------------------------------------------- XmlVar helpers (elements.py) *)
(* XmlVar.is_optional(value) *)
Definition var_is_optional (var : xvar) (v : value) : gres bool :=
  if v_required var then Ok false
  else
    let d := match v_default var with
             | DNone => VNone
             | DValue d => d
             | DFactoryList => VList false []
             | DFactoryTuple => VList true []
             | DFactoryDict => VMap []
             end in
    match py_eq d v with Some b => Ok b | None => Err EUnmodelled end.

(* find_nillable_choice *)
Definition find_nillable_choice (var : xvar) (is_tokens : bool) : option xvar :=
  option_map snd (find (fun e => v_nillable (snd e) && Bool.eqb is_tokens (v_tokens (snd e))) (v_elements var)).

(* issubclass(clazz, t) for t in element.types *)
Definition type_is_base_of (u : universe) (c : cls) (t : ptype) : bool :=
  match t with TClass d => is_subclass u c d | _ => false end.

(* find_clazz_choice *)
Fixpoint find_clazz_choice_aux (u : universe) (c : cls) (els : list (qname * xvar)) (derived : option xvar) : option xvar :=
  match els with
  | [] => derived
  | (_, e) :: r =>
      match v_clazz e with
      | None => find_clazz_choice_aux u c r derived
      | Some _ =>
          if existsb (ptype_eqb (TClass c)) (v_types e) then Some e
          else
            let derived' := match derived with
                            | Some _ => derived
                            | None => if existsb (type_is_base_of u c) (v_types e) then Some e else None
                            end in
            find_clazz_choice_aux u c r derived'
      end
  end.
Definition find_clazz_choice (u : universe) (var : xvar) (c : cls) : option xvar :=
  find_clazz_choice_aux u c (v_elements var) None.

(* converter.test(value, types): False for anything that is not a str *)
Definition conv_test (c : conv) (v : value) (tys : list ptype) : bool :=
  match v with VP p => c_test c p tys | _ => false end.

(* find_primitive_choice; `tp` is type(value) or type(value[0]) *)
Definition find_primitive_choice (c : conv) (var : xvar) (v : value) (is_tokens : bool) : option xvar :=
  let tp := if is_tokens then match v with VList _ (x :: _) => value_type x | _ => None end
            else value_type v in
  option_map snd
    (find (fun qe =>
             let e := snd qe in
             if v_any_type e || (match v_clazz e with Some _ => true | None => false end)
                || negb (Bool.eqb (v_tokens e) is_tokens) then false
             else if type_in tp (v_types e) then true
             else if is_tokens && (match v with VList _ l => forallb (fun x => conv_test c x (v_types e)) l | _ => false end) then true
             else conv_test c v (v_types e))
          (v_elements var)).

(* find_value_choice(value, is_class) *)
Definition find_value_choice (c : conv) (u : universe) (var : xvar) (v : value) (is_class : bool) : gres (option xvar) :=
  let is_tokens := is_array v in
  match v with
  | VNone => Ok (find_nillable_choice var is_tokens)
  | _ =>
      if negb (py_truthy v) && is_tokens then Ok (find_nillable_choice var is_tokens)
      else if is_class then
        match v with
        | VObj k _ => Ok (find_clazz_choice u var k)
        | _ => Err EUnmodelled          (* the generic dataclasses as classes *)
        end
      else Ok (find_primitive_choice c var v is_tokens)
  end.

(* XmlContext.is_derived(obj, clazz) *)
Definition is_derived (u : universe) (c : cls) (clazz : cls) : bool :=
  is_subclass u c clazz || existsb (fun b => is_subclass u c b) (u_bases_of u clazz).

(* EventGenerator.real_xsi_type *)
Definition real_xsi_type (q : qname) (target : option qname) : option qname :=
  match target with
  | Some t => if str_eqb t q then None else Some t
  | None => None
  end.

(* ---------------------------------------------------------------- encode_primitive *)
Definition enum_value (u : universe) (e m : N) : option prim :=
  match find (fun d => N.eqb (en_id d) e) (u_enums u) with
  | Some d => option_map snd (nth_error (en_members d) (N.to_nat m))
  | None => None
  end.

Definition encode_prim (c : conv) (fmt : option str) (p : prim) : wval :=
  match p with
  | PStr _ | PQName _ => WP p
  | _ => WP (PStr (c_ser c fmt p))
  end.

Fixpoint encode_primitive (c : conv) (u : universe) (fmt : option str) (v : value) {struct v} : gres wval :=
  let fix enc_list (l : list value) : gres (list wval) :=
    match l with
    | [] => Ok []
    | x :: r => y <- encode_primitive c u fmt x ;; ys <- enc_list r ;; Ok (y :: ys)
    end in
  match v with
  | VP (PEnum e m) =>
      match enum_value u e m with
      | Some p => Ok (encode_prim c fmt p)
      | None => Err EUnmodelled
      end
  | VP p => Ok (encode_prim c fmt p)
  | VList _ l => ws <- enc_list l ;; Ok (WL ws)
  | VNone => Ok WNone                                   (* converter.serialize(None) is None *)
  | VObj _ _ | VAny _ _ _ _ _ | VDerived _ _ _ | VMap _ => Err EUnmodelled
  end.

(* ---------------------------------------------------------------- constants *)
Definition TRUE_STR : str := [116;114;117;101].
Definition XS_STRING : qname := build_qname (Some XS_NS) [115;116;114;105;110;103].
Definition ev_nil : wevent := WAttr XSI_NIL (WP (PStr TRUE_STR)).
Definition ev_type (q : qname) : wevent := WAttr XSI_TYPE (WP (PQName q)).

(* DataType.from_value(value): by the value's type; anything unknown is xs:string *)
Definition datatype_of (c : conv) (v : value) : qname * bool :=
  match v with VP p => c_datatype c p | _ => (XS_STRING, true) end.

(* value != "" *)
Definition is_empty_str (v : value) : bool :=
  match v with VP (PStr []) | VP (PQName []) => true | _ => false end.

(* ---------------------------------------------------------------- convert_element / convert_data *)
Definition convert_element (c : conv) (u : universe) (v : value) (var : xvar) : gres (list wevent) :=
  let nil := if v_nillable var && negb (py_truthy v) then [ev_nil] else [] in
  let ty := match v with
            | VNone => []
            | _ => if negb (is_empty_str v) && v_any_type var then
                     let '(dt, is_string) := datatype_of c v in
                     if is_string then [] else [ev_type dt]
                   else []
            end in
  w <- encode_primitive c u (v_format var) v ;;
  Ok ([WStart (v_qname var)] ++ nil ++ ty ++ [WData w; WEnd (v_qname var)]).

Definition convert_data (c : conv) (u : universe) (v : value) (var : xvar) : gres (list wevent) :=
  w <- encode_primitive c u (v_format var) v ;; Ok [WData w].

(* convert_tokens *)
Definition convert_tokens (c : conv) (u : universe) (v : value) (var : xvar) : gres (list wevent) :=
  if py_truthy v || (v_nillable var && negb (v_list_element var)) then
    if py_truthy v then
      match v with
      | VList _ (((VList _ _) :: _) as l) => concatM (fun x => convert_element c u x var) l
      | VList _ _ => convert_element c u v var
      | VP (PStr _) | VP (PBytes _) | VP (PXml _ _) => convert_element c u v var
          (* value[0] is a 1-char str / an int / a NamedTuple field (XmlDate & co) / a UserString slice *)
      | VMap _ => Err EKey                                            (* value[0] on a dict *)
      | _ => Err EType                                                (* value[0]: not subscriptable *)
      end
    else convert_element c u v var
  else Ok [].

(* ---------------------------------------------------------------- next_attribute *)
Definition getattr (obj : value) (name : str) : gres value :=
  match obj with
  | VObj _ fs => match assoc name fs with Some v => Ok v | None => Err EAttribute end
  | _ => Err EAttribute
  end.

(* one iteration of `for var in meta.get_attribute_vars()` *)
Definition attr_step (c : conv) (u : universe) (obj : value) (ignore_optionals : bool) (var : xvar) : gres (list wevent) :=
  if v_is KAttribute var then
    v <- getattr obj (v_name var) ;;
    match v with
    | VNone => Ok []
    | _ =>
        if is_array v && negb (py_truthy v) then Ok []
        else
          skip <- (if ignore_optionals then var_is_optional var v else Ok false) ;;
          if skip then Ok []
          else w <- encode_primitive c u (v_format var) v ;; Ok [WAttr (v_qname var) w]
    end
  else
    (* getattr(obj, var.name, EMPTY_MAP).items() *)
    match obj with
    | VObj _ fs =>
        match assoc (v_name var) fs with
        | None => Ok []
        | Some (VMap m) => Ok (map (fun kv => WAttr (fst kv) (WP (PStr (snd kv)))) m)
        | Some _ => Err EAttribute
        end
    | _ => Ok []
    end.

Definition next_attribute (c : conv) (u : universe) (obj : value) (meta : xmeta) (nillable : bool)
           (xsi : option qname) (ignore_optionals : bool) : gres (list wevent) :=
  attrs <- concatM (attr_step c u obj ignore_optionals) (get_attribute_vars meta) ;;
  Ok (attrs
      ++ (match xsi with Some ((_ :: _) as q) => [ev_type q] | _ => [] end)
      ++ (if nillable then [ev_nil] else [])).

(* ---------------------------------------------------------------- next_value *)
Definition emit (var : xvar) (v : value) : list (xvar * value) :=
  match v with
  | VNone => if v_nillable var then [(var, v)] else []
  | _ => [(var, v)]
  end.

(* one pass of `for var in sequence` at position j: (yielded pairs, rolling) *)
Fixpoint seq_round (obj : value) (vars : list xvar) (j : nat) : gres (list (xvar * value) * bool) :=
  match vars with
  | [] => Ok ([], false)
  | var :: r =>
      values <- getattr obj (v_name var) ;;
      rest <- seq_round obj r j ;;
      let '(items, rolling) := rest in
      match values with
      | VList _ l =>
          match nth_error l j with
          | Some x => Ok (emit var x ++ items, true)
          | None => Ok (items, rolling)
          end
      | _ =>
          match j with
          | O => Ok (emit var values ++ items, true)
          | S _ => Ok (items, rolling)
          end
      end
  end.

(* `while rolling:` *)
Fixpoint seq_rolling (fuel : nat) (obj : value) (vars : list xvar) (j : nat) : gres (list (xvar * value)) :=
  match fuel with
  | O => Err EFuel
  | S f =>
      r <- seq_round obj vars j ;;
      let '(items, rolling) := r in
      if rolling then rest <- seq_rolling f obj vars (S j) ;; Ok (items ++ rest) else Ok items
  end.

Definition seq_fuel (obj : value) (vars : list xvar) : nat :=
  2 + fold_right (fun var acc =>
        match getattr obj (v_name var) with
        | Ok (VList _ l) => Nat.max (length l) acc
        | _ => acc
        end) O vars.

Definition oN_eqb := opt_eqb N.eqb.

(* 1 + index of the last var of l whose sequence number is s; 0 if there is none *)
Fixpoint last_same_seq (s : option N) (l : list xvar) : nat :=
  match l with
  | [] => O
  | x :: r =>
      match last_same_seq s r with
      | O => if oN_eqb (v_sequence x) s then 1%nat else O
      | S k => S (S k)
      end
  end.

Fixpoint next_value_loop (fuel : nat) (obj : value) (vars : list xvar) : gres (list (xvar * value)) :=
  match fuel with
  | O => Err EFuel
  | S f =>
      match vars with
      | [] => Ok []
      | var :: rest =>
          match v_sequence var with
          | None =>
              v <- getattr obj (v_name var) ;;
              more <- next_value_loop f obj rest ;;
              Ok (emit var v ++ more)
          | Some _ =>
              let n := last_same_seq (v_sequence var) rest in
              let group := var :: firstn n rest in
              items <- seq_rolling (seq_fuel obj group) obj group O ;;
              more <- next_value_loop f obj (skipn n rest) ;;
              Ok (items ++ more)
          end
      end
  end.

Definition next_value (obj : value) (meta : xmeta) : gres (list (xvar * value)) :=
  let vars := get_element_vars meta in
  next_value_loop (S (length vars)) obj vars.

(* ---------------------------------------------------------------- the recursive methods *)
Inductive call :=
| CDataclass (obj : value) (qn : option qname) (nillable : bool) (xsi : option qname)
| CValue (v : value) (var : xvar)
| CAnyType (v : value) (var : xvar)
| CXsiType (v : value) (var : xvar)
| CChoice (v : value) (var : xvar).

Definition wrap_events (var : xvar) (evs : list wevent) : list wevent :=
  match v_wrapper_qname var with
  | Some ((_ :: _) as w) => [WStart w] ++ evs ++ [WEnd w]
  | _ => evs
  end.

(* EventGenerator.xsi_type(var, value, namespace); value is a model instance of class k *)
Definition xsi_type_of (u : universe) (var : xvar) (k : cls) : gres (option qname) :=
  if existsb (ptype_eqb (TClass k)) (v_types var) then Ok None
  else
    let derived := match v_clazz var with None => true | Some clazz => is_derived u k clazz end in
    if derived then
      match u_meta u k with
      | Some meta => Ok (real_xsi_type (v_qname var) (m_target_qname meta))
      | None => Err EUnmodelled
      end
    else Err ESerializer.

Fixpoint run (c : conv) (u : universe) (ign : bool) (fuel : nat) (k : call) {struct fuel} : gres (list wevent) :=
  match fuel with
  | O => Err EFuel
  | S f =>
      let rec := run c u ign f in
      match k with
      (* ---- convert_dataclass(obj, namespace, qname, nillable, xsi_type) *)
      | CDataclass obj qn nillable xsi =>
          match obj with
          | VObj cl _ =>
              match u_meta u cl with
              | None => Err EUnmodelled
              | Some meta =>
                  let qname := match qn with Some ((_ :: _) as q) => q | _ => m_qname meta end in
                  let nillable := nillable || m_nillable meta in
                  attrs <- next_attribute c u obj meta nillable xsi ign ;;
                  items <- next_value obj meta ;;
                  body <- concatM (fun vv => evs <- rec (CValue (snd vv) (fst vv)) ;; Ok (wrap_events (fst vv) evs)) items ;;
                  Ok ([WStart qname] ++ attrs ++ body ++ [WEnd qname])
              end
          | VAny _ _ _ _ _ | VDerived _ _ _ => Err EUnmodelled
          | _ => Err EContext                       (* verify_model: not a dataclass *)
          end
      (* ---- convert_value(value, var, namespace) *)
      | CValue v var =>
          if v_mixed var then
            (* convert_mixed_content: for value in values *)
            match v with
            | VList _ l => concatM (fun x => rec (CAnyType x var)) l
            | VP (PStr s) => concatM (fun ch => rec (CAnyType (VP (PStr [ch])) var)) s
            | VMap m => concatM (fun kv => rec (CAnyType (VP (PStr (fst kv))) var)) m
            | VP (PBytes _) => Err EUnmodelled
            | _ => Err EType
            end
          else if v_is KText var then convert_data c u v var
          else if v_tokens var then convert_tokens c u v var
          else if v_is KElements var then
            (* convert_elements *)
            match v with
            | VList _ l => concatM (fun x => rec (CChoice x var)) l
            | _ => rec (CChoice v var)
            end
          else if v_list_element var && is_array v then
            (* convert_list *)
            match v with
            | VList _ l => concatM (fun x => rec (CValue x var)) l
            | _ => Ok []
            end
          else rec (CAnyType v var)
      (* ---- convert_any_type(value, var, namespace) *)
      | CAnyType v var =>
          match v with
          | VAny q text tail attrs children =>
              (* convert_any_element *)
              kids <- concatM (fun x => rec (CAnyType x var)) children ;;
              let named := ostr_true q in
              Ok ((match q with Some ((_ :: _) as qn) => [WStart qn] | _ => [] end)
                  ++ map (fun kv => WAttr (fst kv) (WP (PStr (snd kv)))) attrs
                  ++ [WData (match text with Some t => WP (PStr t) | None => WNone end)]
                  ++ kids
                  ++ (match q with Some ((_ :: _) as qn) => [WEnd qn] | _ => [] end)
                  ++ (match tail with Some ((_ :: _) as t) => [WData (WP (PStr t))] | _ => [] end))
          | VDerived q inner _ =>
              (* convert_derived_element *)
              match inner with
              | VObj cl _ =>
                  match u_meta u cl with
                  | Some meta => rec (CDataclass inner (Some q) false (real_xsi_type q (m_target_qname meta)))
                  | None => Err EUnmodelled
                  end
              | VAny _ _ _ _ _ | VDerived _ _ _ => Err EUnmodelled
              | _ =>
                  let '(dt, _) := datatype_of c inner in
                  w <- (match inner with
                        | VNone => Ok WNone
                        | VP p => Ok (WP p)
                        | _ => Err EUnmodelled
                        end) ;;
                  Ok [WStart q; ev_type dt; WData w; WEnd q]
              end
          | VObj _ _ => rec (CXsiType v var)
          | _ => if v_is KElement var then convert_element c u v var else convert_data c u v var
          end
      (* ---- convert_xsi_type(value, var, namespace); value is a model instance *)
      | CXsiType v var =>
          match v with
          | VObj cl _ =>
              if v_is KWildcard var then
                ch <- find_value_choice c u var v true ;;
                match ch with
                | Some choice => rec (CValue v choice)
                | None => rec (CDataclass v None false None)
                end
              else if v_is KElement var then
                x <- xsi_type_of u var cl ;;
                rec (CDataclass v (Some (v_qname var)) (v_nillable var) x)
              else
                match u_meta u cl with
                | Some meta => rec (CDataclass v (m_target_qname meta) false None)
                | None => Err EUnmodelled
                end
          | _ => Err EUnmodelled
          end
      (* ---- convert_choice(value, var, namespace) *)
      | CChoice v var =>
          match v with
          | VDerived q inner _ =>
              match find_choice var q with
              | None => Err ESerializer
              | Some choice =>
                  match inner with
                  | VObj _ _ => rec (CXsiType inner choice)
                  | VAny _ _ _ _ _ | VDerived _ _ _ => Err EUnmodelled
                  | _ => convert_element c u inner choice
                  end
              end
          | VAny (Some ((_ :: _) as q)) _ _ _ _ =>
              match find_choice var q with
              | None => Err ESerializer
              | Some choice => rec (CAnyType v choice)
              end
          | _ =>
              let check_subclass := is_model v in
              ch <- find_value_choice c u var v check_subclass ;;
              match ch with
              | Some choice => rec (CValue v choice)
              | None => if check_subclass then rec (CXsiType v var) else Err ESerializer
              end
          end
      end
  end.

(* ---------------------------------------------------------------- generate *)
Fixpoint vdepth (v : value) : nat :=
  let fix dl (l : list value) : nat := match l with [] => O | x :: r => Nat.max (vdepth x) (dl r) end in
  let fix df (l : list (str * value)) : nat := match l with [] => O | (_, x) :: r => Nat.max (vdepth x) (df r) end in
  match v with
  | VNone | VP _ | VMap _ => O
  | VList _ l => S (dl l)
  | VObj _ fs => S (df fs)
  | VAny _ _ _ _ ch => S (dl ch)
  | VDerived _ x _ => S (vdepth x)
  end.

Definition gen_fuel (v : value) : nat := 12 * S (vdepth v).

Definition generate_with (fuel : nat) (ignore_defaults : bool) (c : conv) (u : universe) (v : value) : gres (list wevent) :=
  match v with
  | VDerived q inner _ =>
      match inner with
      | VObj cl _ =>
          match u_meta u cl with
          | Some meta => run c u ignore_defaults fuel (CDataclass inner (Some q) false (real_xsi_type q (m_target_qname meta)))
          | None => Err EUnmodelled
          end
      | VAny _ _ _ _ _ | VDerived _ _ _ => Err EUnmodelled
      | _ => Err EContext
      end
  | _ => run c u ignore_defaults fuel (CDataclass v None false None)
  end.

Definition generate (ignore_defaults : bool) (c : conv) (u : universe) (v : value) : gres (list wevent) :=
  generate_with (gen_fuel v) ignore_defaults c u v.
