(* Model/ConvQName.v — QNameConverter (xsdata/formats/converter.py) with
   xsdata.utils.text.split and xsdata.utils.namespaces.{split_qname, is_ncname,
   is_uri, load_prefix, generate_prefix}.  No proofs here.

   A QName value is its Clark text (ElementTree QName equality is text equality).
   A prefix map is an insertion-ordered dict: association list with keys
   None (default namespace) or a prefix string. *)
From Coq Require Import NArith ZArith List Bool.
From XV Require Import Base.Str Base.Dec Base.PyInt Base.Eqb Gen.ConvTables.
Import ListNotations.
Open Scope N_scope.

Definition nsmap := list (option str * str).

Definition okey_eqb (a b : option str) : bool := opt_eqb str_eqb a b.

(* dict.get *)
Fixpoint ns_get (k : option str) (m : nsmap) : option str :=
  match m with
  | [] => None
  | (k', v) :: r => if okey_eqb k' k then Some v else ns_get k r
  end.

(* d[k] = v : update in place keeps the position, otherwise append *)
Fixpoint ns_set (k : option str) (v : str) (m : nsmap) : nsmap :=
  match m with
  | [] => [(k, v)]
  | (k', v') :: r => if okey_eqb k' k then (k', v) :: r else (k', v') :: ns_set k v r
  end.

(* str.partition(sep) for a one-character separator: (left, right) ; right = []
   also when the separator is absent *)
Fixpoint partition1 (sep : N) (s : str) : str * str :=
  match s with
  | [] => ([], [])
  | c :: r => if c =? sep then ([], r) else let '(a, b) := partition1 sep r in (c :: a, b)
  end.

(* text.split(value, sep): (left, right) if right else (None, left) *)
Definition text_split (sep : N) (s : str) : option str * str :=
  let '(l, r) := partition1 sep s in
  match r with [] => (None, l) | _ => (Some l, r) end.

Definition in_ranges (c : N) (t : list (N * N)) : bool :=
  existsb (fun r => (fst r <=? c) && (c <=? snd r)) t.

(* namespaces.is_ncname (since /repo 4e4ae03): NCNAME_REGEX.fullmatch, i.e. one
   character of the start class and any number of the name class; the two classes
   are regenerated from the pattern *)
Definition ncname_start (c : N) : bool := in_ranges c ncname_start_ranges.
Definition ncname_char (c : N) : bool := in_ranges c ncname_char_ranges.
Definition is_ncname (name : str) : bool :=
  match name with
  | [] => false
  | c :: r => ncname_start c && forallb ncname_char r
  end.

(* ---- namespaces.is_uri: URI_REGEX.search(uri), the regex as written ----------
     ^((F R* ':')? '/'{0,k} C+)? ('#' D+)? $        ($ also before a final newline) *)
Definition nonempty_all (p : N -> bool) (s : str) : bool :=
  match s with [] => false | _ => forallb p s end.

Fixpoint slashes_chars (k : nat) (y : str) : bool :=
  nonempty_all (fun c => in_ranges c uri_chars) y
  || match k, y with
     | S k', 47 :: t => slashes_chars k' t
     | _, _ => false
     end.

Fixpoint scheme_tail (r : str) : bool :=
  match r with
  | [] => false
  | c :: t => ((c =? 58) && slashes_chars uri_max_slashes t)
              || (in_ranges c uri_scheme_rest && scheme_tail t)
  end.

Definition uri_part1 (a : str) : bool :=
  slashes_chars uri_max_slashes a
  || match a with
     | f :: r => in_ranges f uri_scheme_first && scheme_tail r
     | [] => false
     end.

Definition uri_part2 (b : str) : bool :=
  match b with
  | 35 :: t => nonempty_all (fun c => in_ranges c uri_frag_chars) t
  | _ => false
  end.

Definition opt_part (p : str -> bool) (s : str) : bool :=
  match s with [] => true | _ => p s end.

Fixpoint uri_splits (a_rev : str) (b : str) : bool :=
  (opt_part uri_part1 (rev a_rev) && opt_part uri_part2 b)
  || match b with
     | [] => false
     | c :: t => uri_splits (c :: a_rev) t
     end.

Definition uri_full (s : str) : bool := uri_splits [] s.

Definition uri_search (s : str) : bool :=
  uri_full s
  || match rev s with
     | 10 :: r => uri_full (rev r)
     | _ => false
     end.

Definition is_uri (u : option str) : bool :=
  match u with
  | Some (c :: r) => uri_search (c :: r)
  | _ => false
  end.

(* ---- QNameConverter.resolve / deserialize --------------------------------------- *)
Definition truthy (o : option str) : bool := match o with Some (_ :: _) => true | _ => false end.

Definition name_ok (name : str) : bool := negb (mem 32 name) && is_ncname name.

Definition qname_resolve (value : str) (m : option nsmap) : option (option str * str) :=
  match py_strip value with
  | [] => None
  | c :: rest =>
      if c =? 123 then
        let '(uri, name) := text_split 125 rest in
        if negb (is_uri uri) then None
        else if name_ok name then Some (uri, name) else None
      else
        let '(prefix, name) := text_split 58 (c :: rest) in
        let uri := match m with
                   | Some (e :: mm) => ns_get prefix (e :: mm)
                   | _ => None
                   end in
        if truthy prefix && negb (truthy uri) then None
        else if name_ok name then Some (uri, name) else None
  end.

Definition clark (uri : option str) (tag : str) : str :=
  match uri with
  | Some (c :: u) => [123] ++ (c :: u) ++ [125] ++ tag
  | _ => tag
  end.

(* the text of the resulting QName; None = ConverterError *)
Definition qname_deser (value : str) (m : option nsmap) : option str :=
  match qname_resolve value m with
  | Some (uri, name) => Some (clark uri name)
  | None => None
  end.

(* ---- namespaces.split_qname / load_prefix / generate_prefix ---------------------- *)
Definition split_qname (q : str) : option str * str :=
  match q with
  | 123 :: rest =>
      match text_split 125 rest with
      | (Some (c :: l), rt) => (Some (c :: l), rt)
      | _ => (None, q)
      end
  | _ => (None, q)
  end.

Fixpoint find_prefix (uri : str) (m : nsmap) : option (option str) :=
  match m with
  | [] => None
  | (p, ns) :: r => if str_eqb ns uri then Some p else find_prefix uri r
  end.

Fixpoint assoc_str (k : str) (l : list (str * str)) : option str :=
  match l with
  | [] => None
  | (k', v) :: r => if str_eqb k' k then Some v else assoc_str k r
  end.

(* `prefix in ns_map` *)
Definition ns_has (k : option str) (m : nsmap) : bool := existsb (fun e => okey_eqb (fst e) k) m.

(* number = len(ns_map); while f"ns{number}" in ns_map: number += 1
   (at most len(ns_map)+1 candidates are needed: fuel) *)
Fixpoint free_prefix (fuel : nat) (n : N) (m : nsmap) : str :=
  let p := generated_prefix_stem ++ to_dec n in
  match fuel with
  | O => p
  | S k => if ns_has (Some p) m then free_prefix k (n + 1) m else p
  end.

(* generate_prefix (since /repo e811fed): the standard prefix of a known namespace
   only if it is unbound or bound to this very uri (ns_map.get(std, uri) == uri),
   otherwise the first free ns<number>; then ns_map[prefix] = uri *)
Definition generate_prefix (uri : str) (m : nsmap) : str * nsmap :=
  let std := match assoc_str uri standard_namespaces with
             | Some p => match ns_get (Some p) m with
                         | None => Some p
                         | Some u => if str_eqb u uri then Some p else None
                         end
             | None => None
             end in
  let prefix := match std with
                | Some p => p
                | None => free_prefix (S (length m)) (N.of_nat (length m)) m
                end in
  (prefix, ns_set (Some prefix) uri m).

Definition load_prefix (uri : str) (m : nsmap) : option str * nsmap :=
  match find_prefix uri m with
  | Some p => (p, m)
  | None => let '(p, m') := generate_prefix uri m in (Some p, m')
  end.

(* QNameConverter.serialize(value, ns_map): the text and the (mutated) map;
   None = an exception (IndexError on an empty text) *)
Definition qname_ser (text : str) (m : option nsmap) : option (str * option nsmap) :=
  match m with
  | None => Some (text, None)
  | Some mm =>
      match text with
      | [] => None
      | _ =>
          let '(ns, tag) := split_qname text in
          match ns with
          | Some (c :: u) =>
              let '(prefix, mm') := load_prefix (c :: u) mm in
              Some (match prefix with
                    | Some (pc :: pr) => (pc :: pr) ++ [58] ++ tag
                    | _ => tag
                    end, Some mm')
          | _ => Some (tag, Some mm)
          end
      end
  end.
