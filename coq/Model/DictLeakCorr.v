(* Model/DictLeakCorr.v — agreement predicate model <-> implementation for DictDecoder /
   JsonParser on arbitrary JSON values (outcome classes), used by harness/c15.py and c10.py. *)
From Coq Require Import NArith ZArith List Bool.
From XV Require Import Base.Str Base.Eqb Base.PyInt Model.Bind Model.DictCodec Model.Parser Model.DictLeak.
Import ListNotations.
Open Scope N_scope.

Definition dkind_eqb (a b : dkind) : bool :=
  match a, b with
  | KParserError, KParserError | KConverterError, KConverterError | KXmlContextError, KXmlContextError
  | KXmlHandlerError, KXmlHandlerError
  | KTypeError, KTypeError | KAttributeError, KAttributeError | KKeyError, KKeyError | KIndexError, KIndexError
  | KValueError, KValueError | KAssertionError, KAssertionError | KModelGap, KModelGap => true
  | _, _ => false
  end.

Definition ddocumented (k : dkind) : bool :=
  match k with KParserError | KConverterError | KXmlContextError | KXmlHandlerError => true | _ => false end.

(* what the harness observed: None = an object was returned, Some k = exception class *)
Definition dict_case := (dconfig * conv_table * universe * generics * option cls * jvalue * option dkind)%type.

Definition model_kind (x : dict_case) : option dkind :=
  let '(cfg, t, u, g, clazz, j, _) := x in
  match decode g (conv_of_table t) u cfg clazz false j with DOk _ => None | DErr k => Some k end.

Definition agree_dict (x : dict_case) : bool :=
  let '(_, _, _, _, _, _, obs) := x in
  match model_kind x, obs with
  | None, None => true
  | Some k, Some k' => dkind_eqb k k'
  | _, _ => false
  end.

(* bit 0: model and implementation disagree on the outcome class; bit 1: the observed outcome is
   an undocumented exception (the guard bits are added by Proofs/DictLeakDoc.v) *)
Definition dict_code (x : dict_case) : N :=
  let '(_, _, _, _, _, _, obs) := x in
  (if agree_dict x then 0 else 1)
  + (match obs with Some k => if ddocumented k then 0 else 2 | None => 0 end).
