(* Model/WsdlCorr.v — guards (one clause per refuted class), oracles and agreement
   predicates used by the generated case files of the C17 check.  No proofs here. *)
From Coq Require Import NArith List Bool.
From XV Require Import Base.Str Base.Eqb Spec.WsdlSpec Model.Wsdl.
Import ListNotations.
Open Scope N_scope.

(* ------------------------------------------------------------------ guard clauses
   Each clause excludes one class of WSDLs on which the faithful model (and the
   implementation) departs from `expected`; Proofs/WsdlRefute.v has one witness per clause.
     1  (fixed in /repo e18696d: a soap:header written after the soap:body; clause removed)
     2  rpc: output message not named <operation>Response      (response wrapper named after the message)
     3  (fixed in /repo d4f6af6: soapAction=""; clause removed)
     4  (fixed in /repo 06e543e: style declared nowhere; clause removed)
     5  document style (or header/fault) part given by type    (accessor element invented)
     6  rpc style part given by element                         (element placed without accessor)
     7  rpc: soap:body parts="..." restriction                  (ignored: all parts in the wrapper)
     8  two ports/bindings publishing the same <portType>_<operation> name (last one wins)
     9  (fixed in /repo 967d116: soap:header bound in wsdl:output; clause removed)
    10  a part refers to a schema component whose expanded name is also that of a
        wsdl:message of this document                           (the class made for the rpc message
                                                                 replaces the schema class)   *)

(* schema knowledge the clauses need: the global simple types (Model.Wsdl.tenv) *)
Definition senv := tenv.
Definition in_senv (e : senv) (u l : str) : bool :=
  match tenv_get e (u, l) with Some _ => true | None => false end.

Definition body_parts_of (bm : b_msg) : option str :=
  match the_body bm with Some (_, _, p) => p | None => None end.

Definition msg_of (d : definitions) (ptm : pt_msg) : list part :=
  match find_message d (ptm_ns ptm) (ptm_message ptm) with Some m => msg_parts m | None => [] end.

Definition selected_of (d : definitions) (bm : b_msg) (ptm : pt_msg) : list part :=
  match find_message d (ptm_ns ptm) (ptm_message ptm) with
  | Some m => select_parts m (body_parts_of bm)
  | None => []
  end.

Definition clause_list (cs : list (nat * bool)) : list nat :=
  map fst (filter (fun c => negb (snd c)) cs).

(* failing clauses (1-7, 9) of one bound operation; `e` is not needed by any clause at
   present (kept so that schema-dependent clauses can be added without changing the callers) *)
Definition op_findings (e : senv) (d : definitions) (b : binding) (po : pt_operation) (bo : b_operation) : list nat :=
  let style := effective_style b bo in
  let rpc := str_eqb style s_rpc in
  match bo_input bo, pto_input po, bo_output bo, pto_output po with
  | Some bi, Some pi, Some bo', Some po' =>
      clause_list
        [(2%nat, negb rpc || ostr_eqb (resolve_local d (ptm_ns po') (ptm_message po')) (Some (bo_name bo ++ s_Response)));
         (5%nat, rpc || (forallb element_part (selected_of d bi pi) && forallb element_part (selected_of d bo' po')));
         (6%nat, negb rpc || (forallb (fun p => negb (element_part p)) (selected_of d bi pi)
                              && forallb (fun p => negb (element_part p)) (selected_of d bo' po')));
         (7%nat, negb rpc || (negb (is_some (body_parts_of bi)) && negb (is_some (body_parts_of bo'))))]
  | _, _, _, _ => []
  end.

(* same traversal as `expected`, yielding the failing clauses of each operation *)
Definition findings_op (e : senv) (d : definitions) (b : binding) (pt : port_type) (bo : b_operation) : list (list nat) :=
  match find_by pto_name (pt_operations pt) (bo_name bo) with
  | Some po => [op_findings e d b po bo]
  | None => []
  end.

Definition findings_port (e : senv) (d : definitions) (p : port) : list (list nat) :=
  match obind (resolve_local d (port_ns p) (port_binding p)) (find_by b_name (d_bindings d)) with
  | Some b =>
      match obind (resolve_local d (b_ns b) (b_type b)) (find_by pt_name (d_port_types d)) with
      | Some pt => flat_map (findings_op e d b pt) (b_operations b)
      | None => []
      end
  | None => []
  end.

Definition findings (e : senv) (d : definitions) : list (list nat) :=
  flat_map (fun s => flat_map (findings_port e d) (svc_ports s)) (d_services d).

Definition names_distinct (e : senv) (d : definitions) : bool := nodup_str (map sd_name (expected e d)).

(* clause 10, on the whole document *)
Definition part_ref (p : part) : option (str * str) :=
  match part_element p, part_type p with
  | Some x, _ => resolve_qname (part_ns p) x
  | None, Some t => resolve_qname (part_ns p) t
  | None, None => None
  end.
Definition is_message_qname (d : definitions) (q : str * str) : bool :=
  ostr_eqb (Some (fst q)) (d_tns d) && existsb (fun m => str_eqb (msg_name m) (snd q)) (d_messages d).
Definition no_shadow (d : definitions) : bool :=
  forallb (fun m => forallb (fun p => match part_ref p with Some q => negb (is_message_qname d q) | None => true end)
                            (msg_parts m)) (d_messages d).

(* the guard of the mapper theorem *)
Definition guard (e : senv) (d : definitions) : bool :=
  forallb (fun l => match l with [] => true | _ => false end) (findings e d) && names_distinct e d && no_shadow d.

(* ------------------------------------------------------------------ oracle (ii): real output vs expected
   per expected description: 0 = the generated service says exactly what `expected` says;
   k in 1..9 = it does not, and clause k fails for this operation (lowest failing clause);
   90 = it does not although every clause holds; 91 = no generated service of that name *)
Definition real_lookup (real : list service_desc) (n : str) : option service_desc :=
  find (fun s => str_eqb (sd_name s) n) real.

Definition count_name (names : list str) (n : str) : nat :=
  length (filter (str_eqb n) names).

Definition op_code (shadow : bool) (names : list str) (real : list service_desc) (ef : service_desc * list nat) : nat :=
  let (ex, fs) := ef in
  match real_lookup real (sd_name ex) with
  | None => 91%nat
  | Some r =>
      if sd_eqb r ex then 0%nat
      else match fs with
           | k :: _ => k
           | [] => if Nat.ltb 1 (count_name names (sd_name ex)) then 8%nat
                   else if shadow then 10%nat else 90%nat
           end
  end.

Definition oracle_codes (e : senv) (d : definitions) (real : list service_desc) : list nat :=
  let ex := expected e d in
  map (op_code (negb (no_shadow d)) (map sd_name ex) real) (combine ex (findings e d)).

(* every generated service is one that `expected` names *)
Definition no_extra_services (d : definitions) (real : list service_desc) : bool :=
  forallb (fun r => existsb (fun x => str_eqb (sd_name x) (sd_name r)) (expected [] d)) real.

(* ------------------------------------------------------------------ oracle (iii): what the real client did
   kind 0: a posted request (judged against the expected input shape and the HTTP rules);
   kind 1: a response fed to the client (must have the expected output shape, so that the
           round trip through the output class is a test on a legitimate response).
   codes: 0 ok, 1 shape not accepted, 2 url/headers wrong, 3 unknown service name *)
Record e2e_obs := mk_e2e {
  eo_name : str; eo_kind : nat; eo_tree : xtree; eo_url : str; eo_headers : list (str * str) }.

Definition e2e_code (e : senv) (d : definitions) (o : e2e_obs) : nat :=
  match find (fun x => str_eqb (sd_name x) (eo_name o)) (rev (expected e d)) with
  | None => 3%nat
  | Some ex =>
      match eo_kind o with
      | O => match sd_input ex with
             | Some i => if negb (item_accepts 50 i (eo_tree o)) then 1%nat
                         else if negb (http_ok ex (eo_url o) (eo_headers o)) then 2%nat else 0%nat
             | None => 1%nat
             end
      | _ => match sd_output ex with
             | Some i => if item_accepts 50 i (eo_tree o) then 0%nat else 1%nat
             | None => 1%nat
             end
      end
  end.

(* ------------------------------------------------------------------ correspondence (i): DefinitionsMapper.map
   the raw classes the real mapper returns (before ClassContainer), field by field;
   id()-references are compared through the qname of the referenced class *)
Record fattr := mk_fattr {
  fa_name : str; fa_ns : option str; fa_default : option str; fa_type : qn;
  fa_native : bool; fa_forward : bool; fa_ref : option qn; fa_min : option nat; fa_max : option nat }.
Inductive fclass := FClass (q : qn) (meta : option str) (tg : nat) (ns : option str)
                           (attrs : list fattr) (inner : list fclass).

Definition tag_code (t : ctag) : nat :=
  match t with TagElement => 0 | TagBindingMessage => 1 | TagBindingOperation => 2 end%nat.

Definition flatten_attr (a : attr) : fattr :=
  mk_fattr (a_name a) (a_namespace a) (a_default a) (a_type a) (a_native a) (a_forward a)
           (option_map c_qname (a_ref a)) (a_min a) (a_max a).

Fixpoint flatten (fuel : nat) (c : aclass) : fclass :=
  match fuel with
  | O => FClass (c_qname c) None 9%nat None [] []
  | S f => FClass (c_qname c) (c_meta_name c) (tag_code (c_tag c)) (c_namespace c)
                  (map flatten_attr (c_attrs c)) (map (flatten f) (c_inner c))
  end.

Definition onat_eqb := opt_eqb Nat.eqb.
Definition fattr_eqb (a b : fattr) : bool :=
  str_eqb (fa_name a) (fa_name b) && ostr_eqb (fa_ns a) (fa_ns b) && ostr_eqb (fa_default a) (fa_default b)
  && qn_eqb (fa_type a) (fa_type b) && Bool.eqb (fa_native a) (fa_native b) && Bool.eqb (fa_forward a) (fa_forward b)
  && opt_eqb qn_eqb (fa_ref a) (fa_ref b) && onat_eqb (fa_min a) (fa_min b) && onat_eqb (fa_max a) (fa_max b).

Fixpoint fclass_eqb (a b : fclass) : bool :=
  match a, b with
  | FClass q m t n at_ inn, FClass q' m' t' n' at' inn' =>
      qn_eqb q q' && ostr_eqb m m' && Nat.eqb t t' && ostr_eqb n n' && list_eqb fattr_eqb at_ at'
      && (fix go (x y : list fclass) : bool :=
            match x, y with
            | [], [] => true
            | i :: x', j :: y' => fclass_eqb i j && go x' y'
            | _, _ => false
            end) inn inn'
  end.

(* observed: None = the real mapper raised *)
Definition agree_mapper (d : definitions) (obs : option (list fclass)) : bool :=
  match map_definitions d, obs with
  | Some cs, Some r => list_eqb fclass_eqb (map (flatten 12) cs) r
  | None, None => true
  | _, _ => false
  end.

Record wsdl_case := mk_case {
  wc_defs : definitions;        (* read independently of xsdata (lxml) *)
  wc_senv : senv;
  wc_mapped : option (list fclass);   (* DefinitionsMapper.map(...) as observed *)
  wc_real : list service_desc;  (* read from the generated classes *)
  wc_e2e : list e2e_obs }.

(* ------------------------------------------------------------------ correspondence (i): model vs real pipeline
   the services the faithful model predicts after the whole pipeline = the generated ones *)
Definition same_services (a b : list service_desc) : bool :=
  forallb (fun x => match real_lookup b (sd_name x) with Some y => sd_eqb x y | None => false end) a
  && forallb (fun y => match real_lookup a (sd_name y) with Some x => sd_eqb x y | None => false end) b.

Definition agree_pipeline (e : senv) (d : definitions) (real : list service_desc) : bool :=
  match map_definitions d with
  | Some cs => same_services (final_shapes e cs) real
  | None => false
  end.

(* (wf, model mapper = real mapper, model = real, per-operation codes, no extra services, e2e codes) *)
Definition oracle_case (c : wsdl_case) : bool * bool * bool * list nat * bool * list nat :=
  (wf_definitions (wc_defs c),
   agree_mapper (wc_defs c) (wc_mapped c),
   agree_pipeline (wc_senv c) (wc_defs c) (wc_real c),
   oracle_codes (wc_senv c) (wc_defs c) (wc_real c),
   no_extra_services (wc_defs c) (wc_real c),
   map (e2e_code (wc_senv c) (wc_defs c)) (wc_e2e c)).

(* Client.prepare_headers: (transport, soap_action, user headers, observed result | None = ClientValueError) *)
Definition headers_eqb := list_eqb (pair_eqb str_eqb str_eqb).
Definition agree_prepare_headers (c : option str * option str * list (str * str) * option (list (str * str))) : bool :=
  let '(tr, act, h, obs) := c in opt_eqb headers_eqb (prepare_headers tr act h) obs.
