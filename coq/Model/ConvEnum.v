(* Model/ConvEnum.v — EnumConverter over enumerations whose member values are
   str / int / bool / Decimal / QName, or tuples / lists of those (token lists).
   Float-valued members are not modelled (checked through the implementation only).
   Assumption: member values are pairwise distinct under Python's == (no aliases).
   No proofs here. *)
From Coq Require Import NArith ZArith List Bool.
From XV Require Import Base.Str Base.Dec Base.PyInt Gen.ConvTables
  Model.ConvBool Model.ConvInt Model.ConvDecimal Model.ConvQName.
Import ListNotations.
Open Scope N_scope.

Inductive atom :=
| AStr (s : str) | AInt (z : Z) | ABool (b : bool) | ADec (d : pydec) | AQName (text : str).

Inductive evalue := EvAtom (a : atom) | EvTuple (l : list atom) | EvList (l : list atom).

Definition enum_def := list (str * evalue).      (* member name, value; definition order *)

(* Decimal.__eq__ : numeric; NaNs are unequal to everything *)
Definition dec_py_eq (a b : pydec) : bool :=
  match a, b with
  | DFin n1 c1 e1, DFin n2 c2 e2 =>
      let m := Z.min e1 e2 in
      let va := (Z.of_N c1 * 10 ^ (e1 - m))%Z in
      let vb := (Z.of_N c2 * 10 ^ (e2 - m))%Z in
      Z.eqb (if n1 then - va else va) (if n2 then - vb else vb)
  | DInf n1, DInf n2 => Bool.eqb n1 n2
  | _, _ => false
  end.

(* EnumConverter._match_atomic(raw, real, ns_map=...): deserialize raw with
   [type(real)]; on ConverterError compare the raw str itself (unequal to any
   non-str) *)
Definition match_atomic (m : option nsmap) (raw : str) (real : atom) : bool :=
  match real with
  | AStr r => str_eqb raw r
  | AInt z => match int_deser raw with Some z' => Z.eqb z' z | None => false end
  | ABool b => match bool_deser raw with Some b' => Bool.eqb b' b | None => false end
  | ADec d => match dec_deser raw with Some d' => dec_py_eq d' d | None => false end
  | AQName t => match qname_deser raw m with Some t' => str_eqb t' t | None => false end
  end.

Fixpoint match_list (m : option nsmap) (raws : list str) (reals : list atom) : bool :=
  match raws, reals with
  | [], [] => true
  | x :: xs, y :: ys => match_atomic m x y && match_list m xs ys
  | _, _ => false
  end.

(* EnumConverter.match(value, values, length, real) for a str value *)
Definition enum_match (m : option nsmap) (value : str) (values : list str) (real : evalue) : bool :=
  match real with
  | EvAtom (AStr r) => str_eqb r value || str_eqb r (join [32] values)
  | EvTuple l | EvList l => (length l =? length values)%nat && match_list m values l
  | EvAtom a => (length values =? 1)%nat && match_atomic m value a
  end.

Fixpoint find_member (m : option nsmap) (value : str) (values : list str) (i : nat) (d : enum_def) : option nat :=
  match d with
  | [] => None
  | (_, real) :: r => if enum_match m value values real then Some i else find_member m value values (S i) r
  end.

(* the exact-match passes (repo fix 64a4ace): a str member equal to the literal *)
Fixpoint find_exact (v : str) (i : nat) (d : enum_def) : option nat :=
  match d with
  | [] => None
  | (_, EvAtom (AStr r)) :: t => if str_eqb r v then Some i else find_exact v (S i) t
  | _ :: t => find_exact v (S i) t
  end.

(* EnumConverter.deserialize(value: str, data_type=E, ns_map=m): index of the member.
   First a str member equal to the text as given, then one equal to the stripped
   text, then the per-member match on the stripped text and its tokens *)
Definition enum_deser (m : option nsmap) (d : enum_def) (s : str) : option nat :=
  match find_exact s 0 d with
  | Some i => Some i
  | None =>
      let value := py_strip s in
      match find_exact value 0 d with
      | Some i => Some i
      | None => find_member m value (split_ws py_isspace value) 0 d
      end
  end.

(* ConverterFactory.serialize of a member's value.  A list or (since /repo f0dd6fc)
   a tuple is a token list: the items are serialized and joined with spaces; the
   prefix map is threaded through (QName serialization may add prefixes) *)
Definition atom_ser (m : option nsmap) (a : atom) : option (str * option nsmap) :=
  match a with
  | AStr s => Some (s, m)
  | AInt z => option_map (fun s => (s, m)) (int_ser z)
  | ABool b => Some (bool_ser b, m)
  | ADec d => Some (dec_ser d, m)
  | AQName t => qname_ser t m
  end.

Fixpoint atoms_ser (m : option nsmap) (l : list atom) : option (list str * option nsmap) :=
  match l with
  | [] => Some ([], m)
  | a :: r =>
      match atom_ser m a with
      | None => None
      | Some (s, m1) =>
          match atoms_ser m1 r with
          | None => None
          | Some (ss, m2) => Some (s :: ss, m2)
          end
      end
  end.

Definition enum_ser (m : option nsmap) (v : evalue) : option (str * option nsmap) :=
  match v with
  | EvAtom a => atom_ser m a
  | EvList l | EvTuple l => option_map (fun p => (join [32] (fst p), snd p)) (atoms_ser m l)
  end.
