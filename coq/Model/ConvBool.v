(* Model/ConvBool.v — BoolConverter, StringConverter (xsdata/formats/converter.py).
   Executable, faithful; no proofs here. *)
From Coq Require Import NArith ZArith List Bool.
From XV Require Import Base.Str Base.PyInt Gen.ConvTables.
Import ListNotations.
Open Scope N_scope.

Definition str_in (v : str) (l : list str) : bool := existsb (str_eqb v) l.

(* BoolConverter.deserialize on a str: value.strip() (Python whitespace), then the
   two literal tuples, in that order; anything else is ConverterError (None) *)
Definition bool_deser (s : str) : option bool :=
  let v := py_strip s in
  if str_in v bool_true_literals then Some true
  else if str_in v bool_false_literals then Some false
  else None.

(* BoolConverter.serialize *)
Definition bool_ser (b : bool) : str := if b then bool_ser_true else bool_ser_false.

(* StringConverter: identity on str *)
Definition string_deser (s : str) : option str := Some s.
Definition string_ser (s : str) : str := s.
