(* Model/Sample.v — executable model of the sample-document mappers of xsdata:
     xsdata/codegen/mappers/element.py   ElementMapper.map / build_class / build_attributes /
                                         build_elements / build_text / sequential_groups /
                                         group_repeating_attrs
     xsdata/codegen/mappers/mixins.py    RawDocumentMapper.build_attr / build_attr_type /
                                         select_namespace / add_attribute
     xsdata/codegen/mappers/dict.py      DictMapper.map / build_class / build_class_attribute
     xsdata/codegen/utils.py             ClassUtils.flatten / reduce_classes / reduce_attributes /
                                         sorted_attrs / merge_attributes / cleanup_class / filter_types
     xsdata/utils/collections.py         unique_sequence / find / group_by / connected_components (on the
                                         index ranges group_repeating_attrs produces) / find_connected_component
   Faithful, including the defects; no proofs here.

   What is NOT modelled (stated in design.d/C13.md):
   * the converters: `converter.test(value, [tp], strict=True)` for tp in `converter.explicit_types()`
     is an input (`sconv`): a function from a text value to the list of the nine test results, which
     the correspondence check instantiates with the table recorded from the REAL converter on the
     values of the samples (`sconv_of_table`, fail-closed on a miss);
   * Attr.__post_init__'s renaming of names without any alphanumeric character (`name`), `index`
     is kept but nothing below reads it, `location`, `help`, ...;
   * Python's dict iteration order is insertion order (CPython >= 3.7). *)
From Coq Require Import String Ascii.
From Coq Require Import NArith ZArith List Bool PrimFloat.
From XV Require Import Base.Str Base.Eqb Base.PyInt Gen.ConvTables Gen.SampleTables.
Import ListNotations.
Open Scope N_scope.

(* ------------------------------------------------------------------ small helpers *)
(* ASCII literal -> str *)
Definition lit (s : string) : str := map N_of_ascii (list_ascii_of_string s).

Fixpoint assoc_str {A} (k : str) (l : list (str * A)) : option A :=
  match l with
  | [] => None
  | (k', v) :: r => if str_eqb k k' then Some v else assoc_str k r
  end.

Definition MISS : str := [60;109;105;115;115;62].   (* "<miss>": a table lookup the recorded run never made *)

Definition truthy (o : option str) : bool := match o with Some (_ :: _) => true | _ => false end.

(* ---- xsdata/utils/namespaces.py, xsdata/utils/text.py (same definitions as Model/Bind.v) *)
Fixpoint split_at (c : N) (s : str) : option (str * str) :=
  match s with
  | [] => None
  | x :: r => if N.eqb x c then Some ([], r)
              else match split_at c r with Some (a, b) => Some (x :: a, b) | None => None end
  end.

(* text.split(value, sep): left, _, right = value.partition(sep); (left, right) if right else (None, left) *)
Definition text_split (sep : N) (s : str) : option str * str :=
  match split_at sep s with
  | Some (l, r) => match r with [] => (None, l) | _ => (Some l, r) end
  | None => (None, s)
  end.

Definition split_qname (q : str) : option str * str :=
  match q with
  | 123 :: r =>
      match text_split 125 r with
      | (Some l, rgt) => match l with [] => (None, q) | _ => (Some l, rgt) end
      | (None, _) => (None, q)
      end
  | _ => (None, q)
  end.

Definition build_qname (ns : option str) (tag : str) : str :=
  match ns, tag with
  | Some ((_ :: _) as u), _ :: _ => [123] ++ u ++ [125] ++ tag
  | Some ((_ :: _) as u), [] => u
  | _, _ => tag
  end.

(* ------------------------------------------------------------------ inputs *)
(* AnyElement as the TreeParser builds it: qname, attributes (dict, insertion order), text, tail,
   children (all of them AnyElement) *)
Inductive tree :=
| T (qn : str) (atts : list (str * str)) (text tail : option str) (kids : list tree).

Definition t_qn (t : tree) := let 'T q _ _ _ _ := t in q.
Definition t_atts (t : tree) := let 'T _ a _ _ _ := t in a.
Definition t_text (t : tree) := let 'T _ _ x _ _ := t in x.
Definition t_tail (t : tree) := let 'T _ _ _ l _ := t in l.
Definition t_kids (t : tree) := let 'T _ _ _ _ k := t in k.

(* what json.load returns *)
Inductive json :=
| JNull | JBool (b : bool) | JInt (z : Z) | JFloat (f : float) | JStr (s : str)
| JList (l : list json) | JObj (l : list (str * json)).

(* ------------------------------------------------------------------ codegen records *)
Record atype := mk_atype { ty_qname : str; ty_native : bool; ty_forward : bool }.

Record attr := mk_attr {
  a_tag : str;                (* Tag.ELEMENT | Tag.ATTRIBUTE | Tag.SIMPLE_TYPE *)
  a_name : str;               (* local_name (= name unless the name has no alphanumeric character) *)
  a_ns : option str;
  a_types : list atype;
  a_min : N;                  (* restrictions.min_occurs *)
  a_max : N;                  (* restrictions.max_occurs; sys.maxsize = unbounded *)
  a_seq : N;                  (* restrictions.path = [("s", a_seq, 1, sys.maxsize)] if a_seq > 0 else [] *)
  a_index : nat
}.

(* a class with its inner classes (before ClassUtils.flatten) *)
Inductive klass :=
| K (qn : str) (ns : option str) (mixed nillable : bool) (attrs : list attr) (inner : list klass).

(* a flattened class *)
Record fclass := mk_fclass {
  c_qname : str; c_ns : option str; c_mixed : bool; c_nillable : bool; c_attrs : list attr
}.

Definition atype_eqb (a b : atype) : bool :=
  str_eqb (ty_qname a) (ty_qname b) && Bool.eqb (ty_native a) (ty_native b) && Bool.eqb (ty_forward a) (ty_forward b).

(* Attr.__eq__: tag, local_name, wrapper (always None here), namespace *)
Definition attr_eqb (a b : attr) : bool :=
  str_eqb (a_tag a) (a_tag b) && str_eqb (a_name a) (a_name b) && ostr_eqb (a_ns a) (a_ns b).

(* collections.find = list.index or -1 *)
Fixpoint find_idx (l : list attr) (a : attr) : option nat :=
  match l with
  | [] => None
  | x :: r => if attr_eqb x a then Some O else option_map S (find_idx r a)
  end.

(* collections.unique_sequence(items, key="qname") *)
Fixpoint unique_types_aux (seen : list str) (l : list atype) : list atype :=
  match l with
  | [] => []
  | t :: r => if existsb (str_eqb (ty_qname t)) seen then unique_types_aux seen r
              else t :: unique_types_aux (ty_qname t :: seen) r
  end.
Definition unique_types (l : list atype) : list atype := unique_types_aux [] l.

(* ------------------------------------------------------------------ datatypes *)
Definition dt_qname (member : str) : str :=
  match assoc_str member datatype_members with Some q => q | None => MISS end.

Definition DT_STRING := dt_qname (lit "STRING"%string).
Definition DT_QNAME := dt_qname (lit "QNAME"%string).
Definition DT_ANY_SIMPLE_TYPE := dt_qname (lit "ANY_SIMPLE_TYPE"%string).

(* DataType.from_type(tp) for the explicit types, as str(DataType) *)
Definition from_explicit_type (py : str) : str :=
  match assoc_str py explicit_type_datatype with Some m => dt_qname m | None => MISS end.

(* the strict converter tests, as recorded: value -> results for explicit_types() in order *)
Record sconv := mk_sconv { sc_row : str -> option (list bool) }.

Definition sconv_of_table (t : list (str * list bool)) : sconv := mk_sconv (fun v => assoc_str v t).

Fixpoint first_true {A} (l : list A) (row : list bool) : option A :=
  match l, row with
  | x :: l', b :: r' => if b then Some x else first_true l' r'
  | _, _ => None
  end.

(* match_type for a str value:
     for tp in converter.explicit_types(): if converter.test(val, [tp], strict=True): return DataType.from_type(tp)
     return DataType.STRING *)
Definition match_type_str (cv : sconv) (v : str) : str :=
  match sc_row cv v with
  | None => MISS
  | Some row => match first_true (map fst explicit_type_datatype) row with
                | Some tp => from_explicit_type tp
                | None => DT_STRING
                end
  end.

(* DataType.from_value for the non-str values json.load produces *)
Fixpoint int_datatype_rows_find (rows : list (Z * Z * str)) (z : Z) : option str :=
  match rows with
  | [] => None
  | (lo, hi, m) :: r => if (lo <=? z)%Z && (z <=? hi)%Z then Some m else int_datatype_rows_find r z
  end.
Definition int_datatype_q (z : Z) : str :=
  dt_qname (match int_datatype_rows_find int_datatype_rows z with Some m => m | None => int_datatype_default end).

Fixpoint float_datatype_rows_find (rows : list (float * float * str)) (f : float) : option str :=
  match rows with
  | [] => None
  | (lo, hi, m) :: r => if PrimFloat.leb lo f && PrimFloat.leb f hi then Some m else float_datatype_rows_find r f
  end.
Definition float_datatype_q (f : float) : str :=
  dt_qname (match float_datatype_rows_find float_datatype_rows f with Some m => m | None => float_datatype_default end).

(* RawDocumentMapper.build_attr_type for XML (value: Optional[str]) *)
Definition build_attr_type_str (cv : sconv) (qname : str) (value : option str) : atype :=
  let dt := if str_eqb qname qn_xsi_type then DT_QNAME
            else match value with
                 | None | Some [] => DT_ANY_SIMPLE_TYPE
                 | Some v => match_type_str cv v
                 end in
  mk_atype dt true false.

(* ... and for a JSON leaf: RawDocumentMapper.build_attr_type, then DictMapper.build_attr_type's override
   (since /repo fix 9a0cfef): a str value whose inferred datatype has one of the python types int, bool, float,
   Decimal stays xs:string *)
Definition json_string_kept (q : str) : bool :=
  match assoc_str q datatype_pytypes with
  | Some py => existsb (str_eqb py) json_string_kept_pytypes
  | None => false
  end.

Definition build_attr_type_json (cv : sconv) (qname : str) (value : json) : atype :=
  let dt := if str_eqb qname qn_xsi_type then DT_QNAME
            else match value with
                 | JNull | JStr [] => DT_ANY_SIMPLE_TYPE
                 | JStr v => match_type_str cv v
                 | JBool _ => dt_qname datatype_of_bool
                 | JInt z => int_datatype_q z
                 | JFloat f => float_datatype_q f
                 | JList _ | JObj _ => MISS           (* never reached: containers are handled by the caller *)
                 end in
  let dt' := match value with
             | JStr _ => if json_string_kept dt then dt_qname json_string_fallback else dt
             | _ => dt
             end in
  mk_atype dt' true false.

(* ------------------------------------------------------------------ RawDocumentMapper *)
Definition select_namespace (ns parent : option str) (tag : str) : option str :=
  if str_eqb tag tag_ATTRIBUTE then ns
  else match ns, parent with
       | None, Some _ => Some []
       | _, _ => ns
       end.

(* add_attribute: pos = find(target.attrs, attr); existing: max_occurs = maxsize, types extended + unique *)
Fixpoint add_attribute (attrs : list attr) (a : attr) : list attr :=
  match attrs with
  | [] => [a]
  | e :: r =>
      if attr_eqb e a then
        mk_attr (a_tag e) (a_name e) (a_ns e) (unique_types (a_types e ++ a_types a)) (a_min e) sys_maxsize
                (a_seq e) (a_index e) :: r
      else e :: add_attribute r a
  end.

Definition build_attr (attrs : list attr) (qname : str) (ty : atype) (parent_ns : option str) (tag : str)
           (sequence : N) (value_is_none : bool) : list attr :=
  let '(ns, name) := split_qname qname in
  let ns' := select_namespace ns parent_ns tag in
  add_attribute attrs (mk_attr tag name ns' [ty] (if value_is_none then 0 else 1) 1 sequence (length attrs)).

(* ------------------------------------------------------------------ ElementMapper *)
(* group_repeating_attrs: counters[qname] = indexes (insertion order = first occurrence);
   if more than one distinct name: range(first, last + 1) for every name that occurs more than once *)
Fixpoint counters_add (cs : list (str * (nat * nat * nat))) (q : str) (i : nat) : list (str * (nat * nat * nat)) :=
  match cs with
  | [] => [(q, (i, i, 1%nat))]
  | (q', (f, l, n)) :: r => if str_eqb q q' then (q', (f, i, S n)) :: r else (q', (f, l, n)) :: counters_add r q i
  end.

Fixpoint counters_of (i : nat) (names : list str) (cs : list (str * (nat * nat * nat))) : list (str * (nat * nat * nat)) :=
  match names with
  | [] => cs
  | q :: r => counters_of (S i) r (match q with [] => cs | _ => counters_add cs q i end)
  end.

Definition group_repeating (names : list str) : list (nat * nat) :=
  let cs := counters_of 0 names [] in
  if (1 <? length cs)%nat then
    map (fun e => let '(_, (f, l, _)) := e in (f, l)) (filter (fun e => let '(_, (_, _, n)) := e in (1 <? n)%nat) cs)
  else [].

(* connected_components on ranges that are listed by increasing start: a range joins the current
   component iff it starts inside it.  Components come out in the order of their first element. *)
Fixpoint merge_ranges (cur : option (nat * nat)) (l : list (nat * nat)) : list (nat * nat) :=
  match l with
  | [] => match cur with Some c => [c] | None => [] end
  | (f, e) :: r =>
      match cur with
      | None => merge_ranges (Some (f, e)) r
      | Some (cf, ce) => if (f <=? ce)%nat then merge_ranges (Some (cf, Nat.max ce e)) r
                         else (cf, ce) :: merge_ranges (Some (f, e)) r
      end
  end.

Definition sequential_groups (names : list str) : list (nat * nat) := merge_ranges None (group_repeating names).

(* find_connected_component(groups, index) + 1 *)
Fixpoint sequence_of (groups : list (nat * nat)) (i : nat) (k : N) : N :=
  match groups with
  | [] => 0
  | (f, e) :: r => if (f <=? i)%nat && (i <=? e)%nat then k else sequence_of r i (k + 1)
  end.

Definition is_nil_true (v : str) : bool :=
  existsb (str_eqb (if nil_value_stripped then py_strip v else v)) nil_true_literals.

(* build_attributes: returns (nillable, attrs) *)
Fixpoint build_attributes (cv : sconv) (atts : list (str * str)) (ns : option str) (acc : bool * list attr) : bool * list attr :=
  match atts with
  | [] => acc
  | (k, v) :: r =>
      let '(nilb, attrs) := acc in
      if str_eqb k qn_xsi_nil then build_attributes cv r ns (is_nil_true v, attrs)
      else build_attributes cv r ns (nilb, build_attr attrs k (build_attr_type_str cv k (Some v)) ns tag_ATTRIBUTE 0 false)
  end.

Definition k_qname (k : klass) : str := let 'K q _ _ _ _ _ := k in q.

Definition has_content (t : tree) : bool :=
  match t_atts t, t_kids t with [], [] => false | _, _ => true end.

Fixpoint build_class (cv : sconv) (t : tree) (parent_ns : option str) : klass :=
  match t with
  | T qn atts text tail kids =>
      let '(ns0, name) := split_qname qn in
      let ns := select_namespace ns0 parent_ns tag_ELEMENT in
      let '(nilb, attrs1) := build_attributes cv atts ns (false, []) in
      let groups := sequential_groups (map t_qn kids) in
      let '(attrs2, inner, mixed1) :=
        (fix elements (i : nat) (ks : list tree) (acc : list attr * list klass * bool) {struct ks} :=
           match ks with
           | [] => acc
           | k :: r =>
               match t_qn k with
               | [] => elements (S i) r acc              (* `if isinstance(child, AnyElement) and child.qname` *)
               | _ =>
                   let '(attrs, inner, mixed) := acc in
                   let mixed' := mixed || truthy (t_tail k) in
                   let '(ty, inner') :=
                     if has_content k then
                       let c := build_class cv k ns in (mk_atype (k_qname c) false true, inner ++ [c])
                     else (build_attr_type_str cv (t_qn k) (t_text k), inner) in
                   elements (S i) r (build_attr attrs (t_qn k) ty ns tag_ELEMENT (sequence_of groups i 1) false, inner', mixed')
               end
           end) O kids (attrs1, [], false) in
      (* build_text *)
      let '(attrs3, mixed2) :=
        if truthy text then
          let a := build_attr attrs2 text_attr_name (build_attr_type_str cv text_attr_name text) None tag_SIMPLE_TYPE 0 false in
          (a, mixed1 || existsb (fun x => str_eqb (a_tag x) tag_ELEMENT) a)
        else (attrs2, mixed1) in
      K (build_qname ns name) ns mixed2 nilb attrs3 inner
  end.

(* ------------------------------------------------------------------ ClassUtils.flatten *)
Definition flatten_attr (a : attr) : attr :=
  mk_attr (a_tag a) (a_name a) (a_ns a)
          (map (fun t => mk_atype (ty_qname t) (ty_native t) false) (unique_types (a_types a)))
          (a_min a) (a_max a) (a_seq a) (a_index a).

(* `while target.inner: yield from flatten(target.inner.pop())`: inner classes last to first, then the class *)
Fixpoint flatten (k : klass) : list fclass :=
  match k with
  | K q ns mixed nilb attrs inner =>
      (fix go (l : list klass) : list fclass :=
         match l with
         | [] => []
         | c :: r => go r ++ flatten c
         end) inner
      ++ [mk_fclass q ns mixed nilb (map flatten_attr attrs)]
  end.

(* ElementMapper.map *)
Definition map_tree (cv : sconv) (t : tree) : list fclass :=
  flatten (build_class cv t (fst (split_qname (t_qn t)))).

(* ------------------------------------------------------------------ DictMapper *)
Definition set_last_max (attrs : list attr) : list attr :=
  match rev attrs with
  | [] => []
  | a :: r => rev r ++ [mk_attr (a_tag a) (a_name a) (a_ns a) (a_types a) (a_min a) sys_maxsize (a_seq a) (a_index a)]
  end.

Definition is_jnull (v : json) : bool := match v with JNull => true | _ => false end.

(* build_class_attribute(target, name, value); state = (target.attrs, target.inner) *)
Fixpoint dict_attribute (cv : sconv) (st : list attr * list klass) (name : str) (v : json) {struct v} : list attr * list klass :=
  match v with
  | JList [] =>
      let '(attrs, inner) := st in
      (set_last_max (build_attr attrs name (build_attr_type_json cv name JNull) None tag_ELEMENT 0 true), inner)
  | JList l =>
      (fix each (l : list json) (st : list attr * list klass) {struct l} :=
         match l with
         | [] => st
         | x :: r => let '(attrs, inner) := dict_attribute cv st name x in each r (set_last_max attrs, inner)
         end) l st
  | JObj fs =>
      let '(attrs, inner) := st in
      let '(iattrs, iinner) :=
        (fix fields (fs : list (str * json)) (st : list attr * list klass) {struct fs} :=
           match fs with
           | [] => st
           | (k, x) :: r => fields r (dict_attribute cv st k x)
           end) fs ([], []) in
      let c := K name None false false iattrs iinner in
      (build_attr attrs name (mk_atype name false true) None tag_ELEMENT 0 false, inner ++ [c])
  | leaf =>
      let '(attrs, inner) := st in
      (build_attr attrs name (build_attr_type_json cv name leaf) None tag_ELEMENT 0 (is_jnull leaf), inner)
  end.

(* DictMapper.build_class(data, name) *)
Definition dict_class (cv : sconv) (name : str) (fs : list (str * json)) : klass :=
  let '(attrs, inner) := fold_left (fun st kv => dict_attribute cv st (fst kv) (snd kv)) fs ([], []) in
  K name None false false attrs inner.

(* process_json_documents: `if isinstance(data, dict): data = [data]`; one DictMapper.map per object *)
Definition map_json (cv : sconv) (name : str) (data : json) : list fclass :=
  match data with
  | JObj fs => flatten (dict_class cv name fs)
  | JList l => concat (map (fun o => match o with JObj fs => flatten (dict_class cv name fs) | _ => [] end) l)
  | _ => []
  end.

(* ------------------------------------------------------------------ ClassUtils.reduce_classes *)
(* collections.group_by(classes, key=get_qname): insertion-ordered dict of lists *)
Fixpoint group_add (gs : list (str * list fclass)) (c : fclass) : list (str * list fclass) :=
  match gs with
  | [] => [(c_qname c, [c])]
  | (q, l) :: r => if str_eqb q (c_qname c) then (q, l ++ [c]) :: r else (q, l) :: group_add r c
  end.
Definition group_by_qname (cs : list fclass) : list (str * list fclass) := fold_left group_add cs [].

(* classes.sort(key=lambda x: len(x.attrs), reverse=True): stable *)
Fixpoint insert_desc (x : list attr) (l : list (list attr)) : list (list attr) :=
  match l with
  | [] => [x]
  | y :: r => if (length y <=? length x)%nat then x :: l else y :: insert_desc x r
  end.
Definition sort_desc (cs : list (list attr)) : list (list attr) := fold_right insert_desc [] cs.

Fixpoint insert_at {A} (pos : nat) (ins l : list A) : list A :=
  match pos, l with
  | O, _ => ins ++ l
  | S p, x :: r => x :: insert_at p ins r
  | S _, [] => ins
  end.

(* sorted_attrs, one class: `pending` = the attrs of the class scanned since the last hit *)
Fixpoint scan (attrs pending rest : list attr) : list attr :=
  match rest with
  | [] => attrs ++ pending
  | x :: r =>
      match find_idx attrs x with
      | Some pos => scan (insert_at pos pending attrs) [] r
      | None => scan attrs (pending ++ [x]) r
      end
  end.
Definition sorted_attrs (cs : list (list attr)) : list attr := fold_left (fun acc c => scan acc [] c) cs [].

Definition or_default (d x : N) : N := if x =? 0 then d else x.

(* merge_attributes(target, source) *)
Definition merge_attributes (t s : attr) : attr :=
  mk_attr (a_tag t) (a_name t) (a_ns t)
          (fold_left (fun acc tp => if existsb (atype_eqb tp) acc then acc else acc ++ [tp]) (a_types s) (a_types t))
          (N.min (a_min t) (a_min s))
          (N.max (or_default 1 (a_max t)) (or_default 1 (a_max s)))
          (a_seq t) (a_index t).

Fixpoint remove_at {A} (pos : nat) (l : list A) : list A :=
  match pos, l with
  | _, [] => []
  | O, _ :: r => r
  | S p, x :: r => x :: remove_at p r
  end.

(* the inner loop of reduce_attributes for one attr of sorted_attrs:
   (classes with the attr popped, result[-1] if something was added, optional) *)
Fixpoint reduce_pass (a : attr) (cs : list (list attr)) (cur : option attr) (optional : bool)
  : list (list attr) * option attr * bool :=
  match cs with
  | [] => ([], cur, optional)
  | c :: r =>
      match find_idx c a with
      | None => let '(r', cur', o') := reduce_pass a r cur true in (c :: r', cur', o')
      | Some pos =>
          match nth_error c pos with
          | None => let '(r', cur', o') := reduce_pass a r cur optional in (c :: r', cur', o')   (* unreachable *)
          | Some x =>
              let cur1 := match cur with None => x | Some t => merge_attributes t x end in
              let '(r', cur', o') := reduce_pass a r (Some cur1) optional in (remove_at pos c :: r', cur', o')
          end
      end
  end.

Definition set_min0 (a : attr) : attr :=
  mk_attr (a_tag a) (a_name a) (a_ns a) (a_types a) 0 (a_max a) (a_seq a) (a_index a).

Definition set_last_min0 (l : list attr) : list attr :=
  match rev l with
  | [] => []
  | a :: r => rev r ++ [set_min0 a]
  end.

Fixpoint reduce_loop (sorted : list attr) (cs : list (list attr)) (result : list attr) : list attr :=
  match sorted with
  | [] => result
  | a :: r =>
      let '(cs', cur, opt) := reduce_pass a cs None false in
      let result1 := match cur with Some x => result ++ [x] | None => result end in
      reduce_loop r cs' (if opt then set_last_min0 result1 else result1)
  end.

Definition reduce_attributes (cs : list (list attr)) : list attr :=
  let cs' := sort_desc cs in
  reduce_loop (sorted_attrs cs') cs' [].

(* filter_types *)
Definition is_datatype_in (members : list str) (t : atype) : bool :=
  ty_native t && existsb (fun m => str_eqb (ty_qname t) (dt_qname m)) members.

Definition filter_types (types : list atype) : list atype :=
  let t1 := unique_types types in
  let t2 := filter (fun t => negb (is_datatype_in filter_always t)) t1 in
  let t3 := if (1 <? length t2)%nat then filter (fun t => negb (is_datatype_in filter_when_many t)) t2 else t2 in
  match t3 with
  | [] => [mk_atype (dt_qname filter_fallback) true false]
  | _ => t3
  end.

Definition cleanup_attr (a : attr) : attr :=
  mk_attr (a_tag a) (a_name a) (a_ns a) (filter_types (a_types a)) (a_min a) (a_max a) (a_seq a) (a_index a).

(* target.namespace (since /repo fix 6637729): group[0]'s, but "" when that is None and some class of the group
   has the namespace "" *)
Definition group_ns (g : list fclass) (first : fclass) : option str :=
  match c_ns first with
  | None => if existsb (fun c => match c_ns c with Some [] => true | _ => false end) g then Some [] else None
  | ns => ns
  end.

Definition reduce_group (g : list fclass) : option fclass :=
  match g with
  | [] => None
  | first :: _ =>
      Some (mk_fclass (c_qname first) (group_ns g first) (existsb c_mixed g) (existsb c_nillable g)
                      (map cleanup_attr (reduce_attributes (map c_attrs g))))
  end.

Definition reduce_classes (cs : list fclass) : list fclass :=
  flat_map (fun g => match reduce_group (snd g) with Some c => [c] | None => [] end) (group_by_qname cs).

(* ------------------------------------------------------------------ the two entry points *)
(* process_xml_documents / process_json_documents up to ClassUtils.reduce_classes *)
Definition classes_of_xml (cv : sconv) (samples : list tree) : list fclass :=
  reduce_classes (concat (map (map_tree cv) samples)).

Definition classes_of_json (cv : sconv) (name : str) (samples : list json) : list fclass :=
  reduce_classes (concat (map (map_json cv name) samples)).
