(* Model/ConvGuards.v — the computable guards of the C05 theorems.  Defined here
   (not in Proofs/) so that the generated case files of the check evaluate the very
   same definitions the theorems are stated with. *)
From Coq Require Import NArith ZArith List Bool.
From XV Require Import Base.Str Base.Dec Base.PyInt Gen.ConvTables
  Model.ConvInt Model.ConvBytes Model.ConvDecimal Model.ConvQName Spec.XsdPrims Spec.XsdDates.
Import ListNotations.
Open Scope N_scope.

(* int: the interpreter's int<->str digit limit *)
Definition int_sp_in_limit (i : integer_sp) : bool :=
  N.of_nat (length (i_digits i)) <=? int_max_str_digits.

(* bytes are octets *)
Definition bytes_ok (b : list N) : bool := forallb (fun x => x <? 256) b.

(* Decimal: xs:decimal has no infinities or NaNs *)
Definition dec_finite (d : pydec) : bool := match d with DFin _ _ _ => true | _ => false end.
(* the exponent range of libmpdec (unreachable below 10^18 characters) *)
Definition dec_sp_fits (d : decimal_sp) : bool :=
  let v := val_decimal d in dec_fits (dn_coeff v) (dn_exp v).

(* ---- QName ---------------------------------------------------------------- *)
(* a dict has pairwise distinct keys *)
Fixpoint nodup_keys (m : nsmap) : bool :=
  match m with
  | [] => true
  | (k, _) :: r => negb (existsb (fun e => okey_eqb (fst e) k) r) && nodup_keys r
  end.
(* QNameConverter.resolve strips with str.strip(): a name that begins or ends with a
   character Python counts as whitespace (U+1680 is an XML NameStartChar) loses it *)
Definition name_edges_ok (s : str) : bool :=
  negb (py_isspace (hd 0 s)) && negb (py_isspace (last s 0)).
(* prefixes are names (None = the default namespace) *)
Definition wf_prefix_key (k : option str) : bool :=
  match k with None => true | Some p => is_ncname p && name_edges_ok p end.
Definition wf_nsmap (m : nsmap) : bool := forallb (fun e => wf_prefix_key (fst e)) m && nodup_keys m.

(* clause 1 (Clark notation, ns_map=None): is_uri must accept the namespace name *)
Definition clark_uri_ok (u : str) : bool := is_uri (Some u).
(* clause 2 (a no-namespace QName under a map with a default namespace) *)
Definition no_default_ns (m : nsmap) : bool := negb (truthy (ns_get None m)).

(* the value QName(uri, local) / QName(local) *)
Definition qname_text (uri : option str) (local : str) : str := clark uri local.

Definition qname_rt_inputs_ok (uri : option str) (local : str) (m : option nsmap) : bool :=
  is_ncname local
  && match uri with Some [] => false | Some u => negb (mem 125 u) | None => true end   (* '}' cannot occur in the URI of a Clark text *)
  && match m with None => true | Some mm => wf_nsmap mm end.
Definition qname_rt_clause_clark (uri : option str) (m : option nsmap) : bool :=
  match m, uri with None, Some u => clark_uri_ok u | _, _ => true end.
Definition qname_rt_clause_default (uri : option str) (m : option nsmap) : bool :=
  match m, uri with Some mm, None => no_default_ns mm | _, _ => true end.
(* clause 3 (the local part keeps its first and last character under str.strip()) *)
Definition qname_rt_clause_edges (local : str) : bool := name_edges_ok local.
Definition qname_rt_guard (uri : option str) (local : str) (m : option nsmap) : bool :=
  qname_rt_inputs_ok uri local m && qname_rt_clause_clark uri m && qname_rt_clause_default uri m
  && qname_rt_clause_edges local.

(* accepting xs:QName: the same clause for the spelled prefix and local part *)
Definition qname_sp_edge_guard (q : qname_sp) : bool :=
  name_edges_ok (q_local q) && match q_prefix q with None => true | Some p => name_edges_ok p end.

(* ---- reading a text with the specification's own grammar ------------------------
   (the reading is always re-printed and compared with the text, so these
   functions carry no trust) *)
Definition parse_sign_sp (s : str) : sign_sp * str :=
  match s with
  | 45 :: r => (SgMinus, r)
  | 43 :: r => (SgPlus, r)
  | _ => (SgNone, s)
  end.
Definition parse_decimal_body (sg : sign_sp) (r : str) : decimal_sp * str :=
  let '(ip, r1) := span is_ascii_digit r in
  match r1 with
  | 46 :: t => let '(fp, r2) := span is_ascii_digit t in (mk_decimal_sp sg ip (Some fp), r2)
  | _ => (mk_decimal_sp sg ip None, r1)
  end.
Definition parse_decimal_sp (s : str) : decimal_sp :=
  let '(sg, r) := parse_sign_sp s in fst (parse_decimal_body sg r).
Definition parse_double_sp (s : str) : double_sp :=
  let '(sg, r) := parse_sign_sp s in
  if str_eqb r [73;78;70] then DbInf sg
  else if str_eqb s [78;97;78] then DbNaN
  else
    let '(m, r2) := parse_decimal_body sg r in
    match r2 with
    | [] => DbNum m None
    | c :: t => let '(xs, ds) := parse_sign_sp t in DbNum m (Some (mk_exp_sp (c =? 69) xs ds))
    end.

(* the shape of repr(x) for a finite float, as assumed of CPython: optional '-',
   digits, optional '.' digits, optional 'e' with an explicit sign and digits *)
Definition is_repr_sp (d : double_sp) : bool :=
  match d with
  | DbNum m ex =>
      match dc_sign m with SgPlus => false | _ => true end
      && negb (length (dc_int m) =? 0)%nat
      && match dc_frac m with None => true | Some f => negb (length f =? 0)%nat end
      && match ex with
         | None => true
         | Some x => negb (x_upper x) && match x_sign x with SgNone => false | _ => true end
         end
  | _ => false
  end.
Definition repr_shape_ok (s : str) : bool :=
  let d := parse_double_sp s in wf_double d && is_repr_sp d && str_eqb (lex_double d) s.

(* the g* datatype whose lexical space a spelling belongs to *)
Definition period_kind (p : period_sp) : str :=
  match p with
  | GDay _ _ => dt_G_DAY | GMonth _ _ => dt_G_MONTH | GMonthDay _ _ _ => dt_G_MONTH_DAY
  | GYear _ _ => dt_G_YEAR | GYearMonth _ _ _ => dt_G_YEAR_MONTH
  end.

