(* Model/PycodeText.v — the text PycodeSerializer.write produces, character for character:
   layout of repr_array / repr_mapping / repr_model (indentation, commas, the empty
   forms), CPython's repr of str and bytes, str of int.  The text of finite floats is
   CPython's shortest round-trip repr and is not modelled: [ft] supplies it.
   This printer is not used by the theorems (they speak about the expression CPython
   parses out of the text); it is compared with the implementation's output for
   information (layout drift does not affect the property). *)
From Coq Require Import NArith ZArith List Bool String.
From XV Require Import Base.Str Base.Dec Base.Eqb Spec.PyEval Model.Pycode Gen.PycodeTables.
Import ListNotations.
Notation length := List.length.

Definition py_isprintable (c : N) : bool :=
  existsb (fun r => N.leb (fst r) c && N.leb c (snd r)) py_printable_ranges.

Definition hex_digit (n : N) : N := if N.ltb n 10 then (48 + n)%N else (87 + n)%N.
Fixpoint hex_w (w : nat) (c : N) : str :=
  match w with O => [] | S k => hex_w k (c / 16) ++ [hex_digit (c mod 16)] end.

(* quote choice of unicode_repr / bytes_repr *)
Definition py_quote (s : str) : N := if mem 39 s && negb (mem 34 s) then 34%N else 39%N.

Definition esc_str_char (q c : N) : str :=
  if N.eqb c q || N.eqb c 92 then [92%N; c]
  else if N.eqb c 9 then lit "\t" else if N.eqb c 10 then lit "\n" else if N.eqb c 13 then lit "\r"
  else if N.ltb c 32 || N.eqb c 127 then lit "\x" ++ hex_w 2 c
  else if N.ltb c 127 then [c]
  else if py_isprintable c then [c]
  else if N.ltb c 256 then lit "\x" ++ hex_w 2 c
  else if N.ltb c 65536 then lit "\u" ++ hex_w 4 c
  else lit "\U" ++ hex_w 8 c.
Definition py_repr_str (s : str) : str :=
  let q := py_quote s in [q] ++ flat_map (esc_str_char q) s ++ [q].

Definition esc_bytes_char (q c : N) : str :=
  if N.eqb c q || N.eqb c 92 then [92%N; c]
  else if N.eqb c 9 then lit "\t" else if N.eqb c 10 then lit "\n" else if N.eqb c 13 then lit "\r"
  else if N.ltb c 32 || N.leb 127 c then lit "\x" ++ hex_w 2 c
  else [c].
Definition py_repr_bytes (b : str) : str :=
  let q := py_quote b in [98%N; q] ++ flat_map (esc_bytes_char q) b ++ [q].

Definition indent (lvl : nat) : str := List.concat (repeat (lit "    ") lvl).
Definition args_text (l : list Z) : str := join (lit ", ") (map py_str_of_Z l).
Definition dq (t : str) : str := [34%N] ++ t ++ [34%N].

Fixpoint text (W : world) (ft : Z -> str) (lvl : nat) (v : value) {struct v} : str :=
  let array (opening closing : str) (l : list value) : str :=
    opening ++ [10%N]
    ++ (fix go (l : list value) : str :=
          match l with
          | [] => []
          | x :: r => indent (S lvl) ++ text W ft (S lvl) x ++ lit "," ++ [10%N] ++ go r
          end) l
    ++ indent lvl ++ closing in
  match v with
  | VNone => lit "None"
  | VBool b => if b then lit "True" else lit "False"
  | VInt z => py_str_of_Z z
  | VFloat bits => if fl_isfinite bits then ft bits else lit "float(" ++ dq (nonfinite_text bits) ++ lit ")"
  | VStr s => py_repr_str s
  | VBytes _ b => py_repr_bytes b
  | VDecimal s => lit "Decimal('" ++ s ++ lit "')"
  | VQName t => lit "QName(" ++ [34%N] ++ flat_map (esc_str_char 34) t ++ [34%N] ++ lit ")"
  | VXml k args off => xml_name k ++ lit "(" ++ args_text (xml_repr_args k args off) ++ lit ")"
  | VDuration d => lit "XmlDuration(" ++ dq d ++ lit ")"
  | VPeriod d => lit "XmlPeriod(" ++ dq d ++ lit ")"
  | VStd k args => lit "datetime." ++ std_name k ++ lit "(" ++ args_text (std_repr_args k args) ++ lit ")"
  | VEnum c m => join (lit ".") (snd c) ++ lit "." ++ m
  | VFlag c z => join (lit ".") (snd c) ++ lit "(" ++ py_str_of_Z z ++ lit ")"
  | VList l => match l with [] => lit "[]" | _ => array (lit "[") (lit "]") l end
  | VTuple l => match l with [] => lit "()" | _ => array (lit "(") (lit ")") l end
  | VSet fz l =>
      match l with
      | [] => if fz then lit "frozenset()" else lit "set()"
      | _ => if fz then array (lit "frozenset({") (lit "})") l else array (lit "{") (lit "}") l
      end
  | VDict kv =>
      match kv with
      | [] => lit "{}"
      | _ =>
          lit "{" ++ [10%N]
          ++ (fix go (l : list (value * value)) : str :=
                match l with
                | [] => []
                | (k, x) :: r =>
                    indent (S lvl) ++ text W ft (S lvl) k ++ lit ": " ++ text W ft (S lvl) x ++ lit "," ++ [10%N] ++ go r
                end) kv
          ++ indent lvl ++ lit "}"
      end
  | VObj c fs =>
      match find_data W c with
      | Some fds =>
          join (lit ".") (snd c) ++ lit "(" ++ [10%N]
          ++ (fix go (first : bool) (fds : list fdesc) (fs : list (str * value)) {struct fs} : str :=
                match fds, fs with
                | fd :: fds', (_, x) :: fs' =>
                    if printed fd x
                    then (if first then [] else lit "," ++ [10%N])
                         ++ indent (S lvl) ++ f_name fd ++ lit "=" ++ text W ft (S lvl) x ++ go false fds' fs'
                    else go first fds' fs'
                | _, _ => []
                end) true fds fs
          ++ [10%N] ++ indent lvl ++ lit ")"
      | None => []
      end
  end.

(* out.write(imports); out.write("\n\n"); out.write(f"{var_name} = "); out.write(body); out.write("\n") *)
Definition render_text (W : world) (ft : Z -> str) (var : str) (v : value) : str :=
  List.concat (map import_text (imports W v)) ++ [10%N; 10%N] ++ var ++ lit " = " ++ text W ft 0 v ++ [10%N].

Definition float_table (l : list (Z * str)) (bits : Z) : str :=
  match find (fun p => Z.eqb (fst p) bits) l with Some p => snd p | None => [] end.

Definition agree_text (c : world * value * list (Z * str) * str) : bool :=
  let '(W, v, fl, observed) := c in str_eqb (render_text W (float_table fl) (lit "obj") v) observed.
