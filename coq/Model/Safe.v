(* Model/Safe.v — executable model of xsdata/utils/text.py (split_words, classify,
   alnum, the *_case functions, capitalize, is_reserved) and of the naming filters of
   xsdata/formats/dataclass/filters.py (safe_name, class_name, field_name,
   constant_name, module_name, package_name) plus namespaces.clean_uri.
   Faithful, including defects; no proofs here.

   Python facts used (checked by the correspondence harness, harness/c07.py):
   * classify / alnum look at ASCII code points only, so every str.lower/upper/title
     in text.py is applied to ASCII alphanumerics (plus "_" for screaming snake).
   * re `\W` on str = not (str.isalnum() or "_")     -> table Gen.SafeTables.py_alnum_ranges
   * re `\d` on str = str.isdecimal()                -> Base.PyInt.py_isdecimal
   * re `$` matches at the end and before a final "\n".
   * substitutions (config.substitutions) are NOT modelled: the models are the
     filters with an empty substitution list (the default configuration). *)
From Coq Require Import NArith List Bool String.
From XV Require Import Base.Str Base.PyInt Gen.SafeTables.
Import ListNotations.
Open Scope N_scope.

Definition lit (s : string) : str := map Ascii.N_of_ascii (list_ascii_of_string s).

(* ------------------------------------------------------------------ tables *)
Fixpoint in_ranges (c : N) (rs : list (N * N)) : bool :=
  match rs with
  | [] => false
  | (a, b) :: r => ((a <=? c) && (c <=? b)) || in_ranges c r
  end.

Definition py_isalnum (c : N) : bool := in_ranges c py_alnum_ranges.
Definition py_word (c : N) : bool := py_isalnum c || (c =? 95).       (* regex \w *)
Definition py_xid_start (c : N) : bool := in_ranges c py_xid_start_ranges.
Definition py_xid_continue (c : N) : bool := in_ranges c py_xid_continue_ranges.

Definition str_in (s : str) (l : list str) : bool := existsb (str_eqb s) l.
Definition is_reserved (s : str) : bool := str_in s stop_words.

(* ------------------------------------------------------------------ text.py *)
Inductive ctype := CUpper | CLower | CNumeric | COther.

Definition ctype_eqb (a b : ctype) : bool :=
  match a, b with
  | CUpper, CUpper | CLower, CLower | CNumeric, CNumeric | COther, COther => true
  | _, _ => false
  end.

Definition in_open (b : N * N) (c : N) : bool := (fst b <? c) && (c <? snd b).

Definition classify (c : N) : ctype :=
  if in_open classify_upper c then CUpper
  else if in_open classify_lower c then CLower
  else if in_open classify_numeric c then CNumeric
  else COther.

Definition flush (buf : str) (rest : list str) : list str :=
  match buf with [] => rest | _ => rev buf :: rest end.

(* buf is the buffer in reverse; prev = None is Python's `previous = None` *)
Fixpoint split_words_aux (prev : option ctype) (buf : str) (s : str) : list str :=
  match s with
  | [] => flush buf []
  | c :: r =>
      let tp := classify c in
      match tp with
      | COther => flush buf (split_words_aux (Some COther) [] r)
      | _ =>
          match prev with
          | None => split_words_aux (Some tp) (c :: buf) r
          | Some p =>
              if ctype_eqb tp p then split_words_aux (Some tp) (c :: buf) r
              else if ctype_eqb tp CUpper && negb (ctype_eqb p CUpper)
                   then flush buf (split_words_aux (Some tp) [c] r)
              else split_words_aux (Some tp) (c :: buf) r
          end
      end
  end.

Definition split_words (s : str) : list str := split_words_aux None [] s.

Definition is_ascii_alnum (c : N) : bool := is_ascii_digit c || is_ascii_alpha c.

(* "".join(filter(__alnum_ascii__.__contains__, value)).lower() *)
Definition alnum (s : str) : str := map ascii_lower (filter is_ascii_alnum s).

Definition lower (s : str) : str := map ascii_lower s.
Definition upper (s : str) : str := map ascii_upper s.

(* str.title() on a string of ASCII alphanumerics: a letter is upper-cased when the
   previous character is not a letter (start, or a digit), lower-cased otherwise *)
Fixpoint title_aux (prev_cased : bool) (s : str) : str :=
  match s with
  | [] => []
  | c :: r =>
      if is_ascii_alpha c
      then (if prev_cased then ascii_lower c else ascii_upper c) :: title_aux true r
      else c :: title_aux false r
  end.
Definition title (s : str) : str := title_aux false s.

Definition concat_words (l : list str) : str := List.concat l.
Definition us : str := [95].

Definition pascal_case (s : str) : str := concat_words (map title (split_words s)).

(* result[0].lower() + result[1:]  -- IndexError on the empty result *)
Definition camel_case (s : str) : option str :=
  match pascal_case s with
  | [] => None
  | c :: r => Some (ascii_lower c :: r)
  end.

Definition mixed_case (s : str) : str := concat_words (split_words s).

(* capitalize: value[0].upper() + value[1:] -- IndexError on "" *)
Definition capitalize (s : str) : option str :=
  match s with [] => None | c :: r => Some (ascii_upper c :: r) end.

Definition mixed_pascal_case (s : str) : option str := capitalize (mixed_case s).
Definition mixed_snake_case (s : str) : str := join us (split_words s).
Definition snake_case (s : str) : str := join us (map lower (split_words s)).
Definition screaming_snake_case (s : str) : str := upper (snake_case s).
Definition kebab_case (s : str) : str := join [45] (split_words s).

(* re.sub(r"\W", "", value) then re.sub(r"^[^a-zA-Z_]+", "", value) *)
Definition is_az_us (c : N) : bool := is_ascii_alpha c || (c =? 95).
Definition original_case (s : str) : str :=
  lstrip_by (fun c => negb (is_az_us c)) (filter py_word s).

Inductive name_case :=
  | Original | Pascal | Camel | Snake | ScreamingSnake | Mixed | MixedSnake | MixedPascal.

Definition apply_case (k : name_case) (s : str) : option str :=
  match k with
  | Original => Some (original_case s)
  | Pascal => Some (pascal_case s)
  | Camel => camel_case s
  | Snake => Some (snake_case s)
  | ScreamingSnake => Some (screaming_snake_case s)
  | Mixed => Some (mixed_case s)
  | MixedSnake => Some (mixed_snake_case s)
  | MixedPascal => mixed_pascal_case s
  end.

(* name of the text.py function -> constructor; NameCase value -> function via the table *)
Definition case_of_func (f : str) : option name_case :=
  if str_eqb f (lit "original_case") then Some Original
  else if str_eqb f (lit "pascal_case") then Some Pascal
  else if str_eqb f (lit "camel_case") then Some Camel
  else if str_eqb f (lit "snake_case") then Some Snake
  else if str_eqb f (lit "screaming_snake_case") then Some ScreamingSnake
  else if str_eqb f (lit "mixed_case") then Some Mixed
  else if str_eqb f (lit "mixed_snake_case") then Some MixedSnake
  else if str_eqb f (lit "mixed_pascal_case") then Some MixedPascal
  else None.

Definition case_of_value (v : str) : option name_case :=
  match find (fun kv => str_eqb (fst kv) v) name_case_table with
  | Some kv => case_of_func (snd kv)
  | None => None
  end.

(* ------------------------------------------------------------------ Filters.safe_name *)
(* re.match(r"^-\d*\.?\d+$", name) *)
Definition all_decimal (s : str) : bool := forallb py_isdecimal s.
Definition strip_final_newline (s : str) : str :=
  match rev s with 10 :: r => rev r | _ => s end.
(* body of the number after the "-":  \d* \.? \d+  *)
Definition minus_body_ok (body : str) : bool :=
  let '(a, b) := span py_isdecimal body in
  match b with
  | [] => negb (match a with [] => true | _ => false end)
  | 46 :: f => negb (match f with [] => true | _ => false end) && all_decimal f
  | _ => false
  end.

Definition minus_number (name : str) : bool :=
  match name with
  | 45 :: body0 =>
      (* `$` also matches just before a final newline: both readings are tried *)
      minus_body_ok body0 || minus_body_ok (strip_final_newline body0)
  | _ => false
  end.

Inductive sres := SOk (r : str) | SFuel | SErr.

Definition slug_alpha (name : str) : bool :=
  match alnum name with c :: _ => is_ascii_alpha c | [] => false end.

Fixpoint safe_name (fuel : nat) (prefix : str) (case : str -> option str) (name : str) : sres :=
  match fuel with
  | O => SFuel
  | S k =>
      match name with
      | [] => safe_name k prefix case prefix
      | _ =>
          if minus_number name then safe_name k prefix case (prefix ++ lit "_minus_" ++ name)
          else if negb (slug_alpha name) then safe_name k prefix case (prefix ++ us ++ name)
          else match case name with
               | None => SErr
               | Some r => if is_reserved r then safe_name k prefix case (name ++ us ++ prefix)
                           else SOk r
               end
      end
  end.

(* the recursion depth CPython allows is about 1000; every terminating call needs at
   most 15 (Proofs/SafeTerm.v), a non-terminating one exhausts any fuel *)
Definition safe_fuel : nat := 64.

(* ------------------------------------------------------------------ namespaces.clean_uri *)
(* text.split(value, ":") = (left, right) if right else (None, left) after partition *)
Fixpoint partition_chr (c : N) (s : str) : str * bool * str :=
  match s with
  | [] => ([], false, [])
  | x :: r => if x =? c then ([], true, r)
              else let '(a, f, b) := partition_chr c r in (x :: a, f, b)
  end.

Definition text_split (value : str) : option str * str :=
  let '(l, _, r) := partition_chr 58 value in
  match r with [] => (None, l) | _ => (Some l, r) end.

Definition clean_uri (namespace : str) : str :=
  let ns1 := match namespace with 35 :: 35 :: r => r | _ => namespace end in
  let '(lft, rgt) := text_split ns1 in
  let ns2 :=
    match lft with
    | Some l =>
        if str_eqb l (lit "urn") then rgt
        else if str_eqb l (lit "http") || str_eqb l (lit "https") then skipn 2 rgt
        else ns1
    | None => ns1
    end in
  join us (filter (fun x => negb (str_in x uri_ignore)) (split_chr 46 ns2)).

(* ------------------------------------------------------------------ the filters *)
Record conventions := mk_conv {
  class_case : name_case; class_prefix : str;
  field_case : name_case; field_prefix : str;
  constant_case : name_case; constant_prefix : str;
  module_case : name_case; module_prefix : str;
  package_case : name_case; package_prefix : str }.

Definition dflt (o : option name_case) : name_case := match o with Some k => k | None => Original end.

(* Filters.__init__ (fix for C07-F6): every safe prefix must put a letter first among its ASCII
   alphanumerics, else CodegenError("Safe prefix must start with a letter") *)
Definition valid_prefix (p : str) : bool := slug_alpha p.
Definition filters_init (cv : conventions) : bool :=
  valid_prefix (class_prefix cv) && valid_prefix (field_prefix cv) && valid_prefix (constant_prefix cv)
  && valid_prefix (package_prefix cv) && valid_prefix (module_prefix cv).

Definition default_conventions : conventions :=
  mk_conv (dflt (case_of_value conv_class_name_case)) conv_class_name_prefix
          (dflt (case_of_value conv_field_name_case)) conv_field_name_prefix
          (dflt (case_of_value conv_constant_name_case)) conv_constant_name_prefix
          (dflt (case_of_value conv_module_name_case)) conv_module_name_prefix
          (dflt (case_of_value conv_package_name_case)) conv_package_name_prefix.

Definition class_name (cv : conventions) (name : str) : sres :=
  safe_name safe_fuel (class_prefix cv) (apply_case (class_case cv)) name.
Definition field_name (cv : conventions) (name : str) : sres :=
  safe_name safe_fuel (field_prefix cv) (apply_case (field_case cv)) name.
(* Filters.constant_name reads field_safe_prefix (sic) *)
Definition constant_name (cv : conventions) (name : str) : sres :=
  safe_name safe_fuel (if constant_name_uses_field_prefix then field_prefix cv else constant_prefix cv)
            (apply_case (constant_case cv)) name.
Definition module_name (cv : conventions) (name : str) : sres :=
  safe_name safe_fuel (module_prefix cv) (apply_case (module_case cv)) (clean_uri name).

Fixpoint sres_join (l : list sres) : option (list str) + bool (* inr true = fuel, inr false = err *) :=
  match l with
  | [] => inl (Some [])
  | SOk r :: t => match sres_join t with
                  | inl (Some rs) => inl (Some (r :: rs))
                  | x => x
                  end
  | SFuel :: _ => inr true
  | SErr :: _ => inr false
  end.

(* Python evaluates the parts lazily inside ".".join(map(...)): the first failing part
   raises; parts are processed left to right *)
Definition package_name (cv : conventions) (name : str) : sres :=
  match name with
  | [] => SOk []
  | _ =>
      let parts := map (safe_name safe_fuel (package_prefix cv) (apply_case (package_case cv)))
                       (split_chr 46 name) in
      match sres_join parts with
      | inl (Some rs) => SOk (join [46] rs)
      | inl None => SErr
      | inr true => SFuel
      | inr false => SErr
      end
  end.
