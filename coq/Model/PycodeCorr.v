(* Model/PycodeCorr.v — predicates evaluated by the generated case files of C18.
   A case = (world, instance, what the implementation did):
     o_imports : the `from m import n` lines of the rendered text, in order
     o_expr    : the right-hand side of `obj = ...` as parsed by CPython's ast.parse
                 (None: the text is not valid Python / not of the expected shape)
     o_exec    : the object bound to `obj` by exec in a fresh namespace (None: exec raised)
     o_equal   : NaN-tolerant == of that object with the original, computed by Python *)
From Coq Require Import NArith ZArith List Bool.
From XV Require Import Base.Str Base.Eqb Spec.PyEval Model.Pycode.
Import ListNotations.

Record obs := { o_imports : list import_line; o_expr : option pyexpr; o_exec : option value; o_equal : bool }.
Definition ccase := (world * value * obs)%type.

Definition line_eqb (a b : import_line) : bool := str_eqb (fst a) (fst b) && ostr_eqb (snd a) (snd b).

Fixpoint pyexpr_eqb (a b : pyexpr) {struct a} : bool :=
  match a with
  | ENone => match b with ENone => true | _ => false end
  | EBool x => match b with EBool y => Bool.eqb x y | _ => false end
  | EInt x => match b with EInt y => Z.eqb x y | _ => false end
  | EFloat x => match b with EFloat y => Z.eqb x y | _ => false end
  | EStr x => match b with EStr y => str_eqb x y | _ => false end
  | EBytes x => match b with EBytes y => str_eqb x y | _ => false end
  | EGarbled x => match b with EGarbled y => str_eqb x y | _ => false end
  | EName p => match b with EName q => path_eqb p q | _ => false end
  | ECall f args kws =>
      match b with
      | ECall f' args' kws' =>
          path_eqb f f'
          && (fix go (l l' : list pyexpr) : bool :=
                match l, l' with
                | [], [] => true
                | x :: r, y :: r' => pyexpr_eqb x y && go r r'
                | _, _ => false
                end) args args'
          && (fix gk (l : list (str * pyexpr)) (l' : list (str * pyexpr)) : bool :=
                match l, l' with
                | [], [] => true
                | (n, x) :: r, (n', y) :: r' => str_eqb n n' && pyexpr_eqb x y && gk r r'
                | _, _ => false
                end) kws kws'
      | _ => false
      end
  | EList l =>
      match b with
      | EList l' =>
          (fix go (l l' : list pyexpr) : bool :=
             match l, l' with
             | [], [] => true
             | x :: r, y :: r' => pyexpr_eqb x y && go r r'
             | _, _ => false
             end) l l'
      | _ => false
      end
  | ETuple l =>
      match b with
      | ETuple l' =>
          (fix go (l l' : list pyexpr) : bool :=
             match l, l' with
             | [], [] => true
             | x :: r, y :: r' => pyexpr_eqb x y && go r r'
             | _, _ => false
             end) l l'
      | _ => false
      end
  | ESet l =>
      match b with
      | ESet l' =>
          (fix go (l l' : list pyexpr) : bool :=
             match l, l' with
             | [], [] => true
             | x :: r, y :: r' => pyexpr_eqb x y && go r r'
             | _, _ => false
             end) l l'
      | _ => false
      end
  | EDict kv =>
      match b with
      | EDict kv' =>
          (fix go (l : list (pyexpr * pyexpr)) (l' : list (pyexpr * pyexpr)) : bool :=
             match l, l' with
             | [], [] => true
             | (k, x) :: r, (k', y) :: r' => pyexpr_eqb k k' && pyexpr_eqb x y && go r r'
             | _, _ => false
             end) kv kv'
      | _ => false
      end
  end.

(* does the model say "an unescaped literal was pasted here"? then the text that
   CPython sees is not determined at this level of observation *)
Fixpoint has_garbled (e : pyexpr) {struct e} : bool :=
  match e with
  | EGarbled _ => true
  | ECall _ args kws =>
      existsb has_garbled args
      || (fix gk (l : list (str * pyexpr)) : bool :=
            match l with [] => false | (_, x) :: r => has_garbled x || gk r end) kws
  | EList l => existsb has_garbled l
  | ETuple l => existsb has_garbled l
  | ESet l => existsb has_garbled l
  | EDict kv =>
      (fix go (l : list (pyexpr * pyexpr)) : bool :=
         match l with [] => false | (k, x) :: r => has_garbled k || has_garbled x || go r end) kv
  | _ => false
  end.

(* 1. the model's rendering = the implementation's rendering *)
Definition agree_repr (c : ccase) : bool :=
  let '(W, v, o) := c in
  list_eqb line_eqb (imports W v) (o_imports o)
  && (has_garbled (repr W v)
      || match o_expr o with Some e => pyexpr_eqb (repr W v) e | None => false end).

(* 2. the specification's evaluator = CPython's exec, on the implementation's own text *)
Definition agree_eval (c : ccase) : bool :=
  let '(W, v, o) := c in
  match o_expr o with
  | Some e => opt_eqb value_eqb (eval W (env_of_imports (o_imports o)) e) (o_exec o)
  | None => match o_exec o with None => true | Some _ => false end
  end.

(* 3. the specification's equality = the Python-side NaN-tolerant == *)
Definition agree_veq (c : ccase) : bool :=
  let '(W, v, o) := c in
  match o_exec o with Some v' => Bool.eqb (veq true v' v) (o_equal o) | None => true end.

Definition failed (o : obs) : bool :=
  match o_exec o with Some _ => negb (o_equal o) | None => true end.

(* 4. the property, judged on the implementation's answers, inside the guard *)
Definition oracle_guarded (c : ccase) : bool :=
  let '(W, v, o) := c in
  if wf W v && guard W v then negb (failed o) else true.

(* 5. classification of failures: false = "failed, the model also fails, and this
      clause of the guard is violated" *)
Definition explained (W : world) (v : value) (o : obs) (clause : bool) : bool :=
  negb (failed o && negb (roundtrip W v) && negb clause).
Definition class_imports (c : ccase) : bool := let '(W, v, o) := c in explained W v o (g_imports W v).
Definition class_init (c : ccase) : bool := let '(W, v, o) := c in explained W v o (g_init W v).

(* a failure that no clause explains although the guard is false cannot happen:
   guard = conjunction of the clauses; kept as a separate check for the evidence *)
Definition in_domain (c : ccase) : bool := let '(W, v, o) := c in wf W v.
Definition in_guard (c : ccase) : bool := let '(W, v, o) := c in wf W v && guard W v.

(* ---- the witnesses of Proofs/PycodeRefuted.v are the objects the harness built ---- *)
Definition fdefault_eqb (a b : fdefault) : bool :=
  match a, b with
  | DMissing, DMissing => true
  | DValue x, DValue y => value_eqb x y
  | DFactory x, DFactory y => value_eqb x y
  | _, _ => false
  end.
Definition fdesc_eqb (a b : fdesc) : bool :=
  str_eqb (f_name a) (f_name b) && Bool.eqb (f_init a) (f_init b) && fdefault_eqb (f_default a) (f_default b).
Definition ckind_eqb (a b : ckind) : bool :=
  match a, b with
  | KData f x, KData g y => Bool.eqb f g && list_eqb fdesc_eqb x y
  | KEnum x fx, KEnum y fy => list_eqb str_eqb x y && opt_eqb lZ_eqb fx fy
  | _, _ => false
  end.
Definition cdesc_eqb (a b : cdesc) : bool := cref_eqb (c_ref a) (c_ref b) && ckind_eqb (c_kind a) (c_kind b).
(* every class of [sub] is described identically in [W] *)
Definition world_includes (W sub : world) : bool := forallb (fun d => existsb (cdesc_eqb d) W) sub.
Definition witnesses_agree (W : world) (built : list value) (W_wit : world) (wits : list value) : bool :=
  world_includes W W_wit && list_eqb value_eqb wits built.
