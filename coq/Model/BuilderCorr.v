(* Model/BuilderCorr.v — field-by-field comparison of the universe Builder.universe_of
   computes from a description with the REAL universe exported from XmlContext
   (harness/bind_export.py), used by the generated case files of the C03b check. *)
From Coq Require Import NArith ZArith List Bool.
From XV Require Import Base.Str Base.Eqb Model.Bind Spec.MetaSpec Model.Builder.
Import ListNotations.
Open Scope N_scope.

Definition vkind_eqb (a b : vkind) : bool :=
  match a, b with
  | KText, KText | KElement, KElement | KElements, KElements | KWildcard, KWildcard
  | KAttribute, KAttribute | KAttributes, KAttributes => true
  | _, _ => false
  end.
Definition factory_eqb (a b : factory) : bool :=
  match a, b with FList, FList | FTuple, FTuple => true | _, _ => false end.
Definition vdefault_eqb (a b : vdefault) : bool :=
  match a, b with
  | DNone, DNone | DFactoryList, DFactoryList | DFactoryTuple, DFactoryTuple | DFactoryDict, DFactoryDict => true
  | DValue x, DValue y => value_eqb x y
  | _, _ => false
  end.

Fixpoint xvar_eqb (a b : xvar) {struct a} : bool :=
  let fix els (x y : list (qname * xvar)) : bool :=
    match x, y with
    | [], [] => true
    | (q, v) :: x', (q', v') :: y' => str_eqb q q' && xvar_eqb v v' && els x' y'
    | _, _ => false
    end in
  let fix wls (x y : list xvar) : bool :=
    match x, y with
    | [], [] => true
    | v :: x', v' :: y' => xvar_eqb v v' && wls x' y'
    | _, _ => false
    end in
  N.eqb (v_index a) (v_index b) && str_eqb (v_name a) (v_name b) && str_eqb (v_local_name a) (v_local_name b)
  && str_eqb (v_qname a) (v_qname b) && ostr_eqb (v_wrapper_qname a) (v_wrapper_qname b)
  && vkind_eqb (v_kind a) (v_kind b) && list_eqb ptype_eqb (v_types a) (v_types b)
  && opt_eqb N.eqb (v_clazz a) (v_clazz b) && Bool.eqb (v_init a) (v_init b) && Bool.eqb (v_mixed a) (v_mixed b)
  && opt_eqb factory_eqb (v_factory a) (v_factory b) && opt_eqb factory_eqb (v_tokens_factory a) (v_tokens_factory b)
  && ostr_eqb (v_format a) (v_format b) && Bool.eqb (v_any_type a) (v_any_type b)
  && str_eqb (v_process_contents a) (v_process_contents b) && Bool.eqb (v_required a) (v_required b)
  && Bool.eqb (v_nillable a) (v_nillable b) && opt_eqb N.eqb (v_sequence a) (v_sequence b)
  && vdefault_eqb (v_default a) (v_default b) && list_eqb str_eqb (v_namespaces a) (v_namespaces b)
  && els (v_elements a) (v_elements b) && wls (v_wildcards a) (v_wildcards b).

Definition xmeta_eqb (a b : xmeta) : bool :=
  N.eqb (m_clazz a) (m_clazz b) && str_eqb (m_qname a) (m_qname b)
  && ostr_eqb (m_target_qname a) (m_target_qname b) && Bool.eqb (m_nillable a) (m_nillable b)
  && opt_eqb xvar_eqb (m_text a) (m_text b) && list_eqb xvar_eqb (m_choices a) (m_choices b)
  && list_eqb (pair_eqb str_eqb (list_eqb xvar_eqb)) (m_elements a) (m_elements b)
  && list_eqb xvar_eqb (m_wildcards a) (m_wildcards b)
  && list_eqb (pair_eqb str_eqb xvar_eqb) (m_attributes a) (m_attributes b)
  && list_eqb xvar_eqb (m_any_attributes a) (m_any_attributes b)
  && list_eqb (pair_eqb str_eqb str_eqb) (m_wrappers a) (m_wrappers b)
  && ostr_eqb (m_namespace a) (m_namespace b) && Bool.eqb (m_mixed_content a) (m_mixed_content b).

Definition enum_eqb (a b : enum_def) : bool :=
  N.eqb (en_id a) (en_id b) && list_eqb (pair_eqb str_eqb prim_eqb) (en_members a) (en_members b).

Definition universe_eqb (a b : universe) : bool :=
  list_eqb (pair_eqb N.eqb xmeta_eqb) (u_metas a) (u_metas b)
  && list_eqb (pair_eqb N.eqb (list_eqb N.eqb)) (u_mro a) (u_mro b)
  && list_eqb (pair_eqb N.eqb (list_eqb N.eqb)) (u_bases a) (u_bases b)
  && list_eqb (pair_eqb str_eqb (list_eqb N.eqb)) (u_xsi a) (u_xsi b)
  && list_eqb enum_eqb (u_enums a) (u_enums b)
  && list_eqb (pair_eqb N.eqb str_eqb) (u_names a) (u_names b).

(* one case: the description, the recorded parent namespaces, the exported universe *)
Definition agree_builder (k : mdesc * list (cls * option str) * universe) : bool :=
  let '(D, pns, u) := k in universe_eqb (universe_of D (pns_of_list pns)) u.

(* which part differs (for replay files): 1 metas 2 mro 3 bases 4 xsi 5 enums 6 names; per class for metas *)
Definition builder_diff (k : mdesc * list (cls * option str) * universe) : list N * list cls :=
  let '(D, pns, u) := k in
  let m := universe_of D (pns_of_list pns) in
  ((if list_eqb (pair_eqb N.eqb xmeta_eqb) (u_metas m) (u_metas u) then [] else [1])
   ++ (if list_eqb (pair_eqb N.eqb (list_eqb N.eqb)) (u_mro m) (u_mro u) then [] else [2])
   ++ (if list_eqb (pair_eqb N.eqb (list_eqb N.eqb)) (u_bases m) (u_bases u) then [] else [3])
   ++ (if list_eqb (pair_eqb str_eqb (list_eqb N.eqb)) (u_xsi m) (u_xsi u) then [] else [4])
   ++ (if list_eqb enum_eqb (u_enums m) (u_enums u) then [] else [5])
   ++ (if list_eqb (pair_eqb N.eqb str_eqb) (u_names m) (u_names u) then [] else [6]),
   map fst (filter (fun cm => match u_meta u (fst cm) with
                              | Some r => negb (xmeta_eqb (snd cm) r)
                              | None => true
                              end) (u_metas m))).
