(* Model/Dtd.v — executable model of xsdata/codegen/parsers/dtd.py (DtdParser.build_element,
   build_content, build_attribute, build_ns_map) and xsdata/codegen/mappers/dtd.py (DtdMapper:
   build_class, build_attributes, build_attribute, build_attribute_restrictions,
   build_attribute_type, build_elements, build_mixed_content, build_extension, build_content,
   build_content_tree, build_occurs, build_restrictions, build_element, build_value,
   build_enumeration) over the lxml view of a DTD (Spec/Dtd.v).  Faithful, including the
   defects.  (After the fixes 160d460 / 1017a9f / 5f04a63 in /repo: occurrences of nested particles
   multiply (merge_occurs), a nested OR keeps the enclosing choice id, and the "&#38;" libxml2
   leaves in attribute defaults is expanded.)  No proofs here. *)
From Coq Require Import NArith List Bool Arith Ascii String.
From XV Require Import Base.Str Base.Eqb Spec.Cm Spec.Dtd Gen.DtdTables.
Import ListNotations.
Local Close Scope N_scope.
Local Open Scope nat_scope.

Definition lit (x : string) : str := map N_of_ascii (list_ascii_of_string x).

(* ---------------------------------------------------------------- enum decoding: Enum(value) -> member name *)
Fixpoint decode (tbl : list (str * str)) (v : str) : option str :=
  match tbl with
  | [] => None                                   (* ValueError *)
  | (n, x) :: r => if str_eqb x v then Some n else decode r v
  end.

Fixpoint assoc (tbl : list (str * str)) (k : str) : option str :=
  match tbl with
  | [] => None
  | (n, x) :: r => if str_eqb n k then Some x else assoc r k
  end.

(* ---------------------------------------------------------------- models/dtd.py *)
Inductive dtd_content :=
| DC (name : option str) (type : str) (occur : str) (lft rgt : option dtd_content).   (* type / occur: member names *)

Record dtd_attribute := mk_dtd_attribute {
  da_name : str; da_prefix : option str; da_type : str; da_default : str;
  da_default_value : option str; da_values : list str
}.

Definition ns_map := list (option str * str).        (* insertion-ordered dict: prefix -> uri *)

Record dtd_element := mk_dtd_element {
  de_name : str; de_type : str; de_prefix : option str; de_content : option dtd_content;
  de_attributes : list dtd_attribute; de_ns_map : ns_map
}.

Definition okey_eqb (a b : option str) : bool := opt_eqb str_eqb a b.

Fixpoint ns_get (m : ns_map) (k : option str) : option str :=
  match m with [] => None | (k', v) :: r => if okey_eqb k' k then Some v else ns_get r k end.

Fixpoint ns_set (m : ns_map) (k : option str) (v : str) : ns_map :=
  match m with
  | [] => [(k, v)]
  | (k', v') :: r => if okey_eqb k' k then (k', v) :: r else (k', v') :: ns_set r k v
  end.

(* utils.namespaces.build_qname(uri, tag) for a non-empty tag *)
Definition build_qname (uri : option str) (tag : str) : str :=
  match uri with
  | Some (c :: u) => (123%N :: c :: u) ++ (125%N :: tag)
  | _ => tag
  end.

Definition de_qname (e : dtd_element) : str := build_qname (ns_get (de_ns_map e) (de_prefix e)) (de_name e).

(* ---------------------------------------------------------------- parsers/dtd.py *)
Fixpoint parse_content (c : raw_content) : option dtd_content :=
  match c with
  | RC name type occur lft rgt =>
      match decode dtd_content_occur_members occur, decode dtd_content_type_members type with
      | Some o, Some t =>
          let sub (x : option raw_content) : option (option dtd_content) :=
            match x with None => Some None | Some y => option_map Some (parse_content y) end in
          match sub lft, sub rgt with
          | Some l, Some r => Some (DC name t o l r)
          | _, _ => None
          end
      | _, _ => None
      end
  end.

Definition parse_attribute (a : raw_attr) : option dtd_attribute :=
  match decode dtd_attribute_type_members (ra_type a), decode dtd_attribute_default_members (ra_default a) with
  | Some t, Some d =>
      (* build_default_value: value.replace("&#38;", "&") if value else value *)
      Some (mk_dtd_attribute (ra_name a) (ra_prefix a) t d (option_map expand_amp38 (ra_default_value a)) (ra_values a))
  | _, _ => None
  end.

Fixpoint sequence {A} (l : list (option A)) : option (list A) :=
  match l with
  | [] => Some []
  | x :: r => match x, sequence r with Some a, Some b => Some (a :: b) | _, _ => None end
  end.

Definition truthy (v : option str) : bool := match v with Some (_ :: _) => true | _ => false end.

(* build_ns_map: common namespaces, then the xmlns declarations with a non-empty default;
   those attributes are removed from the list *)
Fixpoint ns_map_attrs (prefix : option str) (attrs : list dtd_attribute) (m : ns_map) : ns_map * list dtd_attribute :=
  match attrs with
  | [] => (m, [])
  | a :: r =>
      if negb (truthy (da_default_value a)) then
        let (m', r') := ns_map_attrs prefix r m in (m', a :: r')
      else
        let v := match da_default_value a with Some v => v | None => [] end in
        if okey_eqb (da_prefix a) (Some (lit "xmlns")) then ns_map_attrs prefix r (ns_set m (Some (da_name a)) v)
        else if str_eqb (da_name a) (lit "xmlns") then ns_map_attrs prefix r (ns_set m prefix v)
        else let (m', r') := ns_map_attrs prefix r m in (m', a :: r')
  end.

Definition common_ns_map : ns_map :=
  fold_left (fun m p => ns_set m (Some (fst p)) (snd p)) namespace_common [].

Definition parse_element (e : raw_element) : option dtd_element :=
  match (match re_content e with None => Some None | Some c => option_map Some (parse_content c) end),
        sequence (map parse_attribute (re_attributes e)),
        decode dtd_element_type_members (re_type e) with
  | Some content, Some attrs, Some t =>
      let (m, attrs') := ns_map_attrs (re_prefix e) attrs common_ns_map in
      Some (mk_dtd_element (re_name e) t (re_prefix e) content attrs' m)
  | _, _, _ => None
  end.

Definition parse_dtd (es : list raw_element) : option (list dtd_element) := sequence (map parse_element es).

(* ---------------------------------------------------------------- codegen models (the part the mapper fills) *)
Record attr_type := mk_attr_type { at_qname : str; at_native : bool; at_forward : bool }.

Definition path := list bool.                            (* identity of a content node: left = false, right = true *)

Record attr := mk_attr {
  a_name : str;
  a_tag : str;
  a_namespace : option str;
  a_types : list attr_type;
  a_default : option str;
  a_fixed : bool;
  a_min : option N;                                      (* restrictions.min_occurs *)
  a_max : option N;                                      (* restrictions.max_occurs; sys.maxsize = unbounded *)
  a_choice : option path                                 (* restrictions.choice = id(content) of an OR node *)
}.

Record extension := mk_extension { x_tag : str; x_qname : str; x_native : bool }.

Record klass := mk_klass {
  k_qname : str;
  k_tag : str;
  k_mixed : bool;
  k_ns_map : ns_map;
  k_extensions : list extension;
  k_attrs : list attr;                                   (* attr.index = position *)
  k_inner : list (str * list attr)                       (* inner enumeration classes: qname, members *)
}.

(* ---------------------------------------------------------------- mappers/dtd.py *)
(* the **kwargs of build_content: min_occurs, max_occurs (absent = 1), choice (absent = None) *)
Definition kwargs := (N * N * option path)%type.
Definition no_kwargs : kwargs := (1%N, 1%N, None).

Definition build_occurs (occur : str) : N * N :=
  if str_eqb occur (lit "ONCE") then (1, 1)%N
  else if str_eqb occur (lit "OPT") then (0, 1)%N
  else if str_eqb occur (lit "MULT") then (0, sys_maxsize)%N
  else (1, sys_maxsize)%N.

(* merge_occurs: the occurrences of nested particles multiply; sys.maxsize absorbs *)
Definition merge_occurs (occur : str) (kw : kwargs) : kwargs :=
  let '(mn0, mx0, ch) := kw in
  let (mn, mx) := build_occurs occur in
  ((mn * mn0)%N,
   if (mx =? sys_maxsize)%N || (mx0 =? sys_maxsize)%N then sys_maxsize else (mx * mx0)%N,
   ch).

(* build_restrictions = Restrictions( **merge_occurs(occur, kwargs) ) *)
Definition build_restrictions (occur : str) (kw : kwargs) : kwargs := merge_occurs occur kw.

Definition build_element (name : str) (r : kwargs) : attr :=
  let '(mn, mx, ch) := r in
  mk_attr name tag_ELEMENT None [mk_attr_type name false false] None false (Some mn) (Some mx) ch.

Definition build_value (r : kwargs) : attr :=
  let '(mn, mx, ch) := r in
  mk_attr default_attr_name tag_EXTENSION None [mk_attr_type datatype_STRING_qname true false] None false
          (Some mn) (Some mx) ch.

Definition oname (n : option str) : str := match n with Some x => x | None => [] end.

(* an OR node that is not already inside a choice opens one: its members become optional *)
Definition or_params (occur : str) (kw : kwargs) (p : path) : kwargs :=
  let '(mn, mx, ch) := merge_occurs occur kw in
  match ch with Some _ => (mn, mx, ch) | None => (0%N, mx, Some p) end.

Fixpoint build_content (c : dtd_content) (kw : kwargs) (p : path) : list attr :=
  match c with
  | DC name type occur lft rgt =>
      let tree (kw' : kwargs) :=
        (match lft with Some l => build_content l kw' (p ++ [false]) | None => [] end)
        ++ (match rgt with Some r => build_content r kw' (p ++ [true]) | None => [] end) in
      if str_eqb type (lit "ELEMENT") then [build_element (oname name) (build_restrictions occur kw)]
      else if str_eqb type (lit "SEQ") then tree (merge_occurs occur kw)
      else if str_eqb type (lit "OR") then tree (or_params occur kw p)
      else [build_value (build_restrictions occur kw)]
  end.

Definition is_pcdata (c : option dtd_content) : bool :=
  match c with Some (DC _ t _ _ _) => str_eqb t (lit "PCDATA") | None => false end.

(* build_mixed_content: returns (mixed flag, content with the #PCDATA branch cut off) *)
Definition build_mixed_content (c : dtd_content) : bool * dtd_content :=
  match c with
  | DC name type occur lft rgt =>
      if is_pcdata lft then (true, DC name type occur None rgt)
      else if is_pcdata rgt then (true, DC name type occur lft None)
      else (false, c)
  end.

Definition build_attribute_restrictions (default : str) (default_value : option str)
  : option str * bool * N :=                              (* attr.default, attr.fixed, min_occurs; max_occurs = 1 *)
  if str_eqb default (lit "REQUIRED") then (None, false, 1%N)
  else if str_eqb default (lit "IMPLIED") then (None, false, 0%N)
  else if str_eqb default (lit "FIXED") then (default_value, true, 1%N)
  else match default_value with
       | Some v => (Some v, false, 1%N)
       | None => (None, false, 0%N)
       end.

Definition data_type_qname (t : str) : str :=
  match assoc dtd_attribute_data_type t with Some q => q | None => datatype_STRING_qname end.

Definition build_attribute_type (a : dtd_attribute) : attr_type :=
  if str_eqb (da_type a) (lit "ENUMERATION") then mk_attr_type (da_name a) false true
  else mk_attr_type (data_type_qname (da_type a)) true false.

Definition build_attribute (m : ns_map) (a : dtd_attribute) : attr :=
  let '(d, f, mn) := build_attribute_restrictions (da_default a) (da_default_value a) in
  mk_attr (da_name a) tag_ATTRIBUTE (ns_get m (da_prefix a)) [build_attribute_type a] d f (Some mn) (Some 1%N) None.

Definition build_enumeration (a : dtd_attribute) : str * list attr :=
  (da_name a,
   map (fun v => mk_attr v tag_ENUMERATION None [mk_attr_type datatype_STRING_qname true false] (Some v) true None None None)
       (da_values a)).

Definition build_class (e : dtd_element) : klass :=
  let attrs := map (build_attribute (de_ns_map e)) (de_attributes e) in
  let inner := map build_enumeration (filter (fun a => str_eqb (da_type a) (lit "ENUMERATION")) (de_attributes e)) in
  let base := mk_klass (de_qname e) tag_ELEMENT false (de_ns_map e) [] attrs inner in
  match de_content e with
  | Some c =>
      if str_eqb (de_type e) (lit "ELEMENT") then
        mk_klass (de_qname e) tag_ELEMENT false (de_ns_map e) [] (attrs ++ build_content c no_kwargs []) inner
      else if str_eqb (de_type e) (lit "MIXED") then
        let (mx, c') := build_mixed_content c in
        mk_klass (de_qname e) tag_COMPLEX_TYPE mx (de_ns_map e) [] (attrs ++ build_content c' no_kwargs []) inner
      else if str_eqb (de_type e) (lit "ANY") then
        mk_klass (de_qname e) tag_ELEMENT false (de_ns_map e) [mk_extension tag_EXTENSION datatype_ANY_TYPE_qname true] attrs inner
      else base
  | None =>
      if str_eqb (de_type e) (lit "ANY") then
        mk_klass (de_qname e) tag_ELEMENT false (de_ns_map e) [mk_extension tag_EXTENSION datatype_ANY_TYPE_qname true] attrs inner
      else base
  end.

Definition map_dtd (es : list dtd_element) : list klass := map build_class es.

(* the whole front end: lxml view -> classes (None: an enum value is not recognised, ValueError) *)
Definition dtd_classes (es : list raw_element) : option (list klass) := option_map map_dtd (parse_dtd es).

(* ---------------------------------------------------------------- reading the mapper's output
   capacity / required counts of the element attrs for a child name, as MergeAttributes and the
   generated dataclass will honour them: max_occurs are added up, sys.maxsize is unbounded. *)
Definition is_element_attr (a : attr) : bool := str_eqb (a_tag a) tag_ELEMENT.

Definition emax_of (a : attr) : enat :=
  match a_max a with
  | Some n => if (sys_maxsize <=? n)%N then None else Some (N.to_nat n)
  | None => Some 1
  end.
Definition min_of (a : attr) : nat := match a_min a with Some n => N.to_nat n | None => 0 end.

Definition attrs_for (attrs : list attr) (q : name) : list attr :=
  filter (fun a => is_element_attr a && str_eqb (a_name a) q) attrs.

Definition cap (attrs : list attr) (q : name) : enat := esum (map emax_of (attrs_for attrs q)).
Definition minsum (attrs : list attr) (q : name) : nat := nsum (map min_of (attrs_for attrs q)).

(* attribute attr -> the field the generated class gets *)
Definition afield_of_attr (qn : name) (a : attr) (enum : option (list str)) : afield :=
  mk_afield qn
            (match a_default a with None => match a_min a with Some 0%N | None => false | _ => true end | Some _ => false end)
            (a_default a) (a_fixed a) enum.
