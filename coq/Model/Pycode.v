(* Model/Pycode.v — executable model of
     xsdata/formats/dataclass/serializers/code.py  (PycodeSerializer.repr_object,
       repr_array, repr_mapping, repr_model, build_imports, write)
     xsdata/utils/objects.py                       (literal_value)
     the __repr__ of XmlDate/XmlTime/XmlDateTime/XmlDuration/XmlPeriod, Enum.__str__
   Output: the expression AST of Spec/PyEval.v and the ordered import lines.
   Faithful, including the defects; no proofs here. *)
From Coq Require Import NArith ZArith List Bool String.
From XV Require Import Base.Str Base.Eqb Spec.PyEval.
Import ListNotations.
Open Scope Z_scope.
Notation length := List.length.

(* ---------- literal_value ------------------------------------------------ *)
(* f'XmlDuration("{self.data}")', f'XmlPeriod("{self.data}")': the text is pasted between
   double quotes without escaping.  [dq_safe] = the pasted text reads back as itself.
   (QName texts are written as an escaped double-quoted literal since /repo 06e145c.) *)
Definition dq_char_safe (c : N) : bool :=
  negb (N.eqb c 34 || N.eqb c 92 || N.eqb c 10 || N.eqb c 13 || N.eqb c 0
        || (N.leb 55296 c && N.leb c 57343)).
Definition dq_safe (t : str) : bool := forallb dq_char_safe t.
Definition raw_dq (t : str) : pyexpr := if dq_safe t then EStr t else EGarbled t.

Definition nonfinite_text (bits : Z) : str :=
  if bits =? fl_pos_inf then lit "inf" else if bits =? fl_neg_inf then lit "-inf" else lit "nan".

Definition xml_name (k : xkind) : str :=
  match k with KDate => lit "XmlDate" | KTime => lit "XmlTime" | KDateTime => lit "XmlDateTime" end.

(* the args list of the three __repr__ methods *)
Definition xml_repr_args (k : xkind) (args : list Z) (off : option Z) : list Z :=
  match off with
  | Some o => args ++ [o]
  | None =>
      match k with
      | KDateTime => if last args 1 =? 0 then removelast args else args
      | _ => args
      end
  end.

(* datetime.date/time/datetime.__repr__: "%s.%s(%s)" % (module, qualname, args), trailing
   zero second / microsecond dropped *)
Definition std_name (k : skind) : str :=
  match k with SDate => lit "date" | STime => lit "time" | SDateTime => lit "datetime" end.
Definition drop_last_zero (l : list Z) : list Z := if last l 1 =? 0 then removelast l else l.
Definition std_repr_args (k : skind) (args : list Z) : list Z :=
  match k with
  | SDate => args
  | _ => drop_last_zero (drop_last_zero args)
  end.

(* ---------- repr_model: which fields are written -------------------------- *)
(* default is not unset and ((callable(default) and default() == value) or default == value) *)
Definition skip_default (fd : fdesc) (v : value) : bool :=
  match f_default fd with
  | DMissing => false
  | DValue d => veq false d v
  | DFactory d => veq false d v
  end.
Definition printed (fd : fdesc) (v : value) : bool := f_init fd && negb (skip_default fd v).

(* ---------- repr_object ---------------------------------------------------- *)
Fixpoint repr (W : world) (v : value) {struct v} : pyexpr :=
  match v with
  | VNone => ENone
  | VBool b => EBool b
  | VInt z => EInt z
  | VFloat bits => if fl_isfinite bits then EFloat bits else ECall [lit "float"] [EStr (nonfinite_text bits)] []
  | VStr s => EStr s
  | VBytes _ b => EBytes b
  | VDecimal s => ECall [lit "Decimal"] [EStr s] []
  | VQName t => ECall [lit "QName"] [EStr t] []       (* double-quoted literal, escaped *)
  | VXml k args off => ECall [xml_name k] (map EInt (xml_repr_args k args off)) []
  | VDuration d => ECall [lit "XmlDuration"] [raw_dq d] []
  | VPeriod d => ECall [lit "XmlPeriod"] [raw_dq d] []
  | VStd k args => ECall [lit "datetime"; std_name k] (map EInt (std_repr_args k args)) []
  (* dispatch order of repr_object: is_array, dict, is_model, **isinstance(obj, Enum)**, and only
     then literal_value.  A member of a mixed-in enumeration (IntEnum, IntFlag, StrEnum,
     (str|float|bytes, Enum)) is also an int/str/float/bytes; it is a [VEnum] here (the harness
     classifies Enum members first) and is written as a member, never through literal_value. *)
  | VEnum c m => EName (snd c ++ [m])                (* f"{__qualname__}.{name}" *)
  (* name is None or not in __members__: f"{__qualname__}({literal_value(value)})" *)
  | VFlag c z => ECall (snd c) [EInt z] []
  | VList l => EList (map (repr W) l)
  | VTuple l => ETuple (map (repr W) l)               (* "()" or "(\n a,\n b,\n)" *)
  | VSet fz l =>
      match l with
      | [] => ECall [if fz then lit "frozenset" else lit "set"] [] []
      | _ => if fz then ECall [lit "frozenset"] [ESet (map (repr W) l)] [] else ESet (map (repr W) l)
      end
  | VDict kv =>
      EDict ((fix go (l : list (value * value)) : list (pyexpr * pyexpr) :=
                match l with [] => [] | (k, x) :: r => (repr W k, repr W x) :: go r end) kv)
  | VObj c fs =>
      match find_data W c with
      | Some fds =>
          ECall (snd c) []
            ((fix go (fds : list fdesc) (fs : list (str * value)) {struct fs} : list (str * pyexpr) :=
                match fds, fs with
                | fd :: fds', (_, x) :: fs' =>
                    if printed fd x then (f_name fd, repr W x) :: go fds' fs' else go fds' fs'
                | _, _ => []
                end) fds fs)
      | None => EGarbled []     (* not a binding model: outside the modelled domain *)
      end
  end.

(* ---------- the objects repr_object visits (types.add(type(obj))) ---------- *)
Fixpoint subs (W : world) (v : value) {struct v} : list value :=
  v :: match v with
       | VList l => flat_map (subs W) l
       | VTuple l => flat_map (subs W) l
       | VSet _ l => flat_map (subs W) l
       | VDict kv =>
           (fix go (l : list (value * value)) : list value :=
              match l with [] => [] | (k, x) :: r => subs W k ++ subs W x ++ go r end) kv
       | VObj c fs =>
           match find_data W c with
           | Some fds =>
               (fix go (fds : list fdesc) (fs : list (str * value)) {struct fs} : list value :=
                  match fds, fs with
                  | fd :: fds', (_, x) :: fs' =>
                      if printed fd x then subs W x ++ go fds' fs' else go fds' fs'
                  | _, _ => []
                  end) fds fs
           | None => []
           end
       | _ => []
       end.

(* type(obj).__module__ / __qualname__ when the module is not builtins *)
Definition type_of (v : value) : option cref :=
  match v with
  | VBytes BHex _ => Some (m_datatype, [lit "XmlHexBinary"])
  | VBytes BB64 _ => Some (m_datatype, [lit "XmlBase64Binary"])
  | VDecimal _ => Some (lit "decimal", [lit "Decimal"])
  | VQName _ => Some (lit "xml.etree.ElementTree", [lit "QName"])
  | VXml k _ _ => Some (m_datatype, [xml_name k])
  | VDuration _ => Some (m_datatype, [lit "XmlDuration"])
  | VPeriod _ => Some (m_datatype, [lit "XmlPeriod"])
  | VStd k _ => Some (lit "datetime", [std_name k])
  | VEnum c _ => Some c
  | VFlag c _ => Some c
  | VObj c _ => Some c
  | _ => None
  end.

Definition types (W : world) (v : value) : list cref :=
  flat_map (fun u => match type_of u with Some c => [c] | None => [] end) (subs W v).

(* ---------- build_imports ---------------------------------------------------- *)
(* module == "datetime": "import datetime\n"; else name = __qualname__.split(".")[0] and
   f"from {module} import {name}\n" *)
Definition m_stdlib_datetime : str := lit "datetime".
Definition import_pair (c : cref) : import_line :=
  if str_eqb (fst c) m_stdlib_datetime then (fst c, None) else (fst c, Some (hd [] (snd c))).
Definition import_text (p : import_line) : str :=
  match snd p with
  | Some n => lit "from " ++ fst p ++ lit " import " ++ n ++ [10%N]
  | None => lit "import " ++ fst p ++ [10%N]
  end.

Fixpoint str_ltb (a b : str) : bool :=
  match a, b with
  | [], [] => false
  | [], _ :: _ => true
  | _ :: _, [] => false
  | x :: a', y :: b' => if N.ltb x y then true else if N.ltb y x then false else str_ltb a' b'
  end.

(* sorted(set(...)): insertion into a strictly increasing list *)
Fixpoint ins_line (p : import_line) (l : list import_line) : list import_line :=
  match l with
  | [] => [p]
  | q :: r =>
      if str_ltb (import_text p) (import_text q) then p :: l
      else if str_ltb (import_text q) (import_text p) then q :: ins_line p r
      else l
  end.
Definition sort_lines (l : list import_line) : list import_line := fold_right ins_line [] l.

Definition imports (W : world) (v : value) : list import_line :=
  sort_lines (map import_pair (types W v)).

(* the whole of PycodeSerializer.write at the level of observation *)
Definition render (W : world) (v : value) : list import_line * pyexpr := (imports W v, repr W v).

(* ---------- what exec gives back (used by the proofs and the harness) ------ *)
Fixpoint norm (W : world) (v : value) {struct v} : value :=
  match v with
  | VBytes _ b => VBytes BPlain b
  | VList l => VList (map (norm W) l)
  | VTuple l => VTuple (map (norm W) l)
  | VSet fz l => VSet fz (map (norm W) l)
  | VDict kv =>
      VDict ((fix go (l : list (value * value)) : list (value * value) :=
                match l with [] => [] | (k, x) :: r => (norm W k, norm W x) :: go r end) kv)
  | VObj c fs =>
      match find_data W c with
      | Some fds =>
          VObj c
            ((fix go (fds : list fdesc) (fs : list (str * value)) {struct fs} : list (str * value) :=
                match fds, fs with
                | fd :: fds', (_, x) :: fs' =>
                    (f_name fd, if printed fd x then norm W x
                                else match default_of fd with Some d => d | None => x end) :: go fds' fs'
                | _, _ => []
                end) fds fs)
      | None => v
      end
  | _ => v
  end.

(* ---------- well-formedness of an object graph (invariants of real objects) - *)
Definition scalar_key (v : value) : bool :=
  match v with
  | VNone | VBool _ | VInt _ | VFloat _ | VStr _ | VDecimal _ | VQName _ | VXml _ _ _ | VDuration _ | VEnum _ _ => true
  | VBytes BPlain _ => true
  | _ => false
  end.

Fixpoint keys_distinct (l : list value) : bool :=
  match l with
  | [] => true
  | k :: r => negb (existsb (fun k' => veq false k k') r) && keys_distinct r
  end.

Definition xml_arity (k : xkind) : nat := match k with KDate => 3 | KTime => 4 | KDateTime => 7 end.

(* module names are dotted identifiers *)
Definition nospace (s : str) : bool := forallb (fun c => negb (N.eqb c 32)) s.

Definition wf_local (W : world) (v : value) : bool :=
  match v with
  | VDecimal s => match dec_parse s with Some _ => true | None => false end
  | VFloat bits => (0 <=? bits) && (bits <? 2 ^ 64) && (fl_isfinite bits || (bits =? fl_pos_inf) || (bits =? fl_neg_inf) || (bits =? fl_nan))
  | VXml k args _ => Nat.eqb (length args) (xml_arity k)
  | VDuration d => dq_safe d
  | VPeriod d => dq_safe d
  | VStd k args => Nat.eqb (length args) (match k with SDate => 3 | STime => 4 | SDateTime => 7 end)%nat
  | VEnum c m => enum_has W c m && match lib_kind c with None => true | Some _ => false end
                 && match snd c with [] => false | _ => true end
                 && negb (str_eqb (fst c) m_stdlib_datetime) && nospace (fst c)
  | VFlag c z =>
      match find_class W c with
      | Some (KEnum ms (Some vals)) => match flag_member ms vals z with None => true | Some _ => false end
      | _ => false
      end
      && match lib_kind c with None => true | Some _ => false end
      && match snd c with [] => false | _ => true end
      && negb (str_eqb (fst c) m_stdlib_datetime) && nospace (fst c)
  | VDict kv => forallb scalar_key (map fst kv) && keys_distinct (map fst kv)
  | VSet _ l => forallb scalar_key l && keys_distinct l
  | VObj c fs =>
      match find_data W c with
      | Some fds =>
          list_eqb str_eqb (map fst fs) (map f_name fds)
          && names_nodup (map f_name fds)
          && forallb (fun fd => f_init fd || match default_of fd with Some _ => true | None => false end) fds
          && match lib_kind c with None => true | Some _ => false end
          && match snd c with [] => false | _ => true end
          && negb (str_eqb (fst c) m_stdlib_datetime)
          && nospace (fst c)
      | None => false
      end
  | _ => true
  end.
Definition wf (W : world) (v : value) : bool := forallb (wf_local W) (subs W v).

(* ---------- guard: one clause per refutation ------------------------------- *)
(* (G1, tuple/set/frozenset with elements written as a list: repaired in /repo a2ce0be, clause deleted) *)
(* (G2, members of inner Enums written Inner.MEMBER: repaired in /repo fc8f170, clause deleted) *)
(* (G4, QName text pasted unescaped: repaired in /repo 06e145c, clause deleted.
   XmlDuration/XmlPeriod still paste their data unescaped, but both constructors strip and
   validate it, so such data is always [dq_safe]: an invariant in [wf_local] — was finding
   C18-F5 until XmlDuration started stripping its input.) *)
(* G5 an init=False field whose value is not its default cannot be reconstructed *)
Definition g_init_local (W : world) (v : value) : bool :=
  match v with
  | VObj c fs =>
      match find_data W c with
      | Some fds =>
          (fix go (fds : list fdesc) (fs : list (str * value)) {struct fs} : bool :=
             match fds, fs with
             | fd :: fds', (_, x) :: fs' =>
                 (if f_init fd then true
                  else match default_of fd with Some d => veq true d x | None => false end)
                 && go fds' fs'
             | _, _ => true
             end) fds fs
      | None => true
      end
  | _ => true
  end.
(* (G6, datetime.date/time/datetime values written module-qualified while the import line was
   `from datetime import date`: repaired in /repo db048b1, clause deleted) *)
(* G3 two import lines bind the same name to different things (the later line shadows the
   earlier one), or an imported name shadows a builtin the rendering relies on *)
Definition pair_compatible (a b : import_line) : bool :=
  negb (str_eqb (bound_name a) (bound_name b))
  || (str_eqb (fst a) (fst b) && Bool.eqb (is_from a) (is_from b)).
Definition g_names (ps : list import_line) : bool :=
  forallb (fun a => negb (is_builtin (bound_name a)) && forallb (pair_compatible a) ps) ps.

Definition g_init (W : world) (v : value) : bool := forallb (g_init_local W) (subs W v).
Definition g_imports (W : world) (v : value) : bool := g_names (map import_pair (types W v)).

Definition guard (W : world) (v : value) : bool :=
  g_imports W v && g_init W v.

(* ---------- model of "render, exec in a fresh namespace, compare" ---------- *)
Definition exec_back (W : world) (v : value) : option value :=
  eval W (env_of_imports (imports W v)) (repr W v).
Definition roundtrip (W : world) (v : value) : bool :=
  match exec_back W v with Some v' => veq true v' v | None => false end.
