(* Model/TreeBuilder.v — TreeSerializer (serializers/tree.py) = LxmlTreeBuilder.build
   (serializers/writers/lxml.py): the SAME EventHandler.write loop (serializers/mixins.py) feeding
   the SAME sink (lxml.sax.ElementTreeContentHandler) as LxmlEventWriter, with the same cleaned
   user map; it returns handler.etree instead of printing it.  The only code not shared is
   start_document (XmlWriter writes the XML declaration to its output stream; EventContentHandler
   calls ContentHandler.startDocument, a no-op) — neither touches the tree.  No proofs here. *)
From Coq Require Import NArith List Bool.
From XV Require Import Base.Str Spec.XmlNs Model.Writer.
Import ListNotations.

Definition run_tree (cfg : wconfig) (user : nsmap) (evs : list wevent) : inode + perr :=
  match run_events lsteps (winit cfg (serializer_ns_map user)) linit evs with
  | inl (_, k) => match l_root k with
                  | Some t => inl t
                  | None => inr PyAttributeError
                  end
  | inr e => inr e
  end.
