(* Model/DtdCorr.v — predicates evaluated by the generated C16 case files:
   agree_*   : Model/Dtd.v against what the real DtdParser / DtdMapper produced
   class_*   : the validator of Spec/Cm.v and the guards of the C16 theorems, per element class
   doc_*     : per document: the slot-assignment abstract against the real parser, the
               infoset comparison of input and output, order / re-validation *)
From Coq Require Import NArith List Bool Arith.
From XV Require Import Base.Str Base.Eqb Spec.Cm Spec.Dtd Model.Dtd Gen.DtdTables.
Import ListNotations.
Local Close Scope N_scope.
Local Open Scope nat_scope.

(* ---------------------------------------------------------------- equality on the model records *)
Definition ostr_eq := opt_eqb str_eqb.
Definition oN_eq := opt_eqb N.eqb.
Definition path_eqb := list_eqb Bool.eqb.

Fixpoint dtd_content_eqb (a b : dtd_content) : bool :=
  match a, b with
  | DC n t o l r, DC n' t' o' l' r' =>
      ostr_eq n n' && str_eqb t t' && str_eqb o o' &&
      (match l, l' with Some x, Some y => dtd_content_eqb x y | None, None => true | _, _ => false end) &&
      (match r, r' with Some x, Some y => dtd_content_eqb x y | None, None => true | _, _ => false end)
  end.

Definition dtd_attribute_eqb (a b : dtd_attribute) : bool :=
  str_eqb (da_name a) (da_name b) && ostr_eq (da_prefix a) (da_prefix b) && str_eqb (da_type a) (da_type b) &&
  str_eqb (da_default a) (da_default b) && ostr_eq (da_default_value a) (da_default_value b) &&
  list_eqb str_eqb (da_values a) (da_values b).

Definition ns_map_eqb : ns_map -> ns_map -> bool := list_eqb (pair_eqb ostr_eq str_eqb).

Definition dtd_element_eqb (a b : dtd_element) : bool :=
  str_eqb (de_name a) (de_name b) && str_eqb (de_type a) (de_type b) && ostr_eq (de_prefix a) (de_prefix b) &&
  opt_eqb dtd_content_eqb (de_content a) (de_content b) &&
  list_eqb dtd_attribute_eqb (de_attributes a) (de_attributes b) && ns_map_eqb (de_ns_map a) (de_ns_map b).

Definition attr_type_eqb (a b : attr_type) : bool :=
  str_eqb (at_qname a) (at_qname b) && Bool.eqb (at_native a) (at_native b) && Bool.eqb (at_forward a) (at_forward b).

Definition attr_eqb (a b : attr) : bool :=
  str_eqb (a_name a) (a_name b) && str_eqb (a_tag a) (a_tag b) && ostr_eq (a_namespace a) (a_namespace b) &&
  list_eqb attr_type_eqb (a_types a) (a_types b) && ostr_eq (a_default a) (a_default b) &&
  Bool.eqb (a_fixed a) (a_fixed b) && oN_eq (a_min a) (a_min b) && oN_eq (a_max a) (a_max b) &&
  opt_eqb path_eqb (a_choice a) (a_choice b).

Definition extension_eqb (a b : extension) : bool :=
  str_eqb (x_tag a) (x_tag b) && str_eqb (x_qname a) (x_qname b) && Bool.eqb (x_native a) (x_native b).

Definition klass_eqb (a b : klass) : bool :=
  str_eqb (k_qname a) (k_qname b) && str_eqb (k_tag a) (k_tag b) && Bool.eqb (k_mixed a) (k_mixed b) &&
  ns_map_eqb (k_ns_map a) (k_ns_map b) && list_eqb extension_eqb (k_extensions a) (k_extensions b) &&
  list_eqb attr_eqb (k_attrs a) (k_attrs b) &&
  list_eqb (pair_eqb str_eqb (list_eqb attr_eqb)) (k_inner a) (k_inner b).

(* id(content) is an address: compare choice ids up to renaming, by order of first appearance;
   the k-th distinct id becomes the path [true; ...; true] of length k *)
Fixpoint index_of (p : path) (seen : list path) : option nat :=
  match seen with
  | [] => None
  | x :: r => if path_eqb x p then Some 0 else option_map S (index_of p r)
  end.

Fixpoint canon_attrs (seen : list path) (l : list attr) : list attr :=
  match l with
  | [] => []
  | a :: r =>
      match a_choice a with
      | None => a :: canon_attrs seen r
      | Some p =>
          let '(k, seen') := match index_of p seen with Some k => (k, seen) | None => (length seen, seen ++ [p]) end in
          mk_attr (a_name a) (a_tag a) (a_namespace a) (a_types a) (a_default a) (a_fixed a) (a_min a) (a_max a)
                  (Some (repeat true k)) :: canon_attrs seen' r
      end
  end.

Definition canon_klass (k : klass) : klass :=
  mk_klass (k_qname k) (k_tag k) (k_mixed k) (k_ns_map k) (k_extensions k) (canon_attrs [] (k_attrs k)) (k_inner k).

(* case: the lxml view, the Dtd model DtdParser returned, the classes DtdMapper.map returned *)
Definition agree_parser (c : list raw_element * list dtd_element * list klass) : bool :=
  let '(raw, es, _) := c in
  match parse_dtd raw with Some m => list_eqb dtd_element_eqb m es | None => false end.

Definition agree_mapper (c : list raw_element * list dtd_element * list klass) : bool :=
  let '(raw, _, ks) := c in
  match dtd_classes raw with Some m => list_eqb klass_eqb (map canon_klass m) ks | None => false end.

(* ---------------------------------------------------------------- guards of the C16 theorems (see Proofs/Dtd.v) *)
Definition occur_bounded (o : str) : bool := str_eqb o S_once || str_eqb o S_opt.

(* clause `orseq` (compound fields only): no sequence group below a choice that is not itself repeated.
   The mapper gives every element below an OR node the same choice id and no path, so
   CreateCompoundFields folds them into ONE one-item compound field. *)
Fixpoint no_seq (c : raw_content) : bool :=
  match c with
  | RC _ t _ l r =>
      negb (str_eqb t S_seq) && match l with Some x => no_seq x | None => true end
      && match r with Some x => no_seq x | None => true end
  end.

Fixpoint guard_orseq (c : raw_content) : bool :=
  match c with
  | RC _ t o l r =>
      if str_eqb t S_or && occur_bounded o then
        match l with Some x => no_seq x | None => true end && match r with Some x => no_seq x | None => true end
      else
        match l with Some x => guard_orseq x | None => true end && match r with Some x => guard_orseq x | None => true end
  end.

(* clause `ns`: no element is in a namespace: no prefixed element name, no default xmlns declaration
   (prefix declarations used by attributes only are fine) *)
Definition is_default_xmlns (a : raw_attr) : bool :=
  match ra_prefix a with None => str_eqb (ra_name a) S_xmlns | Some _ => false end.
Definition guard_ns (es : list raw_element) : bool :=
  forallb (fun e => match re_prefix e with None => true | Some _ => false end
                    && negb (existsb is_default_xmlns (re_attributes e))) es.

(* the property's own side condition for order: repetition only of single elements and of
   choices of single elements *)
Fixpoint single_names (c : cm) : bool :=
  match c with
  | Elem _ => true
  | Choice l => forallb (fun x => match x with Elem _ => true | Choice _ => single_names x | _ => false end) l
  | _ => false
  end.

Fixpoint rep_confined (c : cm) : bool :=
  match c with
  | Elem _ | AnyElem _ => true
  | Seq l | Choice l | All l => forallb rep_confined l
  | Occ _ mx b => if enat_leb mx (Some 1) then rep_confined b else single_names b
  end.

(* names of the repeated groups; the property's order promise is only kept by the generator when such a
   name does not occur a second time in the model: UpdateAttributesEffectiveChoice merges equal-named attrs
   (here: one outside, one inside the repeated choice) into one list field and regroups only the attrs lying
   between the first and the last duplicate, so the rest of the choice stays a separate field *)
Fixpoint rep_group_names (c : cm) : list name :=
  match c with
  | Elem _ | AnyElem _ => []
  | Seq l | Choice l | All l => concat (map rep_group_names l)
  | Occ _ mx b => if enat_leb mx (Some 1) then rep_group_names b else alphabet b
  end.
Definition rep_names_unique (c : cm) : bool :=
  forallb (fun q => countP (name_eqb q) (alphabet c) =? 1) (rep_group_names c).

Definition ctype_cm (t : ctype) : cm := match t with CElems c | CMixed c => c | _ => Seq [] end.

(* ---------------------------------------------------------------- programs *)
Record eclass := mk_eclass {
  ec_name : name;                 (* Clark name of the element as documents present it *)
  ec_local : str;                 (* name as written in the DTD (with prefix) *)
  ec_ctype : ctype;               (* its content, read from the generator's DTD description, Clark names *)
  ec_meta : meta;                 (* exported from the real XmlContext.build of the generated class *)
  ec_decls : list attr_decl;      (* attribute declarations, Clark names *)
  ec_afields : list afield;       (* attribute fields of the generated class (real metadata) *)
  ec_raw : option raw_content;    (* the lxml content tree of this element *)
  ec_model_attrs : list attr      (* what Model/Dtd.v's mapper gives for this element *)
}.

Definition model_attrs_of (raw : list raw_element) (i : nat) : list attr :=
  match dtd_classes raw with
  | Some ks => match nth_error ks i with Some k => k_attrs k | None => [] end
  | None => []
  end.

(* does the faithful mapper model itself lose capacity / over-constrain for this class?
   (computed with Clark names on the spec side and attr name + namespace on the model side) *)
Definition attr_clark (a : attr) : name := build_qname (a_namespace a) (a_name a).
Definition cap_q (attrs : list attr) (q : name) : enat :=
  esum (map emax_of (filter (fun a => is_element_attr a && str_eqb (attr_clark a) q) attrs)).
Definition minsum_q (attrs : list attr) (q : name) : nat :=
  nsum (map min_of (filter (fun a => is_element_attr a && str_eqb (attr_clark a) q) attrs)).

Definition model_capacity_ok (c : cm) (attrs : list attr) : bool :=
  forallb (fun q => enat_leb (maxcount c q) (cap_q attrs q) && (minsum_q attrs q <=? mincount c q)) (alphabet c).

(* libxml2 hands out attribute defaults with "&" still written as the character reference "&#38;" *)
Definition amp_default (c : eclass) : bool :=
  existsb (fun d => match ad_use d with AFixed v | ADefault v => mem 38%N v | _ => false end) (ec_decls c).

(* clause dupchoice: no element name is a member of two different choice groups.  The mapper gives such
   attrs different choice ids but no path; MergeAttributes then takes them for mutually exclusive branches
   ("different sibling choices at same depth": both paths are empty) and keeps max(...) instead of the sum. *)
Definition choice_dups_ok (attrs : list attr) : bool :=
  forallb (fun a => forallb (fun b =>
    negb (is_element_attr a && is_element_attr b && str_eqb (attr_clark a) (attr_clark b)
          && match a_choice a, a_choice b with Some x, Some y => negb (path_eqb x y) | _, _ => false end)) attrs) attrs.

Definition class_flags (c : eclass) : list bool :=
  let m := ctype_cm (ec_ctype c) in
  [ check (ec_ctype c) (ec_meta c);                                   (* 0 validator: children *)
    check_attrs (ec_decls c) (ec_afields c);                          (* 1 validator: attributes *)
    model_capacity_ok m (ec_model_attrs c);                           (* 2 the mapper model keeps capacity *)
    order_safe m (ec_meta c);                                         (* 3 proved order condition *)
    rep_confined m;                                                   (* 4 the property's side condition *)
    cm_wf m;                                                          (* 5 *)
    amp_default c;                                                    (* 6 a declared default / fixed value contains "&" *)
    match ec_raw c with Some r => guard_orseq r | None => true end;   (* 7 guard clause orseq (compound fields) *)
    rep_names_unique m;                                               (* 8 guard clause repdup (compound fields) *)
    choice_dups_ok (ec_model_attrs c) ].                              (* 9 guard clause dupchoice *)

Definition rejected_of (c : eclass) : option (list name) :=
  match ec_ctype c with CElems m | CMixed m => rejected_word m (ec_meta c) | _ => None end.

(* ---------------------------------------------------------------- documents *)
Inductive xnode := XText (t : str) | XElem (q : name) (attrs : list (name * str)) (kids : list xnode).

Definition find_class (cs : list eclass) (q : name) : option eclass := find (fun c => name_eqb (ec_name c) q) cs.

Definition child_names (kids : list xnode) : list name :=
  concat (map (fun k => match k with XElem q _ _ => [q] | XText _ => [] end) kids).

Definition ws_only (t : str) : bool := forallb xml_ws t.
Definition has_text (kids : list xnode) : bool :=
  existsb (fun k => match k with XText t => negb (ws_only t) | _ => false end) kids.

Definition attrs_accept (c : eclass) (attrs : list (name * str)) : bool :=
  forallb (fun kv => match find_afield (ec_afields c) (fst kv) with
                     | Some f => match afield_roundtrip f (Some (snd kv)) with Some _ => true | None => false end
                     | None => false end) attrs
  && forallb (fun f => negb (af_required f) || existsb (fun kv => name_eqb (fst kv) (af_name f)) attrs) (ec_afields c).

(* an element whose class holds its content in a non-mixed wildcard (the class of an ANY element):
   ElementNode.bind_wild_text stores the element's own text AND tail in a generic element and marks
   the tail as processed, so the parent never sees it *)
Definition wild_nonmixed (c : eclass) : bool :=
  existsb ef_wild (m_fields (ec_meta c)) && negb (m_mixed (ec_meta c)).

Definition captures_tail (cs : list eclass) (q : name) : bool :=
  match find (fun c => name_eqb (ec_name c) q) cs with Some c => wild_nonmixed c | None => false end.

(* non-blank text right after a child that does not capture it: the parent gets a (None, text) object *)
Fixpoint loose_tail (cs : list eclass) (kids : list xnode) : bool :=
  match kids with
  | XElem q _ _ :: ((XText t :: _) as r) => (negb (captures_tail cs q) && negb (ws_only t)) || loose_tail cs r
  | _ :: r => loose_tail cs r
  | [] => false
  end.

(* one element instance: 0 = bindable; 1 = a child has no slot / a required field stays empty;
   2 = attributes not bindable; 3 = a loose tail in a class with a non-mixed wildcard
   (ElementNode.bind_objects looks up a field for the qname None: TypeError in find_wildcard) *)
Definition inst_code (cs : list eclass) (c : eclass) (attrs : list (name * str)) (kids : list xnode) : nat :=
  if negb (accepts_word (ec_meta c) (child_names kids)) then 1
  else if negb (attrs_accept c attrs) then 2
  else if loose_tail cs kids && wild_nonmixed c then 3
  else 0.

Fixpoint index_class (cs : list eclass) (q : name) (i : nat) : option nat :=
  match cs with [] => None | c :: r => if name_eqb (ec_name c) q then Some i else index_class r q (S i) end.

(* (class index, code) of every instance the abstract rejects *)
Fixpoint rejecting (fuel : nat) (cs : list eclass) (n : xnode) : list (nat * nat) :=
  match fuel with
  | O => []
  | S f =>
      match n with
      | XText _ => []
      | XElem q attrs kids =>
          (match find_class cs q, index_class cs q 0 with
           | Some c, Some i => match inst_code cs c attrs kids with 0 => [] | k => [(i, k)] end
           | _, _ => [(length cs, 9)]
           end) ++ concat (map (rejecting f cs) kids)
      end
  end.

Definition node_accepts (fuel : nat) (cs : list eclass) (n : xnode) : bool :=
  match rejecting fuel cs n with [] => true | _ => false end.

Fixpoint node_has_mixed_ws (fuel : nat) (cs : list eclass) (n : xnode) : bool :=
  match fuel with
  | O => false
  | S f =>
      match n with
      | XText _ => false
      | XElem q _ kids =>
          (match find_class cs q with
           | Some c => match ec_ctype c with
                       | CMixed _ => existsb (fun k => match k with XText t => ws_only t | _ => false end) kids
                       | _ => false end
           | None => false
           end) || existsb (node_has_mixed_ws f cs) kids
      end
  end.

(* --- infoset comparison *)
Definition is_elem_content (c : eclass) : bool := match ec_ctype c with CElems _ | CEmpty => true | _ => false end.

(* the input as a DTD-aware reader sees it: defaults and fixed values materialised,
   ignorable white space of element content dropped *)
Definition with_defaults (c : eclass) (attrs : list (name * str)) : list (name * str) :=
  attrs ++ concat (map (fun d =>
    if existsb (fun kv => name_eqb (fst kv) (ad_name d)) attrs then []
    else match effective d None with Some v => [(ad_name d, v)] | None => [] end) (ec_decls c)).

Fixpoint normalise (fuel : nat) (cs : list eclass) (n : xnode) : xnode :=
  match fuel with
  | O => n
  | S f =>
      match n with
      | XText _ => n
      | XElem q attrs kids =>
          match find_class cs q with
          | None => n
          | Some c =>
              let kids' := if is_elem_content c
                           then filter (fun k => match k with XText t => negb (ws_only t) | _ => true end) kids
                           else kids in
              XElem q (with_defaults c attrs) (map (normalise f cs) kids')
          end
      end
  end.

Definition attr_pair_eqb := pair_eqb name_eqb str_eqb.
Fixpoint remove_first {A} (e : A -> A -> bool) (x : A) (l : list A) : option (list A) :=
  match l with
  | [] => None
  | y :: r => if e x y then Some r else option_map (cons y) (remove_first e x r)
  end.
Fixpoint perm_eqb {A} (e : A -> A -> bool) (a b : list A) : bool :=
  match a with
  | [] => match b with [] => true | _ => false end
  | x :: r => match remove_first e x b with Some b' => perm_eqb e r b' | None => false end
  end.

(* ordered q = true: the children of q must come out in the same order *)
Fixpoint node_eqb (fuel : nat) (ordered : name -> bool) (a b : xnode) : bool :=
  match fuel with
  | O => false
  | S f =>
      match a, b with
      | XText s, XText t => str_eqb s t
      | XElem q xs ks, XElem q' ys ks' =>
          name_eqb q q' && perm_eqb attr_pair_eqb xs ys &&
          (if ordered q then list_eqb (node_eqb f ordered) ks ks' else perm_eqb (node_eqb f ordered) ks ks')
      | _, _ => false
      end
  end.

Fixpoint depth (n : xnode) : nat :=
  match n with XText _ => 1 | XElem _ _ kids => S (fold_right Nat.max 0 (map depth kids)) end.

Record program := mk_program { p_classes : list eclass; p_compound : bool }.

Record doc := mk_doc {
  d_in : xnode;
  d_out : option xnode;           (* None: the real parser or serializer raised *)
  d_out_valid : bool              (* lxml's DTD validator on the output *)
}.

Definition fuel_of (d : doc) : nat := S (depth (d_in d)).

(* 1. the slot-assignment abstract predicts the real parser's verdict *)
Definition doc_parse_agrees (pd : program * doc) : bool :=
  let (p, d) := pd in
  Bool.eqb (node_accepts (fuel_of d) (p_classes p) (d_in d)) (match d_out d with Some _ => true | None => false end).

(* order is claimed for a class when the proved condition holds; the property claims it when
   its own side condition holds and compound fields are on *)
Definition class_ordered (p : program) (q : name) : bool :=
  match find_class (p_classes p) q with
  | Some c => order_safe (ctype_cm (ec_ctype c)) (ec_meta c)
              || (p_compound p && rep_confined (ctype_cm (ec_ctype c)))
  | None => false
  end.

(* 2. same elements, attributes and values (defaults applied); order where it is claimed *)
Definition doc_infoset_ok (pd : program * doc) : bool :=
  let (p, d) := pd in
  match d_out d with
  | None => true
  | Some o => node_eqb (S (fuel_of d)) (class_ordered p) (normalise (fuel_of d) (p_classes p) (d_in d))
                       (normalise (fuel_of d) (p_classes p) o)
  end.

(* the same, order ignored everywhere: separates "something lost" from "order changed" *)
Definition doc_infoset_unordered_ok (pd : program * doc) : bool :=
  let (p, d) := pd in
  match d_out d with
  | None => true
  | Some o => node_eqb (S (fuel_of d)) (fun _ => false) (normalise (fuel_of d) (p_classes p) (d_in d))
                       (normalise (fuel_of d) (p_classes p) o)
  end.

Fixpoint node_classes (fuel : nat) (n : xnode) : list name :=
  match fuel with
  | O => []
  | S f => match n with XText _ => [] | XElem q _ kids => q :: concat (map (node_classes f) kids) end
  end.

(* 3. where order is claimed for every element of the document, the output is DTD-valid again *)
Definition doc_revalid_ok (pd : program * doc) : bool :=
  let (p, d) := pd in
  match d_out d with
  | None => true
  | Some _ => negb (forallb (class_ordered p) (node_classes (fuel_of d) (d_in d))) || d_out_valid d
  end.

(* an element whose class holds its content in a non-mixed wildcard (the class of an ANY element),
   followed by text: the parser binds that tail into the child's own wildcard *)
Fixpoint kids_wild_tail (cs : list eclass) (kids : list xnode) : bool :=
  match kids with
  | XElem q _ _ :: ((XText t :: _) as r) =>
      (match find_class cs q with Some c => wild_nonmixed c && negb (ws_only t) | None => false end) || kids_wild_tail cs r
  | _ :: r => kids_wild_tail cs r
  | [] => false
  end.

Fixpoint node_has_wild_tail (fuel : nat) (cs : list eclass) (n : xnode) : bool :=
  match fuel with
  | O => false
  | S f =>
      match n with
      | XText _ => false
      | XElem _ _ kids => kids_wild_tail cs kids || existsb (node_has_wild_tail f cs) kids
      end
  end.
Definition doc_has_wild_tail (pd : program * doc) : bool :=
  let (p, d) := pd in node_has_wild_tail (fuel_of d) (p_classes p) (d_in d).

Fixpoint node_has_amp_class (fuel : nat) (cs : list eclass) (n : xnode) : bool :=
  match fuel with
  | O => false
  | S f =>
      match n with
      | XText _ => false
      | XElem q _ kids =>
          (match find_class cs q with Some c => amp_default c | None => false end)
          || existsb (node_has_amp_class f cs) kids
      end
  end.
Definition doc_has_amp_class (pd : program * doc) : bool :=
  let (p, d) := pd in node_has_amp_class (fuel_of d) (p_classes p) (d_in d).

(* indices of the classes whose instances occur in the document *)
Fixpoint node_class_idx (fuel : nat) (cs : list eclass) (n : xnode) : list nat :=
  match fuel with
  | O => []
  | S f =>
      match n with
      | XText _ => []
      | XElem q _ kids =>
          (match index_class cs q 0 with Some i => [i] | None => [] end) ++ concat (map (node_class_idx f cs) kids)
      end
  end.
Definition doc_class_idx (pd : program * doc) : list nat :=
  let (p, d) := pd in nodup Nat.eq_dec (node_class_idx (fuel_of d) (p_classes p) (d_in d)).

Definition doc_rejecting (pd : program * doc) : list (nat * nat) :=
  let (p, d) := pd in rejecting (fuel_of d) (p_classes p) (d_in d).
Definition doc_has_mixed_ws (pd : program * doc) : bool :=
  let (p, d) := pd in node_has_mixed_ws (fuel_of d) (p_classes p) (d_in d).

(* the content models agree with lxml's validator on the generated (valid) documents *)
Fixpoint node_in_lang (fuel : nat) (cs : list eclass) (n : xnode) : bool :=
  match fuel with
  | O => false
  | S f =>
      match n with
      | XText _ => true
      | XElem q _ kids =>
          match find_class cs q with
          | None => false
          | Some c =>
              (match ec_ctype c with
               | CEmpty => match kids with [] => true | _ => false end
               | CText => match child_names kids with [] => true | _ => false end
               | CElems m => matches m (child_names kids) && negb (has_text kids)
               | CMixed m => matches m (child_names kids)
               end) && forallb (node_in_lang f cs) kids
          end
      end
  end.
Definition doc_in_lang (pd : program * doc) : bool :=
  let (p, d) := pd in node_in_lang (fuel_of d) (p_classes p) (d_in d).
