(* Model/DictCodecCorr.v — predicates evaluated by the generated case files of the C04
   check: model <-> implementation agreement of DictEncoder / DictDecoder, the property's
   own oracle (round trip, on the implementation's answers) and the computable guard
   clauses of the C04 theorems. *)
From Coq Require Import NArith ZArith List Bool.
From XV Require Import Base.Str Base.Eqb Base.PyInt Model.Bind Model.EventGen Model.DictCodec.
Import ListNotations.
Open Scope N_scope.

(* ================================================================ typed instances *)
Definition enum_member_ok (u : universe) (p : prim) : bool :=
  match p with
  | PEnum e m => match enum_value u e m with Some (PEnum _ _) => false | Some _ => true | None => false end
  | _ => true
  end.

Definition prim_typed (u : universe) (var : xvar) (p : prim) : bool :=
  existsb (ptype_eqb (prim_type p)) (v_types var) && enum_member_ok u p.

(* `typed`: every field holds a value of its declared type (no untyped `object` primitives) *)
(* a list value has the Python type of the field's factory (list / tuple) *)
Definition is_fac (t : bool) (f : option factory) : bool :=
  Bool.eqb t (match f with Some FTuple => true | _ => false end).

Fixpoint typed (g : generics) (u : universe) (fuel : nat) (v : value) {struct fuel} : bool :=
  match fuel with
  | O => false
  | S f =>
      match v with
      | VObj cl fs =>
          match u_meta u cl with
          | None => false
          | Some meta =>
              let vars := get_all_vars meta in
              let item := fun (var : xvar) (x : value) =>
                match x with
                | VP p => prim_typed u var p
                | VObj c' _ => existsb (fun t => match t with TClass d => is_subclass u c' d | _ => false end) (v_types var)
                               && typed g u f x
                | VDerived _ (VObj c' fs') (Some _) =>
                    (* a DerivedElement naming the real type of a value of a derived class *)
                    v_is KElement var
                    && existsb (fun t => match t with TClass d => is_subclass u c' d | _ => false end) (v_types var)
                    && typed g u f (VObj c' fs')
                | _ => false
                end in
              let any_item := fun (x : value) =>
                match x with
                | VAny _ _ _ _ _ => typed g u f x
                | _ => false
                end in
              let choice_item := fun (var : xvar) (x : value) =>
                existsb (fun qe => item (snd qe) x) (v_elements var) in
              list_eqb str_eqb (map fst fs) (map v_name vars)
              && forallb (fun var =>
                   match assoc (v_name var) fs with
                   | None => false
                   | Some x =>
                       match v_kind var with
                       | KAttributes => match x with VMap _ => true | _ => false end
                       | KWildcard =>
                           if v_mixed var then
                             match x with
                             | VList t l => is_fac t (v_factory var) && forallb (fun y => match y with VP (PStr (_ :: _)) => true | _ => any_item y end) l
                             | _ => false
                             end
                           else if v_list_element var then
                             match x with VList t l => is_fac t (v_factory var) && forallb any_item l | _ => false end
                           else match x with VNone => true | _ => any_item x end
                       | KElements =>
                           if v_list_element var then
                             match x with VList t l => is_fac t (v_factory var) && forallb (choice_item var) l | _ => false end
                           else match x with VNone => true | _ => choice_item var x end
                       | _ =>
                           if v_tokens var then
                             match x with
                             | VList t l =>
                                 if v_list_element var
                                 then is_fac t (v_factory var) && forallb (fun y => match y with VList t' l' => is_fac t' (v_tokens_factory var) && forallb (item var) l' | _ => false end) l
                                 else is_fac t (v_tokens_factory var) && forallb (item var) l
                             | _ => false
                             end
                           else if v_list_element var then
                             match x with VList t l => is_fac t (v_factory var) && forallb (item var) l | _ => false end
                           else match x with VNone => true | _ => item var x end
                       end
                   end) vars
          end
      | VAny _ _ _ _ ch =>
          forallb (fun y => match y with VP (PStr _) => true | VAny _ _ _ _ _ => typed g u f y | _ => false end) ch
      | _ => false
      end
  end.

Definition typed_doc (g : generics) (u : universe) (v : value) : bool :=
  match v with
  | VList false l => forallb (fun x => typed g u (S (vdepth x)) x) l
  | _ => typed g u (S (vdepth v)) v
  end.

(* ================================================================ defect clauses *)
(* every clause is a computable predicate "the instance avoids this (refuted) class" *)

(* walk all model objects of an instance *)
Fixpoint all_objects (fuel : nat) (v : value) {struct fuel} : list value :=
  match fuel with
  | O => []
  | S f =>
      match v with
      | VObj _ fs => v :: flat_map (fun kv => all_objects f (snd kv)) fs
      | VList _ l => flat_map (all_objects f) l
      | VDerived _ x _ => all_objects f x
      | VAny _ _ _ _ ch => flat_map (all_objects f) ch
      | _ => []
      end
  end.
Definition objects_of (v : value) : list value := all_objects (S (S (vdepth v))) v.

Fixpoint distinct_keys (l : list str) : bool :=
  match l with [] => true | x :: r => negb (existsb (str_eqb x) r) && distinct_keys r end.

Definition json_key (var : xvar) : str := match v_wrapper var with Some w => w | None => v_local_name var end.

(* 1. two fields of one class share a JSON key (e.g. attribute `id` and element `id`) *)
Definition keys_distinct (u : universe) (v : value) : bool :=
  forallb (fun o => match o with
                    | VObj cl _ => match u_meta u cl with
                                   | Some meta => distinct_keys (map json_key (get_all_vars meta))
                                   | None => false
                                   end
                    | _ => true
                    end) (objects_of v).

(* 2. a None held by a field whose default is a value: `null` decodes to that default *)
Definition no_null_default (u : universe) (v : value) : bool :=
  forallb (fun o => match o with
                    | VObj cl fs =>
                        match u_meta u cl with
                        | Some meta =>
                            forallb (fun var => match assoc (v_name var) fs, v_default var with
                                                | Some VNone, DValue (VP _) => false
                                                | _, _ => true
                                                end) (get_all_vars meta)
                        | None => false
                        end
                    | _ => true
                    end) (objects_of v).

(* 3. no object is decoded through bind_best_dataclass (no type marker in JSON: the class is
      guessed from the keys): class fields whose class has subclasses, class choices of compound
      fields, models inside wildcards, DerivedElement values *)
Definition no_best_match (u : universe) (v : value) : bool :=
  forallb (fun o => match o with
                    | VObj cl fs =>
                        match u_meta u cl with
                        | Some meta =>
                            forallb (fun var =>
                               let x := match assoc (v_name var) fs with Some x => x | None => VNone end in
                               let has_obj := match x with
                                              | VObj _ _ | VDerived _ _ _ => true
                                              | VList _ l => existsb (fun y => match y with VObj _ _ | VDerived _ _ _ => true | _ => false end) l
                                              | _ => false
                                              end in
                               negb has_obj
                               || (v_is KElement var && negb (v_is_clazz_union var) && negb (v_any_type var)
                                   && match v_clazz var with
                                      | Some c => match subclasses_of u c with [] => true | _ => false end
                                      | None => false
                                      end)) (get_all_vars meta)
                        | None => false
                        end
                    | _ => true
                    end) (objects_of v).

(* 4. compound fields: the JSON form of every primitive item selects a choice of the item's own type *)
Definition compound_unambiguous (c : conv) (u : universe) (v : value) : bool :=
  forallb (fun o => match o with
                    | VObj cl fs =>
                        match u_meta u cl with
                        | Some meta =>
                            forallb (fun var =>
                               if v_is KElements var then
                                 let x := match assoc (v_name var) fs with Some x => x | None => VNone end in
                                 let ok := fun y =>
                                   match y with
                                   | VP p =>
                                       match encode_leaf c u None p with
                                       | Ok j =>
                                           match find_value_choice c u var (jv_to_value j) false with
                                           | Ok (Some ch) => existsb (ptype_eqb (prim_type p)) (v_types ch)
                                                             && match v_format ch with None => true | Some _ => false end
                                           | _ => false
                                           end
                                       | Err _ => false
                                       end
                                   | _ => true
                                   end in
                                 match x with VList _ l => forallb ok l | _ => ok x end
                               else true) (get_all_vars meta)
                        | None => false
                        end
                    | _ => true
                    end) (objects_of v).

(* 6. strictly JSON: finite floats *)
Definition finite_float (r : str) : bool :=
  negb (str_eqb r [110;97;110] || str_eqb r [105;110;102] || str_eqb r [45;105;110;102]).
Fixpoint finite_floats (v : value) : bool :=
  let fix nl (l : list value) : bool := match l with [] => true | x :: r => finite_floats x && nl r end in
  let fix nf (l : list (str * value)) : bool := match l with [] => true | (_, x) :: r => finite_floats x && nf r end in
  match v with
  | VP (PFloat r) => finite_float r
  | VList _ l => nl l
  | VObj _ fs => nf fs
  | VAny _ _ _ _ ch => nl ch
  | VDerived _ x _ => finite_floats x
  | _ => true
  end.
Fixpoint strict_json (j : jvalue) : bool :=
  let fix jl (l : list jvalue) : bool := match l with [] => true | x :: r => strict_json x && jl r end in
  let fix jd (l : list (str * jvalue)) : bool := match l with [] => true | (_, x) :: r => strict_json x && jd r end in
  match j with
  | JFloat r => finite_float r
  | JList _ l => jl l
  | JDict m => jd m
  | _ => true
  end.

(* 7. the None-filtering factory also filters the keys of the generic AnyElement / DerivedElement
      dictionaries, which the decoder recognises by their exact key set *)
Fixpoint generics_complete (v : value) : bool :=
  let fix nl (l : list value) : bool := match l with [] => true | x :: r => generics_complete x && nl r end in
  let fix nf (l : list (str * value)) : bool := match l with [] => true | (_, x) :: r => generics_complete x && nf r end in
  match v with
  | VAny (Some _) (Some _) (Some _) _ ch => nl ch
  | VAny _ _ _ _ _ => false
  | VDerived _ x (Some _) => generics_complete x
  | VDerived _ _ None => false
  | VList _ l => nl l
  | VObj _ fs => nf fs
  | _ => true
  end.

(* ================================================================ cases *)
Record dc_case := mk_dc_case {
  dc_gen : generics;
  dc_factory : dict_factory;
  dc_ignore : bool;
  dc_table : conv_table;
  dc_cls : cls;
  dc_is_list : bool;
  dc_value : value;                         (* the instance (or VList of instances) *)
  dc_encoded : gres jvalue;                 (* DictEncoder.encode *)
  dc_decoded : gres value;                  (* DictDecoder.decode of that *)
  dc_json_decoded : gres value;             (* JsonParser of JsonSerializer.render *)
  (* the same three objects with Decimals in canonical form (Decimal equality is numeric:
     Decimal('1E+5') == Decimal('100000')), used by the round-trip oracle only *)
  dc_value_c : value;
  dc_decoded_c : gres value;
  dc_json_decoded_c : gres value;
  dc_json_same_tree : bool;                 (* json.loads(render(obj)) == encoded (tuples as lists) *)
  dc_dumps_ok : bool                        (* json.dumps(encoded) succeeded *)
}.

Definition gres_eqb {A} (e : A -> A -> bool) (a b : gres A) : bool :=
  match a, b with
  | Ok x, Ok y => e x y
  | Err x, Err y => gerr_eqb x y && negb (gerr_eqb x EFuel) && negb (gerr_eqb x EUnmodelled)
  | _, _ => false
  end.

Definition model_encode (u : universe) (k : dc_case) : gres jvalue :=
  encode (dc_gen k) (dc_factory k) (dc_ignore k) (conv_of_table (dc_table k)) u (dc_value k).

Definition model_decode (u : universe) (k : dc_case) (j : jvalue) : gres value :=
  decode (dc_gen k) (conv_of_table (dc_table k)) u (dc_cls k) (dc_is_list k) j.

Definition agree_encode (uk : universe * dc_case) : bool :=
  let '(u, k) := uk in gres_eqb jvalue_eqb (model_encode u k) (dc_encoded k).

(* the decoder on what the IMPLEMENTATION encoded; an answer that depends on set order agrees with anything *)
Definition agree_decode (uk : universe * dc_case) : bool :=
  let '(u, k) := uk in
  match dc_encoded k with
  | Ok j =>
      match model_decode u k j, dc_decoded k with
      | Err EAmbiguous, _ => true
      | _, Err EUnmodelled => true      (* an exception class the model has no name for (ill-typed input);
                                           for typed input the round-trip oracle reports it *)
      | r, o => gres_eqb value_eqb r o
      end
  | Err _ => true
  end.

Definition decode_ambiguous (uk : universe * dc_case) : bool :=
  let '(u, k) := uk in
  match dc_encoded k with
  | Ok j => match model_decode u k j with Err EAmbiguous => true | _ => false end
  | Err _ => false
  end.

(* what the property promises for this factory *)
Definition expected (u : universe) (k : dc_case) : value :=
  match dc_factory k with
  | FDict => dc_value_c k
  | FFilterNone => fill_defaults (dc_gen k) u (S (S (vdepth (dc_value_c k)))) (dc_value_c k)
  end.

(* the two codec pairs separately: DictEncoder -> DictDecoder on the in-memory tree, and
   JsonSerializer -> JsonParser through JSON text (tuples become arrays) *)
Definition roundtrip_dict_ok (uk : universe * dc_case) : bool :=
  let '(u, k) := uk in gres_eqb value_eqb (dc_decoded_c k) (Ok (expected u k)).
Definition roundtrip_json_ok (uk : universe * dc_case) : bool :=
  let '(u, k) := uk in
  gres_eqb value_eqb (dc_json_decoded_c k) (Ok (expected u k)) && dc_json_same_tree k && dc_dumps_ok k.
Definition roundtrip_ok (uk : universe * dc_case) : bool := roundtrip_dict_ok uk && roundtrip_json_ok uk.

(* JSON text has arrays only *)
Fixpoint jdetuple (j : jvalue) : jvalue :=
  let fix jl (l : list jvalue) : list jvalue := match l with [] => [] | x :: r => jdetuple x :: jl r end in
  let fix jd (l : list (str * jvalue)) : list (str * jvalue) :=
    match l with [] => [] | (k, x) :: r => (k, jdetuple x) :: jd r end in
  match j with
  | JList _ l => JList false (jl l)
  | JDict m => JDict (jd m)
  | _ => j
  end.

(* the decoder model on the JSON form of what the implementation encoded, against JsonParser *)
Definition agree_json_decode (uk : universe * dc_case) : bool :=
  let '(u, k) := uk in
  match dc_encoded k with
  | Ok j =>
      if dc_json_same_tree k then
        match model_decode u k (jdetuple j), dc_json_decoded k with
        | Err EAmbiguous, _ => true
        | _, Err EUnmodelled => true
        | r, o => gres_eqb value_eqb r o
        end
      else true
  | Err _ => true
  end.

(* the defect clauses this case violates: 1 keys 2 null-default 3 best-match 4 compound 7 generic keys *)
Definition clauses_failing (uk : universe * dc_case) : list N :=
  let '(u, k) := uk in
  let v := dc_value k in
  (if keys_distinct u v then [] else [1])
  ++ (if match dc_factory k with FDict => no_null_default u v | FFilterNone => true end then [] else [2])
  ++ (if no_best_match u v then [] else [3])
  ++ (if compound_unambiguous (conv_of_table (dc_table k)) u v then [] else [4])
  ++ (if match dc_factory k with FFilterNone => generics_complete v | FDict => true end then [] else [7]).

Definition in_guard (uk : universe * dc_case) : bool :=
  let '(u, k) := uk in
  typed_doc (dc_gen k) u (dc_value k) && negb (dc_ignore k)
  && match clauses_failing uk with [] => true | _ => false end.

Definition is_typed (uk : universe * dc_case) : bool :=
  let '(u, k) := uk in typed_doc (dc_gen k) u (dc_value k) && negb (dc_ignore k).

(* oracle inside the guard *)
Definition oracle_roundtrip (uk : universe * dc_case) : bool := negb (in_guard uk) || roundtrip_ok uk.

(* typed, outside the guard, and the round trip fails: attributed to clause n *)
Definition fails_by_clause (n : N) (uk : universe * dc_case) : bool :=
  is_typed uk && negb (roundtrip_ok uk) && match clauses_failing uk with m :: _ => N.eqb m n | [] => false end.

(* encode_json_native on the implementation's answer *)
Definition oracle_strict_json (uk : universe * dc_case) : bool :=
  let '(u, k) := uk in
  negb (finite_floats (dc_value k)) || match dc_encoded k with Ok j => strict_json j | Err _ => true end.

(* an object whose class has a wrapper field sits where the decoder guesses the class *)
Definition has_wrapper_object (u : universe) (v : value) : bool :=
  existsb (fun o => match o with
                    | VObj cl _ => match u_meta u cl with
                                   | Some meta => existsb (fun var => match v_wrapper var with Some _ => true | None => false end)
                                                          (get_all_vars meta)
                                   | None => false
                                   end
                    | _ => false
                    end) (objects_of v).

(* attribution of a failing round trip outside the guard (first match wins, in this order):
   10 best-match tie (set order), 1 key collision, 2 null -> default, 4 compound choice shadowed,
 7 generic keys filtered,
   12 class guessed by bind_best_dataclass (no type marker in JSON), 0 unexplained *)
Definition failure_class (uk : universe * dc_case) : N :=
  let '(u, k) := uk in
  if negb (is_typed uk) || roundtrip_ok uk then 99
  else if in_guard uk then 98
  else if decode_ambiguous uk then 10
  else match clauses_failing uk with
       | 1 :: _ => 1
       | 2 :: _ => 2
       | l =>
           if existsb (N.eqb 4) l then 4
           else if existsb (N.eqb 7) l then 7
           else if existsb (N.eqb 3) l && agree_decode uk then 12     (* the model reproduces the guess *)
           else 0
       end.
Definition not_class (n : N) (uk : universe * dc_case) : bool := negb (N.eqb (failure_class uk) n).
Definition negb_ambiguous (uk : universe * dc_case) : bool := negb (decode_ambiguous uk).

(* ================================================================ the proved slice (D1) *)
(* The guard of theorems C04_dict_roundtrip / C04_dict_roundtrip_filter_none: instances whose
   reachable classes use Text / Element / Attribute fields of one primitive, enum or class
   type (class without subclasses), scalar / list / tokens / list of tokens, no wrapper;
   every primitive leaf survives the converter (property C05's subject, here a computable
   condition on the instance), tokens are non-empty and free of whitespace. *)

(* the text DictDecoder hands to converter.deserialize for the encoded form of p *)
Definition json_text (c : conv) (u : universe) (fmt : option str) (p : prim) : option str :=
  match (match p with PEnum e m => enum_value u e m | _ => Some p end) with
  | Some (PStr s) => Some s
  | Some (PInt z) => Some (c_ser c None (PInt z))
  | Some (PBool b) => Some (c_ser c None (PBool b))
  | Some (PFloat r) => Some (c_ser c None (PFloat r))
  | Some (PEnum _ _) => None
  | Some q => Some (c_ser c fmt q)
  | None => None
  end.

Definition oprim_eqb := opt_eqb prim_eqb.

Definition leaf_ok (c : conv) (u : universe) (var : xvar) (p : prim) : bool :=
  match json_text c u (v_format var) p with
  | Some s => oprim_eqb (c_deser c (v_types var) (v_format var) [] s) (Some p)
  | None => false
  end.

Definition token_text_ok (c : conv) (u : universe) (var : xvar) (p : prim) : bool :=
  match json_text c u (v_format var) p with
  | Some s => nonempty s && forallb (fun ch => negb (py_isspace ch)) s
  | None => false
  end.

Definition d1_var (u : universe) (var : xvar) : bool :=
  (v_is KText var || v_is KElement var || v_is KAttribute var)
  && match v_wrapper_qname var with None => true | Some _ => false end
  && v_init var && negb (v_any_type var) && negb (v_mixed var)
  && match v_elements var with [] => true | _ => false end
  && match v_types var with
     | [TClass c'] => opt_eqb N.eqb (v_clazz var) (Some c') && negb (v_tokens var)
                      && match subclasses_of u c' with [] => true | _ => false end
     | [TObject] => false
     | [_] => match v_clazz var with None => true | Some _ => false end
     | _ => false
     end
  && match v_factory var with None | Some FList => true | Some FTuple => false end
  && match v_tokens_factory var with None | Some FList => true | Some FTuple => false end.

Definition same_keys (a b : list str) : bool :=
  forallb (fun k => existsb (str_eqb k) b) a && forallb (fun k => existsb (str_eqb k) a) b.

(* the decoder recognises the generic dictionaries by their exact key set; with the
   None-filtering factory any subset of a class's keys can be what is left *)
Definition generic_keys_ok (fac : dict_factory) (locals ks : list str) : bool :=
  match fac with
  | FDict => negb (same_keys locals ks)
  | FFilterNone => negb (forallb (fun k => existsb (str_eqb k) locals) ks)
  end.

Fixpoint d1_value (g : generics) (fac : dict_factory) (c : conv) (u : universe) (fuel : nat) (v : value) {struct fuel} : bool :=
  match fuel with
  | O => false
  | S f =>
      match v with
      | VObj cl fs =>
          match u_meta u cl with
          | None => false
          | Some meta =>
              let vars := get_all_vars meta in
              let item := fun (var : xvar) (x : value) =>
                match x with
                | VP p => existsb (ptype_eqb (prim_type p)) (v_types var) && leaf_ok c u var p
                | VObj c' _ => opt_eqb N.eqb (v_clazz var) (Some c') && d1_value g fac c u f x
                | _ => false
                end in
              let token := fun (var : xvar) (x : value) =>
                match x with
                | VP p => existsb (ptype_eqb (prim_type p)) (v_types var) && leaf_ok c u var p && token_text_ok c u var p
                | _ => false
                end in
              negb (N.eqb cl (g_any g)) && negb (N.eqb cl (g_derived g))
              && list_eqb str_eqb (map fst fs) (map v_name vars)
              && distinct_keys (map v_name vars) && distinct_keys (map v_local_name vars)
              && generic_keys_ok fac (map v_local_name vars) DERIVED_KEYS
              && generic_keys_ok fac (map v_local_name vars) ANY_KEYS
              && forallb (d1_var u) vars
              && forallb (fun var =>
                   match assoc (v_name var) fs with
                   | None => false
                   | Some x =>
                       match v_factory var, v_tokens_factory var with
                       | None, None =>
                           match x with
                           | VNone => match v_default var with DNone => true | _ => false end
                           | _ => item var x
                           end
                       | Some _, None => match x with VList false l => forallb (item var) l | _ => false end
                       | None, Some _ => match x with VList false l => forallb (token var) l | _ => false end
                       | Some _, Some _ =>
                           match x with
                           | VList false l => forallb (fun y => match y with VList false l' => forallb (token var) l' | _ => false end) l
                           | _ => false
                           end
                       end
                   end) vars
          end
      | _ => false
      end
  end.

Definition in_proved_slice (uk : universe * dc_case) : bool :=
  let '(u, k) := uk in
  negb (dc_ignore k) && negb (dc_is_list k)
  && d1_value (dc_gen k) (dc_factory k) (conv_of_table (dc_table k)) u (S (vdepth (dc_value k))) (dc_value k).

(* the theorem's statement evaluated by the model on the case (sanity of its reading) *)
Definition theorem_instance (uk : universe * dc_case) : bool :=
  let '(u, k) := uk in
  negb (in_proved_slice uk)
  || match model_encode u k with
     | Ok j => gres_eqb value_eqb (model_decode u k j)
                 (Ok (match dc_factory k with
                      | FDict => dc_value k
                      | FFilterNone => fill_defaults (dc_gen k) u (S (S (vdepth (dc_value k)))) (dc_value k)
                      end))
     | Err _ => false
     end.

(* what the model answers for the case: decode (encode o) is the promised object *)
Definition model_roundtrip (uk : universe * dc_case) : bool :=
  let '(u, k) := uk in
  match model_encode u k with
  | Ok j => gres_eqb value_eqb (model_decode u k j)
              (Ok (match dc_factory k with
                   | FDict => dc_value k
                   | FFilterNone => fill_defaults (dc_gen k) u (S (S (vdepth (dc_value k)))) (dc_value k)
                   end))
  | Err _ => false
  end.

