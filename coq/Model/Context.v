(* Model/Context.v — executable model of xsdata/formats/dataclass/context.py
   (XmlContext) together with exactly that part of the binding metadata that
   depends on the *parent namespace* (XmlMetaBuilder.build_class_meta,
   XmlVarBuilder.resolve_namespaces, XmlVar.qname), the wildcard namespace memo
   of XmlVar, and the ns_map recorder of the parser instances.

   Faithful, including the defects:
     (a) `cache` is keyed by class only although `build_meta` depends on the
         parent namespace;
     (b) `build_xsi_cache` judges the currency of the subclass index by
         `len(sys.modules)` only;
   (until /repo c28ded8 also: (c) `local_names_match` pruned a class whose metadata
   cannot be built from the index and raised ValueError the second time; such
   classes are now remembered in the set `unsupported`, a pure memo.)
   Client code (serializers, parsers, decoders, encoders) is represented by
   *scripts*: interaction trees over the context's public methods.  No proofs in
   this file. *)
From Coq Require Import String Ascii NArith List Bool.
From XV Require Import Base.Str Base.Dec Base.Eqb Gen.ContextTables.
Import ListNotations.
Open Scope N_scope.

(* ------------------------------------------------------------------ text *)
Fixpoint lit (s : string) : str :=
  match s with
  | EmptyString => []
  | String a r => N_of_ascii a :: lit r
  end.

Definition cid := N.
Definition ostr := option str.

(* Python truthiness of `str | None` *)
Definition truthy (o : ostr) : ostr :=
  match o with Some [] => None | x => x end.

(* utils/namespaces.py build_qname (tag is never empty here) *)
Definition build_qname (ns : ostr) (tag : str) : str :=
  match ns with
  | Some (c :: r) => 123 :: (c :: r) ++ 125 :: tag
  | _ => tag
  end.

(* first occurrence of a separator character: str.partition *)
Fixpoint partition_chr (c : N) (s : str) : option (str * str) :=
  match s with
  | [] => None
  | x :: r => if N.eqb x c then Some ([], r)
              else match partition_chr c r with
                   | Some (a, b) => Some (x :: a, b)
                   | None => None
                   end
  end.

(* utils/namespaces.py split_qname, through utils/text.py split *)
Definition split_qname (q : str) : ostr * str :=
  match q with
  | 123 :: r =>
      match partition_chr 125 r with
      | Some (c :: l, x :: rr) => (Some (c :: l), x :: rr)
      | _ => (None, q)
      end
  | _ => (None, q)
  end.
Definition target_uri (q : str) : ostr := fst (split_qname q).

(* DataType.from_qname(q) is not None *)
Definition is_datatype_qname (q : str) : bool :=
  match split_qname q with
  | (Some u, l) => str_eqb u xs_uri && existsb (str_eqb l) datatype_codes
  | _ => false
  end.

(* ------------------------------------------------- class descriptions *)
Inductive ftype := TStr | TCls (c : cid) | TAny.
Inductive fkind := KAttr | KElem | KWild.

(* f_ns: the `namespace` entry of the field metadata (one token);
   f_base_ns: Some u when the field is declared in a *base* class whose own
   `Meta` sets namespace = u (XmlMetaBuilder.build_vars) *)
Record fdesc := mkF {
  f_name : str; f_kind : fkind; f_ns : ostr; f_type : ftype; f_list : bool; f_base_ns : ostr }.

(* c_ns: Meta.namespace if the class body itself declares one;
   c_tns: Meta.target_namespace, else the module's __NAMESPACE__;
   c_global: global_type and not an inner class;
   c_ok: XmlMetaBuilder.build succeeds (false: unsupported annotation, two
   text fields, not a dataclass ...) *)
Record cdesc := mkC {
  c_id : cid; c_name : str; c_ns : ostr; c_tns : ostr; c_global : bool;
  c_parent : option cid; c_fields : list fdesc; c_ok : bool }.

Record var := mkV {
  v_idx : N; v_name : str; v_kind : fkind; v_qname : str; v_nss : list str;
  v_type : ftype; v_list : bool }.

Record meta := mkM {
  m_cls : cid; m_qname : str; m_ns : ostr; m_tq : ostr; m_vars : list var }.

(* XmlVarBuilder.resolve_namespaces for a single-token namespace *)
Definition resolve_namespaces (k : fkind) (ns : ostr) (pns : ostr) : list str :=
  let ns1 := match k, ns with
             | KElem, None => pns
             | KWild, None => pns
             | _, _ => ns
             end in
  match truthy ns1 with
  | None => []
  | Some t =>
      if str_eqb t ns_target then [match truthy pns with Some p => p | None => ns_any end]
      else if str_eqb t ns_local then [[]]
      else if str_eqb t ns_other then [33 :: match truthy pns with Some p => p | None => [] end]
      else [t]
  end.

(* models/elements.py default_namespace *)
Fixpoint default_namespace (nss : list str) : ostr :=
  match nss with
  | [] => None
  | [] :: r => default_namespace r
  | (35 :: _) :: r => default_namespace r
  | n :: _ => Some n
  end.

Definition class_namespace (cd : cdesc) (pns : ostr) : ostr :=
  match c_ns cd with Some u => Some u | None => pns end.

Definition target_qname (cd : cdesc) : ostr :=
  if c_global cd then
    Some (build_qname (match c_tns cd with Some t => Some t | None => c_ns cd end) (c_name cd))
  else None.

Fixpoint build_vars (ns : ostr) (i : N) (fs : list fdesc) : list var :=
  match fs with
  | [] => []
  | f :: r =>
      let pns := match f_base_ns f with Some u => Some u | None => ns end in
      let nss := resolve_namespaces (f_kind f) (f_ns f) pns in
      mkV i (f_name f) (f_kind f) (build_qname (default_namespace nss) (f_name f)) nss
          (f_type f) (f_list f) :: build_vars ns (i + 1) r
  end.

(* XmlMetaBuilder.build: everything a client can read from the XmlMeta *)
Definition build_meta (cd : cdesc) (pns : ostr) : meta :=
  let ns := class_namespace cd pns in
  let q := build_qname ns (c_name cd) in
  mkM (c_id cd) q (target_uri q) (target_qname cd) (build_vars ns 1 (c_fields cd)).

(* XmlVar._match_namespace *)
Definition match_namespace_pure (nss : list str) (q : str) : bool :=
  let uri := target_uri q in
  match nss, uri with
  | [], None => true
  | _, _ =>
      existsb (fun check =>
        (match check, uri with [], None => true | _, _ => false end)
        || ostr_eqb (Some check) uri || str_eqb check ns_any
        || match check with
           | 33 :: rest => negb (ostr_eqb (Some rest) uri)
           | _ => false
           end) nss
  end.

(* XmlVar.match_namespace with its per-var memo `namespace_matches` made explicit *)
Definition memo := list (str * bool).
Fixpoint memo_get (m : memo) (q : str) : option bool :=
  match m with
  | [] => None
  | (k, b) :: r => if str_eqb k q then Some b else memo_get r q
  end.
Definition match_namespace (nss : list str) (m : memo) (q : str) : memo * bool :=
  match memo_get m q with
  | Some b => (m, b)
  | None => let b := match_namespace_pure nss q in (m ++ [(q, b)], b)
  end.

(* ------------------------------------------------------------ equality *)
Definition ftype_eqb (a b : ftype) : bool :=
  match a, b with
  | TStr, TStr => true
  | TAny, TAny => true
  | TCls x, TCls y => N.eqb x y
  | _, _ => false
  end.
Definition fkind_eqb (a b : fkind) : bool :=
  match a, b with
  | KAttr, KAttr => true | KElem, KElem => true | KWild, KWild => true
  | _, _ => false
  end.
Definition var_eqb (a b : var) : bool :=
  N.eqb (v_idx a) (v_idx b) && str_eqb (v_name a) (v_name b) && fkind_eqb (v_kind a) (v_kind b)
  && str_eqb (v_qname a) (v_qname b) && list_eqb str_eqb (v_nss a) (v_nss b)
  && ftype_eqb (v_type a) (v_type b) && Bool.eqb (v_list a) (v_list b).
Definition meta_eqb (a b : meta) : bool :=
  N.eqb (m_cls a) (m_cls b) && str_eqb (m_qname a) (m_qname b) && ostr_eqb (m_ns a) (m_ns b)
  && ostr_eqb (m_tq a) (m_tq b) && list_eqb var_eqb (m_vars a) (m_vars b).
Definition ometa_eqb := opt_eqb meta_eqb.
Definition lcid_eqb := list_eqb N.eqb.

(* ---------------------------------------------------------------- world *)
(* What exists in the interpreter, independent of any context instance: the
   classes (creation order) and len(sys.modules). *)
Record world := mkW { w_classes : list cdesc; w_modules : N }.

Fixpoint find_class_in (l : list cdesc) (c : cid) : option cdesc :=
  match l with
  | [] => None
  | cd :: r => if N.eqb (c_id cd) c then Some cd else find_class_in r c
  end.
Definition find_class (w : world) (c : cid) : option cdesc := find_class_in (w_classes w) c.

Definition ocid_eqb := opt_eqb N.eqb.

(* XmlContext.get_subclasses(object): depth first, children before the class *)
Fixpoint subclass_order (fuel : nat) (cls : list cdesc) (p : option cid) : list cdesc :=
  match fuel with
  | O => []
  | S f => flat_map (fun cd => if ocid_eqb (c_parent cd) p
                               then subclass_order f cls (Some (c_id cd)) ++ [cd] else []) cls
  end.
Definition all_subclasses (w : world) (p : option cid) : list cdesc :=
  subclass_order (S (List.length (w_classes w))) (w_classes w) p.

(* cls.__mro__ without object *)
Fixpoint mro_fuel (fuel : nat) (w : world) (c : cid) : list cid :=
  match fuel with
  | O => [c]
  | S f => c :: match find_class w c with
                | Some cd => match c_parent cd with Some p => mro_fuel f w p | None => [] end
                | None => []
                end
  end.
Definition mro (w : world) (c : cid) : list cid := mro_fuel (List.length (w_classes w)) w c.
Definition memN (c : cid) (l : list cid) : bool := existsb (N.eqb c) l.
Definition issubclass (w : world) (a b : cid) : bool := memN b (mro w a).

(* XmlContext.is_derived(obj, clazz), obj an instance of class oc *)
Definition is_derived (w : world) (oc clazz : cid) : bool :=
  issubclass w oc clazz
  || match find_class w clazz with
     | Some cd => match c_parent cd with Some p => issubclass w oc p | None => false end
     | None => false
     end.

(* insertion-ordered dict of lists: self.xsi_cache[q].append(c) *)
Fixpoint index_add (ix : list (str * list cid)) (q : str) (c : cid) : list (str * list cid) :=
  match ix with
  | [] => [(q, [c])]
  | (k, l) :: r => if str_eqb k q then (k, l ++ [c]) :: r else (k, l) :: index_add r q c
  end.
Fixpoint index_get (ix : list (str * list cid)) (q : str) : option (list cid) :=
  match ix with
  | [] => None
  | (k, l) :: r => if str_eqb k q then Some l else index_get r q
  end.
Fixpoint index_set (ix : list (str * list cid)) (q : str) (l' : list cid) : list (str * list cid) :=
  match ix with
  | [] => []
  | (k, l) :: r => if str_eqb k q then (k, l') :: r else (k, l) :: index_set r q l'
  end.

(* what build_xsi_cache computes *)
Definition ideal_index (w : world) : list (str * list cid) :=
  fold_left (fun ix cd => match truthy (target_qname cd) with
                          | Some q => index_add ix q (c_id cd)
                          | None => ix
                          end) (all_subclasses w None) [].
Definition ideal_lookup (w : world) (q : str) : list cid :=
  if is_datatype_qname q then []
  else match index_get (ideal_index w) q with Some l => l | None => [] end.

(* ------------------------------------------------------------ the context *)
(* rec: the `ns_map` recorder of the (shared) parser instance;
   built_n: ghost — number of classes in the world when the index was built *)
Record ctx := mkCtx {
  cache : list (cid * meta);
  xsi : list (str * list cid);
  seen : N;
  rec : list (ostr * str);
  built_n : nat;
  unsup : list cid }.            (* XmlContext.unsupported *)

Definition ctx0 : ctx := mkCtx [] [] 0 [] 0 [].

Fixpoint cache_get (l : list (cid * meta)) (c : cid) : option meta :=
  match l with
  | [] => None
  | (k, m) :: r => if N.eqb k c then Some m else cache_get r c
  end.

(* trace events: everything the guards and the attribution of a difference need *)
Inductive tev :=
| TBuild (c : cid) (pns : ostr) (ideal got : option meta)
| TLookup (q : str) (ideal got : list cid) (stale : bool)
| TScan (ideal got : list cid) (stale : bool)
| TRecFail (c : cid).
Definition trace := list tev.

Definition ideal_build (w : world) (c : cid) (pns : ostr) : option meta :=
  match find_class w c with
  | Some cd => if c_ok cd then Some (build_meta cd pns) else None
  | None => None
  end.

(* XmlContext.build; None = XmlContextError (nothing is stored) *)
Definition ctx_build (w : world) (x : ctx) (c : cid) (pns : ostr) : ctx * option meta * trace :=
  match cache_get (cache x) c with
  | Some m => (x, Some m, [TBuild c pns (ideal_build w c pns) (Some m)])
  | None =>
      match ideal_build w c pns with
      | Some m => (mkCtx (cache x ++ [(c, m)]) (xsi x) (seen x) (rec x) (built_n x) (unsup x), Some m,
                   [TBuild c pns (Some m) (Some m)])
      | None => (x, None, [TBuild c pns None None])
      end
  end.

(* XmlContext.build_xsi_cache *)
Definition ctx_build_xsi (w : world) (x : ctx) : ctx :=
  if N.eqb (w_modules w) (seen x) then x
  else mkCtx (cache x) (ideal_index w) (w_modules w) (rec x) (List.length (w_classes w)) (unsup x).

(* XmlContext.find_types *)
Definition ctx_find_types (w : world) (x : ctx) (q : str) : ctx * list cid * trace :=
  if is_datatype_qname q then (x, [], [])
  else
    let x1 := ctx_build_xsi w x in
    let got := match index_get (xsi x1) q with Some l => l | None => [] end in
    (x1, got, [TLookup q (ideal_lookup w q) got
                 (negb (Nat.eqb (built_n x1) (List.length (w_classes w))))]).

Definition ctx_find_type (w : world) (x : ctx) (q : str) : ctx * option cid * trace :=
  let '(x1, l, t) := ctx_find_types w x q in (x1, last (map Some l) None, t).

(* XmlContext.find_subclass *)
Definition subclass_candidate (w : world) (c tp : cid) : bool :=
  negb (issubclass w c tp) && existsb (fun a => memN a (mro w c)) (mro w tp).
Definition ctx_find_subclass (w : world) (x : ctx) (c : cid) (q : str) : ctx * option cid * trace :=
  let '(x1, l, t) := ctx_find_types w x q in
  (x1, find (subclass_candidate w c) l, t).

(* XmlContext.fetch *)
Definition ctx_fetch (w : world) (x : ctx) (c : cid) (pns xsi_type : ostr) : ctx * option meta * trace :=
  let '(x1, om, t1) := ctx_build w x c pns in
  match om with
  | None => (x1, None, t1)
  | Some m =>
      match truthy xsi_type with
      | Some q =>
          if ostr_eqb (m_tq m) (Some q) then (x1, Some m, t1)
          else
            let '(x2, sub, t2) := ctx_find_subclass w x1 c q in
            match sub with
            | Some s => let '(x3, om', t3) := ctx_build w x2 s pns in (x3, om', t1 ++ t2 ++ t3)
            | None => (x2, Some m, t1 ++ t2)
            end
      | None => (x1, Some m, t1)
      end
  end.

Fixpoint remove_first (c : cid) (l : list cid) : list cid :=
  match l with
  | [] => []
  | x :: r => if N.eqb x c then r else x :: remove_first c r
  end.
Definition subset_str (a b : list str) : bool := forallb (fun s => existsb (str_eqb s) b) a.
Definition local_names (m : meta) : list str := map v_name (m_vars m).

(* XmlContext.local_names_match.  A class whose metadata cannot be built is remembered
   in `unsupported` (a memo of a function of the class: nothing else reads it) *)
Definition ctx_local_names_match (w : world) (x : ctx) (names : list str) (c : cid)
  : ctx * bool * trace :=
  if memN c (unsup x) then (x, false, [])
  else
    let '(x1, om, t1) := ctx_build w x c None in
    match om with
    | Some m => (x1, subset_str names (local_names m), t1)
    | None =>
        match find_class w c with
        | Some _ => (mkCtx (cache x1) (xsi x1) (seen x1) (rec x1) (built_n x1) (unsup x1 ++ [c]), false, t1)
        | None => (x1, false, t1)
        end
    end.

(* the comprehension of find_type_by_fields over one list of the index *)
Fixpoint scan_types (w : world) (x : ctx) (names : list str) (l : list cid) : ctx * list cid * trace :=
  match l with
  | [] => (x, [], [])
  | c :: r =>
      let '(x1, ok, t1) := ctx_local_names_match w x names c in
      let '(x2, cs, t2) := scan_types w x1 names r in
      (x2, if ok then c :: cs else cs, t1 ++ t2)
  end.

(* lexicographic order on names (Python str comparison by code point) *)
Fixpoint str_ltb (a b : str) : bool :=
  match a, b with
  | _, [] => false
  | [], _ :: _ => true
  | x :: a', y :: b' => if N.ltb x y then true else if N.eqb x y then str_ltb a' b' else false
  end.
Definition key_ltb (a b : nat * str) : bool :=
  Nat.ltb (fst a) (fst b) || (Nat.eqb (fst a) (fst b) && str_ltb (snd a) (snd b)).
(* the first minimal element = choices.sort(key=...)[0] for a stable sort *)
Fixpoint min_by (l : list (cid * (nat * str))) (best : option (cid * (nat * str))) : option cid :=
  match l with
  | [] => option_map fst best
  | (c, k) :: r =>
      match best with
      | None => min_by r (Some (c, k))
      | Some (_, kb) => if key_ltb k kb then min_by r (Some (c, k)) else min_by r best
      end
  end.
Fixpoint nodup_str (l : list str) : list str :=
  match l with
  | [] => []
  | x :: r => if existsb (str_eqb x) r then nodup_str r else x :: nodup_str r
  end.
Definition field_diff (names : list str) (m : meta) : nat :=
  List.length (filter (fun n => negb (existsb (str_eqb n) names)) (nodup_str (local_names m))).

Definition class_name (w : world) (c : cid) : str :=
  match find_class w c with Some cd => c_name cd | None => [] end.

Definition ideal_names_match (w : world) (names : list str) (c : cid) : bool :=
  match ideal_build w c None with
  | Some m => subset_str names (local_names m)
  | None => false
  end.
Definition ideal_candidates (w : world) (names : list str) : list cid :=
  filter (ideal_names_match w names) (flat_map snd (ideal_index w)).

(* XmlContext.find_type_by_fields *)
Definition ctx_find_by_fields (w : world) (x : ctx) (names : list str) : ctx * option cid * trace :=
  let x0 := ctx_build_xsi w x in
  let '(x1, cs, t) := scan_types w x0 names (flat_map snd (xsi x0)) in
  let t := t ++ [TScan (ideal_candidates w names) cs
                      (negb (Nat.eqb (built_n x0) (List.length (w_classes w))))] in
  let scored := map (fun c => (c, (match cache_get (cache x1) c with
                                   | Some m => field_diff names m
                                   | None => O
                                   end, class_name w c))) cs in
  (x1, min_by scored None, t).

(* XmlContext.build_recursive; false = XmlContextError escaped.  `nested` is true
   below the class the caller asked for: a failure there is the one a cached
   ancestor hides (the recursion stops at a cached class) *)
Fixpoint ctx_build_rec (fuel : nat) (nested : bool) (w : world) (x : ctx) (c : cid) (pns : ostr)
  : ctx * bool * trace :=
  match fuel with
  | O => (x, true, [])
  | S f =>
      match cache_get (cache x) c with
      | Some _ => (x, true, [])
      | None =>
          let '(x1, om, t1) := ctx_build w x c pns in
          match om with
          | None => (x1, false, if nested then t1 ++ [TRecFail c] else t1)
          | Some m =>
              fold_left (fun (acc : ctx * bool * trace) (v : var) =>
                           let '(xa, ok, ta) := acc in
                           if ok then
                             match v_type v with
                             | TCls t => let '(xb, ok', tb) := ctx_build_rec f true w xa t (m_ns m) in (xb, ok', ta ++ tb)
                             | _ => acc
                             end
                           else acc) (m_vars m) (x1, true, t1)
          end
      end
  end.

(* XmlContext.reset *)
Definition ctx_reset (x : ctx) : ctx := mkCtx [] [] 0 (rec x) 0 [].

(* PushParser.register_namespace on the parser's own recorder *)
Definition ctx_register (x : ctx) (prefix : ostr) (uri : str) : ctx :=
  if existsb (fun e => ostr_eqb (fst e) prefix) (rec x) then x
  else mkCtx (cache x) (xsi x) (seen x) (rec x ++ [(prefix, uri)]) (built_n x) (unsup x).

(* ------------------------------------------------------- calls and scripts *)
Inductive call :=
| CBuild (c : cid) (pns : ostr)
| CFetch (c : cid) (pns xsi_type : ostr)
| CFindType (q : str)
| CFindTypes (q : str)
| CFindSubclass (c : cid) (q : str)
| CFindByFields (names : list str)
| CLocalNamesMatch (names : list str) (c : cid)
| CBuildRecursive (c : cid) (pns : ostr)
| CBuildXsi
| CReset
| CRegister (prefix : ostr) (uri : str).

(* AErr: the exception that escaped the method (its class name) *)
Inductive ans :=
| AMeta (m : meta)
| ACls (c : option cid)
| AClss (l : list cid)
| ABool (b : bool)
| AUnit
| AErr (kind : str).

Definition e_context : str := lit "XmlContextError".
Definition e_value : str := lit "ValueError".

Definition ans_of_ometa (o : option meta) : ans :=
  match o with Some m => AMeta m | None => AErr e_context end.

Definition exec_call (w : world) (x : ctx) (c : call) : ctx * ans * trace :=
  match c with
  | CBuild c pns => let '(x1, om, t) := ctx_build w x c pns in (x1, ans_of_ometa om, t)
  | CFetch c pns xt => let '(x1, om, t) := ctx_fetch w x c pns xt in (x1, ans_of_ometa om, t)
  | CFindType q => let '(x1, oc, t) := ctx_find_type w x q in (x1, ACls oc, t)
  | CFindTypes q => let '(x1, l, t) := ctx_find_types w x q in (x1, AClss l, t)
  | CFindSubclass c q => let '(x1, oc, t) := ctx_find_subclass w x c q in (x1, ACls oc, t)
  | CFindByFields names => let '(x1, oc, t) := ctx_find_by_fields w x names in (x1, ACls oc, t)
  | CLocalNamesMatch names c => let '(x1, b, t) := ctx_local_names_match w x names c in (x1, ABool b, t)
  | CBuildRecursive c pns =>
      let '(x1, ok, t) := ctx_build_rec (S (List.length (w_classes w))) false w x c pns in
      (x1, if ok then AUnit else AErr e_context, t)
  | CBuildXsi => (ctx_build_xsi w x, AUnit, [])
  | CReset => (ctx_reset x, AUnit, [])
  | CRegister p u => (ctx_register x p u, AUnit, [])
  end.

(* results of client operations, canonical form: a labelled tree or an exception
   (class name, and the message where it is derived from the metadata) *)
Inductive tree := Node (label : str) (kids : list tree).
Inductive res := ROk (t : tree) | RErr (kind : str) (msg : str).

(* a client of the context: any code whose only access to the context instance
   is through its methods *)
Inductive script :=
| Ret (r : res)
| Call (c : call) (k : ans -> script).

Fixpoint run_script (w : world) (x : ctx) (s : script) : ctx * res * trace :=
  match s with
  | Ret r => (x, r, [])
  | Call c k =>
      let '(x1, a, t1) := exec_call w x c in
      let '(x2, r, t2) := run_script w x1 (k a) in
      (x2, r, t1 ++ t2)
  end.

(* ------------------------------------------------------------ histories *)
(* what can happen between two calls, outside the instances *)
Inductive envop :=
| EDefine (cd : cdesc) (bump : bool)   (* a class appears; bump: together with a new module *)
| EImport.                             (* a module without binding classes is imported *)

Definition env_step (w : world) (e : envop) : world :=
  match e with
  | EDefine cd b => mkW (w_classes w ++ [cd]) (if b then w_modules w + 1 else w_modules w)
  | EImport => mkW (w_classes w) (w_modules w + 1)
  end.

Inductive hop := HEnv (e : envop) | HRun (s : script).

Definition hist_step (st : world * ctx * trace) (h : hop) : world * ctx * trace :=
  let '(w, x, t) := st in
  match h with
  | HEnv e => (env_step w e, x, t)
  | HRun s => let '(x1, _, t1) := run_script w x s in (w, x1, t ++ t1)
  end.
Definition run_hist (w : world) (x : ctx) (h : list hop) : world * ctx * trace :=
  fold_left hist_step h (w, x, []).

Definition result (w : world) (x : ctx) (s : script) : res := snd (fst (run_script w x s)).

(* stateless reference semantics: every method answers from the world alone *)
Definition ideal_fetch (w : world) (c : cid) (pns xt : ostr) : option meta :=
  match ideal_build w c pns with
  | None => None
  | Some m =>
      match truthy xt with
      | Some q =>
          if ostr_eqb (m_tq m) (Some q) then Some m
          else match find (subclass_candidate w c) (ideal_lookup w q) with
               | Some s => ideal_build w s pns
               | None => Some m
               end
      | None => Some m
      end
  end.

Definition ideal_by_fields (w : world) (names : list str) : option cid :=
  let cs := ideal_candidates w names in
  min_by (map (fun c => (c, (match ideal_build w c None with
                             | Some m => field_diff names m
                             | None => O
                             end, class_name w c))) cs) None.

Definition ideal_call (w : world) (c : call) : ans :=
  match c with
  | CBuild c pns => ans_of_ometa (ideal_build w c pns)
  | CFetch c pns xt => ans_of_ometa (ideal_fetch w c pns xt)
  | CFindType q => ACls (last (map Some (ideal_lookup w q)) None)
  | CFindTypes q => AClss (ideal_lookup w q)
  | CFindSubclass c q => ACls (find (subclass_candidate w c) (ideal_lookup w q))
  | CFindByFields names => ACls (ideal_by_fields w names)
  | CLocalNamesMatch names c => ABool (ideal_names_match w names c)
  | CBuildRecursive c pns => match ideal_build w c pns with Some _ => AUnit | None => AErr e_context end
  | CBuildXsi => AUnit
  | CReset => AUnit
  | CRegister _ _ => AUnit
  end.

Fixpoint ideal_run (w : world) (s : script) : res :=
  match s with
  | Ret r => r
  | Call c k => ideal_run w (k (ideal_call w c))
  end.

(* ====================================================================== *)
(* Clients.  The serializers, parsers, encoders and decoders of xsdata as
   scripts: what they ask the context and what they return as a function of
   the metadata they obtain.  Covers: attributes and elements of type str,
   elements of a model type (optional or list, with xsi:type substitution),
   wildcards holding models / generic elements / derived elements.  Anything
   outside this fragment yields the result `unsupported`, which the harness
   treats as a generator error, never as agreement. *)

Inductive vtag :=
| GStr (s : str)
| GObj (c : cid)                 (* kids: one GField per field of the class, in order *)
| GField                         (* kids: the values of the field; [] = None / empty list *)
| GAny (q : str) (text : ostr)   (* AnyElement *)
| GDer (q : str) (ty : ostr).    (* DerivedElement, kids = [value] *)
Inductive value := V (t : vtag) (kids : list value).

Definition e_parser : str := lit "ParserError".
Definition e_serializer : str := lit "SerializerError".
Definition e_unsupported : str := lit "UNSUPPORTED".
Definition e_ambiguous : str := lit "AMBIGUOUS".
Definition fail (kind : str) (msg : str) : script := Ret (RErr kind msg).
Definition unsupported : script := fail e_unsupported [].
Definition fail_ans (a : ans) : script :=
  match a with AErr e => fail e [] | _ => unsupported end.

Definition xsi_type_q : str := build_qname (Some xsi_uri) (lit "type").
Definition attr_node (q v : str) : tree := Node (64 :: q ++ 61 :: v) [].
Definition text_node (s : str) : tree := Node (35 :: s) [].
Definition ostr_or (o : ostr) (d : str) : str := match o with Some s => s | None => d end.

(* EventGenerator.real_xsi_type *)
Definition real_xsi_type (q : str) (tq : ostr) : ostr :=
  if ostr_eqb tq (Some q) then None else tq.

Definition attr_nodes (vr : var) (items : list value) : list tree :=
  match items with
  | V (GStr s) _ :: _ => [attr_node (v_qname vr) s]
  | _ => []
  end.
Definition var_class (vr : var) : option cid :=
  match v_type vr with TCls t => Some t | _ => None end.

(* XmlSerializer.render(obj): EventGenerator.convert_dataclass and below.
   ns = the namespace handed down by the parent element *)
Fixpoint ser_obj (w : world) (v : value) (ns qover xsi : ostr) (k : list tree -> script) {struct v} : script :=
  match v with
  | V (GObj c) fields =>
      Call (CBuild c ns) (fun a =>
        match a with
        | AMeta m =>
            let q := match truthy qover with Some q => q | None => m_qname m end in
            (* nested models inherit the namespace of this class's (cached) metadata, not the
               one of the element's qname (/repo ad469e5) *)
            let ns' := m_ns m in
            (fix fields_loop (vars : list var) (fs : list value) (attrs kids : list tree) {struct fs} : script :=
               match fs, vars with
               | V _ items :: fr, vr :: vrest =>
                   match v_kind vr with
                   | KAttr => fields_loop vrest fr (attrs ++ attr_nodes vr items) kids
                   | _ =>
                       (fix items_loop (its : list value) (acc : list tree) {struct its} : script :=
                          match its with
                          | [] => fields_loop vrest fr attrs (kids ++ acc)
                          | it :: ir =>
                              let k' := fun ts => items_loop ir (acc ++ ts) in
                              match it with
                              | V (GStr s) _ =>
                                  match v_kind vr with
                                  | KElem => k' [Node (v_qname vr) [text_node s]]
                                  | _ => k' [text_node s]
                                  end
                              | V (GObj c') _ =>
                                  match v_kind vr with
                                  | KWild => ser_obj w it ns' None None k'
                                  | _ =>
                                      if ocid_eqb (var_class vr) (Some c') then
                                        ser_obj w it ns' (Some (v_qname vr)) None k'
                                      else if match var_class vr with
                                              | Some t => is_derived w c' t
                                              | None => true
                                              end then
                                        Call (CFetch c' ns' None) (fun a' =>
                                          match a' with
                                          | AMeta m' => ser_obj w it ns' (Some (v_qname vr))
                                                          (real_xsi_type (v_qname vr) (m_tq m')) k'
                                          | _ => fail_ans a'
                                          end)
                                      else fail e_serializer []
                                  end
                              | V (GAny aq atext) _ =>
                                  k' [Node aq (match truthy atext with Some t => [text_node t] | None => [] end)]
                              | V (GDer dq _) (inner :: _) =>
                                  match inner with
                                  | V (GObj ci) _ =>
                                      Call (CFetch ci None None) (fun a' =>
                                        match a' with
                                        | AMeta m' => ser_obj w inner ns' (Some dq) (real_xsi_type dq (m_tq m')) k'
                                        | _ => fail_ans a'
                                        end)
                                  | _ => unsupported
                                  end
                              | _ => unsupported
                              end
                          end) items []
                   end
               | _, _ =>
                   k [Node q (attrs ++ match truthy xsi with
                                       | Some t => [attr_node xsi_type_q t]
                                       | None => []
                                       end ++ kids)]
               end) (m_vars m) fields [] []
        | _ => fail_ans a
        end)
  | _ => unsupported
  end.

Definition serialize (w : world) (v : value) : script :=
  ser_obj w v None None None (fun ts => match ts with t :: _ => Ret (ROk t) | [] => unsupported end).

(* ---- XmlParser: NodeParser.start / end over the handler's events ---- *)
Inductive pevent :=
| PNs (p : ostr) (u : str)
| PStart (q : str) (attrs : list (str * str)) (xsi : ostr)
| PEnd (q : str) (text : ostr)
| PBad.                               (* the tokenizer reports a syntax error here *)

Inductive node :=
| NElem (m : meta) (attrs : list (str * str)) (xsi : ostr) (derived : bool) (pos : nat) (assigned : list N)
| NPrim (v : var)
| NWild (v : var) (pos : nat).

Definition is_kind (k : fkind) (v : var) : bool := fkind_eqb (v_kind v) k.

(* XmlMeta.find_children: elements by qname, then the first matching wildcard *)
Definition find_children (m : meta) (q : str) : list var :=
  filter (fun v => is_kind KElem v && str_eqb (v_qname v) q) (m_vars m)
  ++ match find (fun v => is_kind KWild v && match_namespace_pure (v_nss v) q) (m_vars m) with
     | Some v => [v]
     | None => []
     end.

(* ElementNode.child: the first candidate that is not an already used single element *)
Definition pick_child (m : meta) (assigned : list N) (q : str) : option var :=
  find (fun v => negb (is_kind KElem v && negb (v_list v) && memN (v_idx v) assigned)) (find_children m q).

Definition objs := list (str * value).

Fixpoint set_field (vars : list var) (fields : list (list value)) (vr : var) (f : list value -> list value)
  : list (list value) :=
  match vars, fields with
  | v :: vrest, fl :: frest =>
      if N.eqb (v_idx v) (v_idx vr) then f fl :: frest else fl :: set_field vrest frest vr f
  | _, _ => fields
  end.
Fixpoint get_field (vars : list var) (fields : list (list value)) (vr : var) : list value :=
  match vars, fields with
  | v :: vrest, fl :: frest => if N.eqb (v_idx v) (v_idx vr) then fl else get_field vrest frest vr
  | _, _ => []
  end.

(* ElementNode.bind_object for one parsed child *)
Fixpoint bind_into (m : meta) (cands : list var) (fields : list (list value)) (ov : value)
  : list (list value) :=
  match cands with
  | [] => fields                                  (* "Unassigned parsed object": dropped *)
  | vr :: r =>
      if is_kind KWild vr || v_list vr then set_field (m_vars m) fields vr (fun fl => fl ++ [ov])
      else match get_field (m_vars m) fields vr with
           | [] => set_field (m_vars m) fields vr (fun _ => [ov])
           | _ => bind_into m r fields ov
           end
  end.

Definition bind_attrs (m : meta) (attrs : list (str * str)) (fields : list (list value)) : list (list value) :=
  fold_left (fun fs (a : str * str) =>
               match find (fun v => is_kind KAttr v && str_eqb (v_qname v) (fst a)) (m_vars m) with
               | Some vr => match get_field (m_vars m) fs vr with
                            | [] => set_field (m_vars m) fs vr (fun _ => [V (GStr (snd a)) []])
                            | _ => fs
                            end
               | None => fs
               end) attrs fields.

(* a single-valued wildcard holding two values would be re-wrapped in a generic
   element by bind_wild_var; not in the fragment *)
Definition wild_overflow (m : meta) (fields : list (list value)) : bool :=
  existsb (fun vr => is_kind KWild vr && negb (v_list vr)
                     && Nat.ltb 1 (List.length (get_field (m_vars m) fields vr))) (m_vars m).

Definition bind_elem (m : meta) (attrs : list (str * str)) (children : objs) : option value :=
  let f0 := bind_attrs m attrs (map (fun _ => []) (m_vars m)) in
  let f1 := fold_left (fun fs (o : str * value) => bind_into m (find_children m (fst o)) fs (snd o)) children f0 in
  if wild_overflow m f1 then None
  else Some (V (GObj (m_cls m)) (map (V GField) f1)).

Definition vlabel (t : vtag) : str :=
  match t with
  | GStr s => lit "s:" ++ s
  | GObj c => lit "o:" ++ to_dec c
  | GField => lit "f"
  | GAny q text => lit "a:" ++ q ++ 124 :: ostr_or text []
  | GDer q ty => lit "d:" ++ q ++ 124 :: ostr_or ty []
  end.
Fixpoint tree_of_value (v : value) : tree :=
  match v with V t kids => Node (vlabel t) (map tree_of_value kids) end.

Definition no_root (q : str) : script := fail e_parser (lit "No class found matching root: " ++ q).

Fixpoint parse_loop (w : world) (evs : list pevent) (clazz : option cid) (stack : list node) (os : objs)
  {struct evs} : script :=
  match evs with
  | [] =>
      match stack, rev os with
      | [], (_, v) :: _ => Ret (ROk (tree_of_value v))
      | _, _ => fail e_parser []
      end
  | PBad :: _ => fail e_parser []
  | PNs p u :: r => Call (CRegister p u) (fun _ => parse_loop w r clazz stack os)
  | PStart q attrs xt :: r =>
      match stack with
      | [] =>
          let go := fun (c : cid) =>
            Call (CFetch c None xt) (fun a =>
              match a with
              | AMeta m =>
                  let derived := match truthy xt with
                                 | Some _ => negb (str_eqb (m_qname m) q)
                                 | None => false
                                 end in
                  parse_loop w r clazz [NElem m attrs (if derived then xt else None) derived O []] os
              | _ => fail_ans a
              end) in
          match clazz with
          | Some c => go c
          | None =>
              Call (CFindType q) (fun a =>
                match a with
                | ACls (Some c) => go c
                | ACls None =>
                    match truthy xt with
                    | Some t => Call (CFindType t) (fun a' =>
                                  match a' with
                                  | ACls (Some c) => go c
                                  | ACls None => no_root q
                                  | _ => fail_ans a'
                                  end)
                    | None => no_root q
                    end
                | _ => fail_ans a
                end)
          end
      | NElem m at0 xs d pos asg :: rest =>
          match pick_child m asg q with
          | None => fail e_parser (lit "Unknown property " ++ m_qname m ++ 58 :: q)
          | Some vr =>
              let asg' := if is_kind KElem vr && negb (v_list vr) then v_idx vr :: asg else asg in
              let stack' := NElem m at0 xs d pos asg' :: rest in
              let elem := fun (c : cid) (derived0 factory : bool) =>
                Call (CFetch c (m_ns m) xt) (fun a =>
                  match a with
                  | AMeta m' =>
                      let derived := derived0 || (match truthy xt with Some _ => true | None => false end
                                                  && negb (issubclass w (m_cls m') c)) in
                      parse_loop w r clazz (NElem m' attrs xt (derived && factory) (List.length os) [] :: stack') os
                  | _ => fail_ans a
                  end) in
              match v_kind vr, v_type vr with
              | KElem, TCls t => elem t false true
              | KElem, _ => parse_loop w r clazz (NPrim vr :: stack') os
              | KWild, _ =>
                  if match truthy xt with Some t => is_datatype_qname t | None => false end then unsupported
                  else
                    let by_name :=
                      Call (CFindType q) (fun a =>
                        match a with
                        | ACls (Some c) => elem c false false
                        | ACls None => parse_loop w r clazz (NWild vr (List.length os) :: stack') os
                        | _ => fail_ans a
                        end) in
                    match truthy xt with
                    | Some t => Call (CFindType t) (fun a =>
                                  match a with
                                  | ACls (Some c) => elem c true true
                                  | ACls None => by_name
                                  | _ => fail_ans a
                                  end)
                    | None => by_name
                    end
              | KAttr, _ => unsupported
              end
          end
      | NPrim _ :: _ => fail e_context []
      | NWild vr pos :: rest => parse_loop w r clazz (NWild vr (List.length os) :: stack) os
      end
  | PEnd q text :: r =>
      match stack with
      | [] => unsupported
      | NPrim _ :: rest => parse_loop w r clazz rest (os ++ [(q, V (GStr (ostr_or text [])) [])])
      | NWild vr pos :: rest =>
          let kids := map snd (skipn pos os) in
          parse_loop w r clazz rest
            (firstn pos os ++ [(v_qname vr, V (GAny q (Some (ostr_or text []))) kids)])
      | NElem m at0 xs d pos _ :: rest =>
          match bind_elem m at0 (skipn pos os) with
          | None => unsupported
          | Some obj =>
              let obj' := if d then V (GDer q xs) [obj] else obj in
              parse_loop w r clazz rest (firstn pos os ++ [(q, obj')])
          end
      end
  end.

Definition parse (w : world) (evs : list pevent) (clazz : option cid) : script :=
  parse_loop w evs clazz [] [].

(* ---- DictEncoder.encode / JsonSerializer.render ---- *)
Definition j_null : tree := Node (lit "null") [].
Definition j_str (s : str) : tree := Node (lit "s:" ++ s) [].
Definition j_arr (l : list tree) : tree := Node (lit "[]") l.
Definition j_obj (l : list tree) : tree := Node (lit "{}") l.
Definition j_key (k : str) (v : tree) : tree := Node (lit "k:" ++ k) [v].

Fixpoint enc_obj (v : value) (k : tree -> script) {struct v} : script :=
  match v with
  | V (GObj c) fields =>
      Call (CBuild c None) (fun a =>
        match a with
        | AMeta m =>
            (fix fields_loop (vars : list var) (fs : list value) (acc : list tree) {struct fs} : script :=
               match fs, vars with
               | V _ items :: fr, vr :: vrest =>
                   (fix items_loop (its : list value) (vals : list tree) {struct its} : script :=
                      match its with
                      | [] =>
                          let jv := if v_list vr then j_arr vals
                                    else match vals with x :: _ => x | [] => j_null end in
                          fields_loop vrest fr (acc ++ [j_key (v_name vr) jv])
                      | it :: ir =>
                          match it with
                          | V (GStr s) _ => items_loop ir (vals ++ [j_str s])
                          | V (GObj _) _ => enc_obj it (fun t => items_loop ir (vals ++ [t]))
                          | _ => unsupported
                          end
                      end) items []
               | _, _ => k (j_obj acc)
               end) (m_vars m) fields []
        | _ => fail_ans a
        end)
  | _ => unsupported
  end.
Definition encode (v : value) : script := enc_obj v (fun t => Ret (ROk t)).

(* ---- DictDecoder.decode / JsonParser.parse ---- *)
Inductive jtag := JS (s : str) | JA | JO | JK (key : str).
Inductive json := J (t : jtag) (kids : list json).

Definition j_keys (j : json) : list str :=
  match j with
  | J JO kvs => flat_map (fun kv => match kv with J (JK k) _ => [k] | _ => [] end) kvs
  | _ => []
  end.
Definition j_is_arr (j : json) : bool := match j with J JA _ => true | _ => false end.

(* DictDecoder.find_var *)
Definition find_var (m : meta) (key : str) (val : json) : option var :=
  find (fun vr => str_eqb (v_name vr) key && Bool.eqb (j_is_arr val) (v_list vr)) (m_vars m).

(* score_object in half points: str 2, any other non-None value 3 *)
Definition score_fields (m : meta) (fields : list (list value)) : nat :=
  fold_left (fun n (p : var * list value) =>
               n + if v_list (fst p) then 3
                   else match snd p with
                        | V (GStr _) _ :: _ => 2
                        | _ :: _ => 3
                        | [] => 0
                        end)%nat (combine (m_vars m) fields) O.

(* direct subclasses closure of a class, as get_subclasses(var.clazz) *)
Definition subclasses_of (w : world) (c : cid) : list cid := map c_id (all_subclasses w (Some c)).

(* kok: continue with the bound object and its score; kerr: the exception *)
Fixpoint dec_obj (w : world) (j : json) (c : cid)
  (kok : value -> nat -> script) (kerr : str -> str -> script) {struct j} : script :=
  match j with
  | J JO kvs =>
      Call (CBuild c None) (fun a =>
        match a with
        | AMeta m =>
            (fix kv_loop (kl : list json) (fields : list (list value)) {struct kl} : script :=
               match kl with
               | [] => kok (V (GObj c) (map (V GField) fields)) (score_fields m fields)
               | J (JK key) (val :: _) :: kr =>
                   match find_var m key val with
                   | None => kerr e_parser (lit "Unknown property " ++ class_name w c ++ 46 :: key)
                   | Some vr =>
                       let one := fun (it : json) (k1 : value -> script) =>
                         match it with
                         | J (JS s) _ =>
                             match v_type vr with
                             | TCls _ => unsupported
                             | _ => k1 (V (GStr s) [])
                             end
                         | J JO _ =>
                             match v_type vr with
                             | TCls t =>
                                 match subclasses_of w t with
                                 | [] => dec_obj w it t (fun v _ => k1 v) kerr
                                 | subs =>
                                     (* bind_best_dataclass over the subclasses and the class itself *)
                                     (fix best (cs : list cid) (cur : option (value * nat)) (tie : bool)
                                        {struct cs} : script :=
                                        match cs with
                                        | [] =>
                                            match cur with
                                            | Some (v, _) => if tie then fail e_ambiguous [] else k1 v
                                            | None => kerr e_parser (lit "Failed to bind object")
                                            end
                                        | cc :: cr =>
                                            Call (CLocalNamesMatch (j_keys it) cc) (fun a' =>
                                              match a' with
                                              | ABool true =>
                                                  dec_obj w it cc
                                                    (fun v sc =>
                                                       match cur with
                                                       | Some (_, sb) =>
                                                           if Nat.ltb sb sc then best cr (Some (v, sc)) false
                                                           else if Nat.eqb sb sc then best cr cur true
                                                           else best cr cur tie
                                                       | None => best cr (Some (v, sc)) false
                                                       end)
                                                    (fun _ _ => best cr cur tie)
                                              | ABool false => best cr cur tie
                                              | _ => fail_ans a'
                                              end)
                                        end) (subs ++ [t]) None false
                                 end
                             | _ => unsupported
                             end
                         | _ => unsupported
                         end in
                       if v_list vr then
                         match val with
                         | J JA items =>
                             (fix items_loop (its : list json) (acc : list value) {struct its} : script :=
                                match its with
                                | [] => kv_loop kr (set_field (m_vars m) fields vr (fun _ => acc))
                                | it :: ir => one it (fun v => items_loop ir (acc ++ [v]))
                                end) items []
                         | _ => unsupported
                         end
                       else one val (fun v => kv_loop kr (set_field (m_vars m) fields vr (fun _ => [v])))
                   end
               | _ => unsupported
               end) kvs (map (fun _ => []) (m_vars m))
        | AErr e => kerr e []
        | _ => unsupported
        end)
  | _ => unsupported
  end.

Definition decode (w : world) (j : json) (clazz : option cid) : script :=
  let go := fun c => dec_obj w j c (fun v _ => Ret (ROk (tree_of_value v))) fail in
  match clazz with
  | Some c => go c
  | None =>
      match j_keys j with
      | [] => fail e_parser []
      | keys => Call (CFindByFields keys) (fun a =>
                  match a with
                  | ACls (Some c) => go c
                  | ACls None => fail e_parser (lit "Unable to locate model")
                  | _ => fail_ans a
                  end)
      end
  end.

(* ---- the operations of the pool ---- *)
Inductive op :=
| OSerialize (v : value)                             (* XmlSerializer.render *)
| OParse (evs : list pevent) (clazz : option cid)    (* XmlParser.from_string *)
| OEncode (v : value)                                (* DictEncoder.encode, JsonSerializer.render *)
| ODecode (j : json) (clazz : option cid)            (* DictDecoder.decode, JsonParser.from_string *)
| OCall (c : call).                                  (* a context method called directly *)

Definition res_of_ans (a : ans) : res :=
  match a with
  | AMeta m => ROk (Node (lit "meta") [Node (m_qname m) (map (fun v => Node (v_qname v) (map (fun n => Node n []) (v_nss v))) (m_vars m));
                                        Node (ostr_or (m_tq m) []) []])
  | ACls (Some c) => ROk (Node (lit "c:" ++ to_dec c) [])
  | ACls None => ROk (Node (lit "none") [])
  | AClss l => ROk (Node (lit "cs") (map (fun c => Node (to_dec c) []) l))
  | ABool b => ROk (Node (if b then lit "true" else lit "false") [])
  | AUnit => ROk (Node (lit "none") [])
  | AErr e => RErr e []
  end.

Definition op_script (w : world) (o : op) : script :=
  match o with
  | OSerialize v => serialize w v
  | OParse evs c => parse w evs c
  | OEncode v => encode v
  | ODecode j c => decode w j c
  | OCall c => Call c (fun a => Ret (res_of_ans a))
  end.

(* ====================================================================== *)
(* Guards (computable).  One clause per refutation of the full statement. *)

(* (a) every class is requested under parent namespaces that give one and the
   same metadata: the requests actually made, with the metadata each *should*
   produce *)
Definition builds_of (t : trace) : list (cid * meta) :=
  flat_map (fun e => match e with TBuild c _ (Some i) _ => [(c, i)] | _ => [] end) t.
Definition consistent (b : list (cid * meta)) : bool :=
  forallb (fun p => forallb (fun q => negb (N.eqb (fst p) (fst q)) || meta_eqb (snd p) (snd q)) b) b.
Definition ns_closed (t : trace) : bool := consistent (builds_of t).

(* (b) classes only appear together with a module-count change *)
Definition modules_stable (h : list hop) : bool :=
  forallb (fun o => match o with HEnv (EDefine _ b) => b | _ => true end) h.

(* (d) build_recursive never ran into a class it cannot build *)
Definition quiet (t : trace) : bool :=
  forallb (fun e => match e with TRecFail _ => false | _ => true end) t.

Definition world_ok (w : world) : bool := N.ltb 0 (w_modules w).

(* the guard of the history-independence theorem for history h followed by s,
   starting from fresh instances in world w0 *)
Definition hist_guard (w0 : world) (h : list hop) (s : script) : bool :=
  let '(w, x, t) := run_hist w0 ctx0 h in
  let t_shared := t ++ snd (run_script w x s) in
  let t_fresh := snd (run_script w ctx0 s) in
  world_ok w0 && modules_stable h
  && ns_closed t_shared && quiet t_shared && ns_closed t_fresh && quiet t_fresh.

(* a static sufficient condition: every class declares its own namespace and
   can be built *)
Definition declares_ns (cd : cdesc) : bool :=
  match c_ns cd with Some _ => true | None => false end.
Definition world_closed (w : world) : bool :=
  forallb (fun cd => c_ok cd && declares_ns cd) (w_classes w).

(* attribution of a deviation of one call to the modelled defects *)
Definition dev_ns (t : trace) : bool :=
  existsb (fun e => match e with TBuild _ _ i g => negb (ometa_eqb i g) | _ => false end) t.
Definition dev_stale (t : trace) : bool :=
  existsb (fun e => match e with
                    | TLookup _ i g st => st && negb (lcid_eqb i g)
                    | TScan i g st => st && negb (lcid_eqb i g)
                    | _ => false end) t.
Definition dev_prune (t : trace) : bool :=
  existsb (fun e => match e with
                    | TLookup _ i g st => negb st && negb (lcid_eqb i g)
                    | TScan i g st => negb st && negb (lcid_eqb i g)
                    | _ => false end) t.
Definition has_recfail (t : trace) : bool :=
  existsb (fun e => match e with TRecFail _ => true | _ => false end) t.
