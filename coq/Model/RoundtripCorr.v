(* Model/RoundtripCorr.v — predicates evaluated by the generated case files of the C01 check
   (harness/c01.py): the guards of theorem C01_roundtrip_S3 computed on the metadata the REAL
   XmlContext exported, the oracle inside the guard, and the correspondence of every stage of
   the composition with what the implementation did on the same case:

     generate  <->  EventGenerator            (gen_agree, predicate of Model/EventGenCorr.v)
     reads     <->  writer + handler           (reads_real: the events the real handler delivered
                                                for the real writer's output READ as the tree the
                                                specification assigns to the emitted events)
     parse     <->  NodeParser                 (parse_agree, predicate of Model/ParserCorr.v)
     parse (pump (itree_of_events (generate ...)))  <->  what the real parser returned.  *)
From Coq Require Import NArith ZArith List Bool.
From XV Require Import Base.Str Base.Eqb Base.PyInt Spec.XmlNs Model.Bind Model.WriterBridge Spec.Fits.
From XV Require Model.EventGen Model.EventGenCorr Model.Parser Model.ParserCorr Model.Writer.
Import ListNotations.
Open Scope N_scope.

(* the default class factory finds a default for every field the document may omit
   (C15, first refutation: a missing required argument is an uncaught TypeError) *)
Definition nodefault_free (cfg : Parser.pconfig) : bool :=
  forallb (fun e => match snd e with [] => true | _ => false end) (Parser.cf_nodefault cfg).

(* ---------------------------------------------------------------- the recorded converter *)
(* the values the recorded converter round-trips: every recorded deserialization of the text of
   p under p's own type gave p back, and there is at least one (str values and empty texts, which
   the parser never hands to the converter, excepted) *)
Definition law_tbl (t : conv_table) (u : universe) (p : prim) : bool :=
  let c := conv_of_table t in
  match p with
  | PStr _ => true                 (* StringConverter is the identity; an empty element is never handed to it *)
  | PQName q =>                    (* every recorded lexical form that resolves to q under its prefix map gave q *)
      forallb (fun e => let '(tys, _, ns, s, r) := e in
                 negb (lptype_eqb tys [TQName]
                       && match resolve_qname ns s with
                          | Some q' => qname_eqb q' (split_qname q)
                          | None => false
                          end)
                 || match r with Some p' => prim_eqb p p' | None => false end) (t_deser t)
  | _ =>
      let hits := filter (fun e => let '(tys, fmt, _, s, _) := e in
                            lptype_eqb tys [prim_ptype p]
                            && match ptext c u fmt p with Some s' => str_eqb s s' | None => false end) (t_deser t) in
      match hits with
      | [] => match ptext c u None p with Some [] => true | _ => false end    (* empty text: no conversion happens *)
      | _ => forallb (fun e => let '(_, _, _, _, r) := e in
                        match r with Some p' => prim_eqb p p' | None => false end) hits
      end
  end.

(* the recorded converter with the prefix map ignored (the real converter reads it only for
   QName values, which are outside the guard) *)
Definition conv_any (t : conv_table) : conv :=
  let c := conv_of_table t in
  mk_conv
    (fun tys fmt _ s =>
       match find (fun e => let '(tys', fmt', _, s', _) := e in
                            lptype_eqb tys tys' && ostr_eqb fmt fmt' && str_eqb s s') (t_deser t) with
       | Some (_, _, _, _, r) => r
       | None => Some (PStr MISS)
       end)
    (c_ser c) (c_test c) (c_datatype c) (c_from_qname c).

(* ---------------------------------------------------------------- boolean `reads` *)
Inductive ptree := PT (q : qname) (attrs : list (qname * str)) (ns : nsmap) (text tail : option str) (kids : list ptree).

Fixpoint ptree_of (fuel : nat) (evs : list pevent) : option (ptree * list pevent) :=
  match fuel with
  | O => None
  | S f =>
      match evs with
      | PStart q attrs ns :: r =>
          match ptrees_of f r with
          | Some (ks, PEnd q' text tail :: r') =>
              if str_eqb q q' then Some (PT q attrs ns text tail ks, r') else None
          | _ => None
          end
      | _ => None
      end
  end
with ptrees_of (fuel : nat) (evs : list pevent) : option (list ptree * list pevent) :=
  match fuel with
  | O => None
  | S f =>
      match evs with
      | PStart _ _ _ :: _ =>
          match ptree_of f evs with
          | Some (k, r) => match ptrees_of f r with Some (ks, r') => Some (k :: ks, r') | None => None end
          | None => None
          end
      | _ => Some ([], evs)
      end
  end.

Definition drop_ns (evs : list pevent) : list pevent :=
  filter (fun e => match e with PStartNs _ _ => false | _ => true end) evs.

Definition attrs_read_b (ord : bool) (ns : nsmap) (eats : list (XmlNs.qname * list atom)) (attrs : list (qname * str)) : bool :=
  (negb ord || list_eqb str_eqb (map fst attrs) (map (fun ea => clark_of (fst ea)) eats))
  && nodup_by str_eqb (map fst attrs)
  && Nat.eqb (length attrs) (length eats)
  && forallb (fun ea =>
                match snd ea with
                | [AQName qa] =>
                    existsb (fun kv => str_eqb (fst kv) (clark_of (fst ea))
                                       && match resolve_qname ns (snd kv) with Some q' => qname_eqb q' qa | None => false end) attrs
                | atoms =>
                    match atoms_text atoms with
                    | Some v => existsb (fun kv => str_eqb (fst kv) (clark_of (fst ea)) && str_eqb (snd kv) v) attrs
                    | None => false
                    end
                end) eats.

Fixpoint reads_t (ord : bool) (e : XmlNs.enode) (t : ptree) {struct e} : bool :=
  match e, t with
  | EData _, _ => false
  | EElem q eats ekids, PT name attrs ns text tail kids =>
      str_eqb (clark_of q) name && attrs_read_b ord ns eats attrs && blank_o tail
      && match ekids with
         | [] => match text, kids with None, [] => true | _, _ => false end
         | [EData [AQName qa]] =>
             match text, kids with
             | Some ((_ :: _) as s'), [] =>
                 match resolve_qname ns s' with Some q' => qname_eqb q' qa | None => false end
             | _, _ => false
             end
         | [EData atoms] =>
             match atoms_text atoms, text, kids with
             | Some ((_ :: _) as s), Some s', [] => str_eqb s s'
             | _, _, _ => false
             end
         | _ =>
             blank_o text
             && (fix go (es : list XmlNs.enode) (ts : list ptree) : bool :=
                   match es, ts with
                   | [], [] => true
                   | e1 :: es', t1 :: ts' => reads_t ord e1 t1 && go es' ts'
                   | _, _ => false
                   end) ekids kids
         end
  end.

Definition reads_b (ord : bool) (e : XmlNs.enode) (pevs : list pevent) : bool :=
  match ptree_of (S (length pevs)) (drop_ns pevs) with
  | Some (t, []) => reads_t ord e t
  | _ => false
  end.

(* ---------------------------------------------------------------- one case *)
Record rt_case := mk_rt_case {
  rc_ign : bool;                               (* SerializerConfig.ignore_default_attributes *)
  rc_cfg : Parser.pconfig;                     (* fail_on_* of the run + the class factory's signature *)
  rc_table : conv_table;                       (* conversions the real converter performed *)
  rc_universe : universe;                      (* metadata exported from the real XmlContext *)
  rc_cls : cls;
  rc_value : value;
  rc_gen : EventGen.gres (list wevent);        (* what the real EventGenerator yielded *)
  rc_pevents : list pevent;                    (* what the real handler fed the parser *)
  rc_parse : Parser.outcome;                   (* what the real parser returned *)
  rc_equal : bool;                             (* parsed object == original (implementation's ==) *)
  rc_user : list (option str * str);           (* user prefix map handed to render() *)
  rc_xml_declaration : bool;
  rc_lxml_writer : bool                        (* LxmlEventWriter (else XmlEventWriter) *)
}.

Definition rc_conv (k : rt_case) : conv := conv_of_table (rc_table k).

Definition in_guard (k : rt_case) : bool :=
  nodefault_free (rc_cfg k)
  && wf_model (rc_universe k) (rc_cls k)
  && fits (rc_conv k) (rc_universe k) (law_tbl (rc_table k) (rc_universe k)) py_isspace
          (S (EventGen.vdepth (rc_value k))) (rc_cls k) (rc_value k).

(* coverage: the metadata has a sequence group *)
Definition uses_sequence (u : universe) : bool :=
  existsb (fun km => existsb (fun e => existsb (fun v => match v_sequence v with Some _ => true | None => false end) (snd e))
                             (m_elements (snd km))) (u_metas u).

(* coverage: a nillable element field that carries a sequence number *)
Definition uses_nillable_in_sequence (u : universe) : bool :=
  existsb (fun km => existsb (fun e => existsb (fun v => v_nillable v && match v_sequence v with Some _ => true | None => false end) (snd e))
                             (m_elements (snd km))) (u_metas u).

(* coverage: an xs:anyType element field or a wildcard field that carries a sequence number *)
Definition uses_generic_in_sequence (u : universe) : bool :=
  existsb (fun km => existsb (fun e => existsb (fun v => is_object v && match v_sequence v with Some _ => true | None => false end) (snd e))
                             (m_elements (snd km))
                     || existsb (fun v => match v_sequence v with Some _ => true | None => false end) (m_wildcards (snd km))) (u_metas u).

(* coverage: a nillable element field *)
Definition uses_nillable (u : universe) : bool :=
  existsb (fun km => existsb (fun e => existsb v_nillable (snd e)) (m_elements (snd km))) (u_metas u).
(* coverage: a nillable class, or a nillable element field of class type *)
Definition uses_nillable_class (u : universe) : bool :=
  existsb (fun km => m_nillable (snd km)
                     || existsb (fun e => existsb (fun v => v_nillable v && match v_clazz v with Some _ => true | None => false end) (snd e))
                                (m_elements (snd km))) (u_metas u).

(* coverage: an xs:anyType element field *)
Definition uses_anytype (u : universe) (cl : cls) : bool :=
  existsb (fun k => match u_meta u k with
                    | Some m => existsb (fun e => existsb is_object (snd e)) (m_elements m)
                    | None => false
                    end) (reach u (reach_fuel u) [cl] []).

(* coverage: a class with an attribute map (xs:anyAttribute) *)
Definition uses_maps (u : universe) (cl : cls) : bool :=
  existsb (fun k => match u_meta u k with
                    | Some m => match m_any_attributes m with [] => false | _ => true end
                    | None => false
                    end) (reach u (reach_fuel u) [cl] []).

(* coverage: a class with a wildcard field (xs:any) *)
Definition uses_wildcard (u : universe) (cl : cls) : bool :=
  existsb (fun k => match u_meta u k with
                    | Some m => match m_wildcards m with [] => false | _ => true end
                    | None => false
                    end) (reach u (reach_fuel u) [cl] []).

(* coverage: a class with a field of its own type *)
Definition uses_recursion (u : universe) : bool :=
  existsb (fun km => existsb (N.eqb (fst km)) (class_children u (snd km))) (u_metas u).

(* which clause excludes the case: 1 class factory, 2 wf_model, 3 fits *)
Definition guard_clauses (k : rt_case) : list N :=
  (if nodefault_free (rc_cfg k) then [] else [1])
  ++ (if wf_model (rc_universe k) (rc_cls k) then [] else [2])
  ++ (if fits (rc_conv k) (rc_universe k) (law_tbl (rc_table k) (rc_universe k)) py_isspace
              (S (EventGen.vdepth (rc_value k))) (rc_cls k) (rc_value k) then [] else [3]).

(* the guard of C03's writer theorems on the REAL events (user prefix map, names, text):
   inside it the document says what the events say *)
Definition wcfg_of (k : rt_case) : Writer.wconfig :=
  {| Writer.cfg_schema_location := None; Writer.cfg_no_ns_schema_location := None;
     Writer.cfg_xml_declaration := rc_xml_declaration k |}.
Definition writer_ok (k : rt_case) : bool :=
  match rc_gen k with
  | EventGen.Ok evs =>
      let evs' := map (of_wevent (rc_conv k)) evs in
      Writer.writer_guard (wcfg_of k) (rc_user k) evs'
      && (negb (rc_lxml_writer k) || Writer.lxml_domain (wcfg_of k) (rc_user k) evs')
  | EventGen.Err _ => false
  end.
Definition in_guard_w (k : rt_case) : bool := in_guard k && writer_ok k.

(* a QName value without namespace is written bare; under a user prefix map that binds the default
   namespace the reader resolves it into that namespace (finding C01-F3, C01_qname_default_ns_refuted):
   the end-to-end predicates are judged outside that combination *)
Fixpoint has_local_qname (v : value) : bool :=
  let fix hl (l : list value) : bool := match l with [] => false | x :: r => has_local_qname x || hl r end in
  let fix hf (l : list (str * value)) : bool := match l with [] => false | (_, x) :: r => has_local_qname x || hf r end in
  match v with
  | VP (PQName q) => match fst (split_qname q) with None => true | Some _ => false end
  | VList _ l => hl l
  | VObj _ fs => hf fs
  | _ => false
  end.
Definition binds_default (user : list (option str * str)) : bool :=
  existsb (fun kv => match fst kv with None | Some [] => true | Some _ => false end) user.
(* an instance of a subclass is announced by xsi:type, whose value is a QName too: the QName of a
   class without namespace meets the same defect *)
Definition all_exact (k : rt_case) : bool :=
  exact_classes (rc_universe k) (S (EventGen.vdepth (rc_value k))) (rc_cls k) (rc_value k).
Definition qname_safe (k : rt_case) : bool :=
  negb ((has_local_qname (rc_value k) || negb (all_exact k)) && binds_default (rc_user k)).
Definition in_guard_q (k : rt_case) : bool := in_guard_w k && qname_safe k.

(* -- correspondence of the stages (every case) *)
Definition gen_agree (k : rt_case) : bool :=
  EventGenCorr.gres_events_eqb (EventGen.generate (rc_ign k) (rc_conv k) (rc_universe k) (rc_value k)) (rc_gen k).

Definition parse_agree (k : rt_case) : bool :=
  ParserCorr.agree_parse (rc_cfg k, rc_table k, rc_universe k, Some (rc_cls k), rc_pevents k, rc_parse k).

(* -- inside the guard *)
Definition is_roundtrip (k : rt_case) (o : Parser.outcome) : bool :=
  ParserCorr.outcome_eqb o (Parser.Ok (rc_value k) []).

(* the oracle: the REAL round trip succeeded *)
Definition oracle_in_guard (k : rt_case) : bool :=
  negb (in_guard_q k) || (rc_equal k && is_roundtrip k (rc_parse k)).

(* the theorem's conclusion on the real events: the MODEL parser returns the instance *)
Definition theorem_in_guard (k : rt_case) : bool :=
  negb (in_guard_q k)
  || is_roundtrip k (Parser.parse (rc_cfg k) (rc_conv k) (rc_universe k) (Some (rc_cls k)) (rc_pevents k)).

(* the real handler's events read as the tree the specification assigns to the REAL events *)
Definition expected_of (c : conv) (r : EventGen.gres (list wevent)) : option XmlNs.enode :=
  match r with
  | EventGen.Ok evs => itree_of_events (map (of_wevent c) evs)
  | EventGen.Err _ => None
  end.
Definition reads_real (k : rt_case) : bool :=
  negb (in_guard_q k)
  || match expected_of (rc_conv k) (rc_gen k) with
     | Some e => reads_b (uses_maps (rc_universe k) (rc_cls k) || uses_wildcard (rc_universe k) (rc_cls k)) e (rc_pevents k)
                 (* a class with an attribute map or a wildcard: the attribute order too *)
     | None => false
     end.

(* the whole composition inside Coq against the real parser's answer:
   parse (pump (itree_of_events (generate ...))) = what XmlParser returned *)
Definition composition (k : rt_case) : Parser.outcome :=
  Parser.parse (rc_cfg k) (conv_any (rc_table k)) (rc_universe k) (Some (rc_cls k))
    (pump (expected_of (rc_conv k) (EventGen.generate (rc_ign k) (rc_conv k) (rc_universe k) (rc_value k)))).
(* (the canonical stream `pump` binds no prefixes: instances without QName values) *)
Definition composition_agrees (k : rt_case) : bool :=
  negb (in_guard_w k && noq (rc_value k) && all_exact k) || ParserCorr.outcome_eqb (composition k) (rc_parse k).
Definition uses_xsi_type (k : rt_case) : bool := negb (all_exact k).
Definition uses_qname (k : rt_case) : bool := negb (noq (rc_value k)).
