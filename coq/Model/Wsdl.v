(* Model/Wsdl.v — executable model (no proofs) of
     xsdata/codegen/mappers/definitions.py   DefinitionsMapper (every method),
     the part of the later pipeline that decides what the mapped classes mean on the wire
       (ClassValidator "keep the last defined", ProcessAttributeTypes.process_dependency_type /
        detect_lazy_namespace / copy_attribute_properties, namespace inheritance of inner
        classes in XmlContext) — `shapes`,
     xsdata/formats/dataclass/client.py       Client.prepare_headers / prepare_payload / send.
   Faithful, including the defects.  Abstractions (validated by the correspondence check):
   * a qualified name "{ns}local" is the pair (ns, local), "" = no namespace
     (namespaces.build_qname / split_qname are inverse on URIs without "}");
   * id()-references to a class are the referenced class itself;
   * the configuration dict of a port/operation is restricted to the four keys the SOAP 1.1
     binding elements of the fragment can contribute (style, location, transport,
     soapAction): `sorted(keys, key=len)` orders them 5 < 8 < 9 < 10 whatever the
     insertion order;
   * Python exceptions (CodegenError "Unknown WSDL Type", AttributeError on a missing
     input/output, StopIteration) are the outcome None. *)
From Coq Require Import NArith List Bool.
From XV Require Import Base.Str Base.Eqb Base.PyInt Gen.WsdlTables Spec.WsdlSpec.
Import ListNotations.
Open Scope N_scope.

(* ------------------------------------------------------------------ text / namespaces utils *)
(* str.partition(":") : (left, right) when the separator occurs *)
Fixpoint partition_colon (s : str) : option (str * str) :=
  match s with
  | [] => None
  | c :: r =>
      if c =? 58 then Some ([], r)
      else match partition_colon r with Some (a, b) => Some (c :: a, b) | None => None end
  end.

(* utils/text.py split: (left, right) if right else (None, left) *)
Definition text_split (s : str) : option str * str :=
  match partition_colon s with
  | Some (l, r) => match r with [] => (None, l) | _ => (Some l, r) end
  | None => (None, s)
  end.
Definition text_suffix (s : str) : str := snd (text_split s).

(* dict.get on an insertion-ordered dict with unique keys *)
Fixpoint ns_get (m : nsmap) (p : option str) : option str :=
  match m with
  | [] => None
  | (k, u) :: r => if ostr_eqb k p then Some u else ns_get r p
  end.

Definition truthy (o : option str) : bool := match o with Some (_ :: _) => true | _ => false end.

Definition qn := (str * str)%type.
(* namespaces.build_qname(uri, tag) for a non-empty tag *)
Definition build_qname (ns : option str) (tg : str) : qn := (match ns with Some n => n | None => [] end, tg).
Definition qn_eqb (a b : qn) : bool := str_eqb (fst a) (fst b) && str_eqb (snd a) (snd b).

(* ParserUtils.parse_any_attribute followed by namespaces.local_name: what the mapper
   sees as the local name of soap:header/@message *)
Definition any_attr_local (ns : nsmap) (raw : str) : str :=
  match text_split raw with
  | (Some (c :: p), suffix) =>
      match ns_get ns (Some (c :: p)) with
      | Some _ => if startswith [47; 47] suffix then raw else suffix
      | None => raw
      end
  | _ => raw
  end.

Fixpoint find_named {A} (name : A -> str) (l : list A) (n : str) : option A :=
  match l with
  | [] => None
  | x :: r => if str_eqb (name x) n then Some x else find_named name r n
  end.

(* ------------------------------------------------------------------ codegen classes (abstract) *)
Inductive ctag := TagElement | TagBindingMessage | TagBindingOperation.

Inductive aclass :=
| AClass (qname : qn) (meta_name : option str) (tg : ctag) (namespace : option str)
         (attrs : list attr) (inner : list aclass)
with attr :=
| Attr (name : str) (namespace : option str) (default : option str) (type : qn)
       (native forward : bool) (ref : option aclass) (min_occurs max_occurs : option nat).

Definition c_qname (c : aclass) := match c with AClass q _ _ _ _ _ => q end.
Definition c_meta_name (c : aclass) := match c with AClass _ m _ _ _ _ => m end.
Definition c_tag (c : aclass) := match c with AClass _ _ t _ _ _ => t end.
Definition c_namespace (c : aclass) := match c with AClass _ _ _ n _ _ => n end.
Definition c_attrs (c : aclass) := match c with AClass _ _ _ _ a _ => a end.
Definition c_inner (c : aclass) := match c with AClass _ _ _ _ _ i => i end.
Definition c_name (c : aclass) : str := snd (c_qname c).               (* Class.name *)
Definition c_target_namespace (c : aclass) : str := fst (c_qname c).   (* Class.target_namespace *)

Definition a_name (a : attr) := match a with Attr n _ _ _ _ _ _ _ _ => n end.
Definition a_namespace (a : attr) := match a with Attr _ n _ _ _ _ _ _ _ => n end.
Definition a_default (a : attr) := match a with Attr _ _ d _ _ _ _ _ _ => d end.
Definition a_type (a : attr) := match a with Attr _ _ _ t _ _ _ _ _ => t end.
Definition a_native (a : attr) := match a with Attr _ _ _ _ b _ _ _ _ => b end.
Definition a_forward (a : attr) := match a with Attr _ _ _ _ _ b _ _ _ => b end.
Definition a_ref (a : attr) := match a with Attr _ _ _ _ _ _ r _ _ => r end.
Definition a_min (a : attr) := match a with Attr _ _ _ _ _ _ _ m _ => m end.
Definition a_max (a : attr) := match a with Attr _ _ _ _ _ _ _ _ m => m end.

Definition set_attrs (c : aclass) (a : list attr) : aclass :=
  match c with AClass q m t n _ i => AClass q m t n a i end.
Definition set_inner (c : aclass) (i : list aclass) : aclass :=
  match c with AClass q m t n a _ => AClass q m t n a i end.
Definition set_min0 (a : attr) : attr :=
  match a with Attr n ns d t nat_ f r _ mx => Attr n ns d t nat_ f r (Some 0%nat) mx end.

Definition is_tag (t : ctag) (c : aclass) : bool :=
  match t, c_tag c with
  | TagElement, TagElement | TagBindingMessage, TagBindingMessage | TagBindingOperation, TagBindingOperation => true
  | _, _ => false
  end.

(* ------------------------------------------------------------------ DefinitionsMapper *)
(* build_attr *)
Definition build_attr (name : str) (type : qn) (native forward : bool) (namespace : option str)
           (default : option str) (ref : option aclass) : attr :=
  let occurs := match default with Some _ => Some 1%nat | None => None end in
  Attr name (if native then Some [] else namespace) default type native forward ref occurs occurs.

Definition string_qn : qn := (m_xs_uri, m_string).   (* str(DataType.STRING) *)

(* build_parts_attributes *)
Definition part_attr (p : part) : list attr :=
  let mk (raw : str) (name_is_type : bool) :=
    let (prefix, type_name) := text_split raw in
    let name := if name_is_type then type_name else part_name p in
    let namespace := ns_get (part_ns p) prefix in
    let native := ostr_eqb namespace (Some m_xs_uri) in
    let namespace' := if truthy (part_type p) then Some m_lazy else namespace in
    [build_attr name (build_qname namespace type_name) native false namespace' None None] in
  match part_element p, part_type p with
  | Some (c :: e), _ => mk (c :: e) true
  | _, Some (c :: t) => mk (c :: t) false
  | _, _ => []                            (* "Skip untyped message part" *)
  end.
Definition build_parts_attributes (parts : list part) : list attr := flat_map part_attr parts.

Definition find_message_by_name (d : definitions) (n : str) : option message :=
  find_named msg_name (d_messages d) n.

(* operation_namespace *)
Definition operation_namespace (transport : option str) : option str :=
  if ostr_eqb transport (Some m_soap_http) then Some m_soap_env else None.

(* build_inner_class: get or create; creating also adds the forward attr to the parent *)
Definition inner_named (name : str) (c : aclass) : bool := str_eqb (c_name c) name.

Definition build_inner_class (target : aclass) (name : str) (namespace : option str) : aclass :=
  if existsb (inner_named name) (c_inner target) then target
  else
    let inner := AClass (c_target_namespace target, name) None TagBindingMessage None [] [] in
    let a := build_attr name (c_qname inner) false true namespace None None in
    set_inner (set_attrs target (c_attrs target ++ [a])) (c_inner target ++ [inner]).

(* mutate the (first) inner class of that name in place *)
Fixpoint update_first (name : str) (f : aclass -> aclass) (l : list aclass) : list aclass :=
  match l with
  | [] => []
  | c :: r => if inner_named name c then f c :: r else c :: update_first name f r
  end.
Definition update_inner (target : aclass) (name : str) (f : aclass -> aclass) : aclass :=
  set_inner target (update_first name f (c_inner target)).
Definition extend_attrs (new : list attr) (c : aclass) : aclass := set_attrs c (c_attrs c ++ new).

(* map_port_type_message *)
Definition map_port_type_message (operation : option str) (ptm : pt_msg) (namespace : option str) : list attr :=
  let (prefix, name) := text_split (ptm_message ptm) in
  let source_namespace := ns_get (ptm_ns ptm) prefix in
  [build_attr (match operation with Some o => o | None => name end)
              (build_qname source_namespace name) false false namespace None None].

(* map_binding_message_parts *)
Definition map_binding_message_parts (d : definitions) (message : str) (bm : b_msg) (e : soap_ext)
  : option (list attr) :=
  let parts := match e with
               | SoapHeader _ p _ => [p]
               | SoapBody _ _ (Some ps) => split_ws py_isspace ps
               | SoapBody _ _ None => []
               end in
  let message_name := match e with
                      | SoapHeader m _ _ => any_attr_local (bm_ns bm) m
                      | SoapBody _ _ _ => text_suffix message
                      end in
  match find_message_by_name d message_name with
  | None => None
  | Some dm =>
      let mp := match parts with
                | [] => msg_parts dm
                | _ => filter (fun p => existsb (str_eqb (part_name p)) parts) (msg_parts dm)
                end in
      Some (build_parts_attributes mp)
  end.

Definition s_Header_title : str := [72;101;97;100;101;114].   (* "header".title() *)
Definition ext_class_name (e : soap_ext) : str :=               (* local_name(ext.qname).title() *)
  match e with SoapBody _ _ _ => m_body | SoapHeader _ _ _ => s_Header_title end.

(* build_envelope_class: the attrs one extension element contributes ... *)
Definition ext_attrs (d : definitions) (style : str) (operation : option str) (ptm : pt_msg) (bm : b_msg)
           (e : soap_ext) : option (list attr) :=
  match e with
  | SoapBody _ bodyns _ =>
      if str_eqb style m_rpc && str_eqb (ext_class_name e) m_body
      then Some (map_port_type_message operation ptm bodyns)
      else map_binding_message_parts d (ptm_message ptm) bm e
  | SoapHeader _ _ _ => map_binding_message_parts d (ptm_message ptm) bm e
  end.

(* ... and one turn of its loop over binding_message.extended_elements *)
Definition envelope_step (d : definitions) (style : str) (operation : option str) (ptm : pt_msg) (bm : b_msg)
           (acc : option aclass) (e : soap_ext) : option aclass :=
  match acc with
  | None => None
  | Some target =>
      let class_name := ext_class_name e in
      let target1 := build_inner_class target class_name None in
      match ext_attrs d style operation ptm bm e with
      | None => None
      | Some attrs => Some (update_inner target1 class_name (extend_attrs attrs))
      end
  end.

(* list.sort(key=lambda x: x.name != "Header"): stable, the Header member(s) first *)
Definition sort_envelope (c : aclass) : aclass :=
  let ha (a : attr) := str_eqb (a_name a) m_header in
  let hc (i : aclass) := str_eqb (c_name i) m_header in
  set_inner (set_attrs c (filter ha (c_attrs c) ++ filter (fun a => negb (ha a)) (c_attrs c)))
            (filter hc (c_inner c) ++ filter (fun i => negb (hc i)) (c_inner c)).

Definition build_envelope_class (d : definitions) (bm : b_msg) (optm : option pt_msg) (name : str)
           (style : str) (namespace : option str) (operation : option str) : option aclass :=
  match optm with
  | None => None                          (* port_type_message.message on None *)
  | Some ptm =>
      let target := AClass (build_qname (d_tns d) name) (Some m_envelope) TagBindingMessage namespace [] [] in
      option_map sort_envelope (fold_left (envelope_step d style operation ptm bm) (bm_exts bm) (Some target))
  end.

(* build_message_class *)
Definition build_message_class (d : definitions) (optm : option pt_msg) : option aclass :=
  match optm with
  | None => None
  | Some ptm =>
      let (prefix, name) := text_split (ptm_message ptm) in
      match find_message_by_name d name with
      | None => None
      | Some dm =>
          let source_namespace := ns_get (msg_ns dm) prefix in
          Some (AClass (build_qname source_namespace name) None TagElement source_namespace
                       (build_parts_attributes (msg_parts dm)) [])
      end
  end.

(* build_envelope_fault *)
Fixpoint detail_attrs (d : definitions) (faults : list pt_msg) : option (list attr) :=
  match faults with
  | [] => Some []
  | f :: r =>
      match find_message_by_name d (text_suffix (ptm_message f)), detail_attrs d r with
      | Some m, Some rest => Some (build_parts_attributes (msg_parts m) ++ rest)
      | _, _ => None
      end
  end.

Fixpoint set_last_min0 (l : list attr) : list attr :=
  match l with
  | [] => []
  | [a] => [set_min0 a]
  | a :: r => a :: set_last_min0 r
  end.

Definition fault_field (optional : bool) (f : str) : attr :=
  let a := build_attr f string_qn true false (Some []) None None in
  if optional then set_min0 a else a.

Definition finish_fault_class (das : list attr) (fc : aclass) : aclass :=
  let fc1 :=
    match das with
    | [] => fc
    | _ =>
        let fc' := build_inner_class fc m_detail (Some []) in
        let fc'' := update_inner fc' m_detail (extend_attrs (map set_min0 das)) in
        set_attrs fc'' (set_last_min0 (c_attrs fc''))
    end in
  let optional := m_optional_fields ++ (match das with [] => [m_detail] | _ => [] end) in
  set_attrs fc1 (map (fault_field false) m_required_fields ++ map (fault_field true) optional ++ c_attrs fc1).

Definition build_envelope_fault (d : definitions) (po : pt_operation) (target : aclass) : option aclass :=
  match find (inner_named m_body) (c_inner target), detail_attrs d (pto_faults po) with
  | Some body, Some das =>
      let body1 := build_inner_class body m_fault (c_namespace target) in
      let body2 := update_inner body1 m_fault (finish_fault_class das) in
      let body3 := set_attrs body2 (map set_min0 (c_attrs body2)) in
      let target1 := update_inner target m_body (fun _ => body3) in
      (* every member of the envelope but Body becomes optional (a Fault need not carry the headers) *)
      Some (set_attrs target1 (map (fun a => if str_eqb (a_name a) m_body then a else set_min0 a) (c_attrs target1)))
  | _, _ => None
  end.

(* map_binding_operation_messages: one turn of its loop (input or output) ... *)
Definition map_one_message (d : definitions) (po : pt_operation) (name : str) (style : str) (namespace : option str)
           (suffix : str) (bm : b_msg) (optm : option pt_msg) (operation : option str) (is_output : bool)
  : option (list aclass) :=
  let msgs := if str_eqb style m_rpc
              then match build_message_class d optm with Some c => Some [c] | None => None end
              else Some [] in
  match msgs with
  | None => None
  | Some ms =>
      match build_envelope_class d bm optm (name ++ [95] ++ suffix) style namespace operation with
      | None => None
      | Some target =>
          if is_output then
            match build_envelope_fault d po target with
            | Some t => Some (ms ++ [t])
            | None => None
            end
          else Some (ms ++ [target])
      end
  end.

(* ... and the whole *)
Definition map_binding_operation_messages (d : definitions) (bo : b_operation) (po : pt_operation)
           (name : str) (style : str) (namespace : option str) : option (list aclass) :=
  let i := match bo_input bo with
           | Some bm => map_one_message d po name style namespace m_input bm (pto_input po) (Some (bo_name bo)) false
           | None => Some []
           end in
  match i with
  | None => None
  | Some ci =>
      match (match bo_output bo with
             | Some bm => map_one_message d po name style namespace m_output bm (pto_output po) None true
             | None => Some []
             end) with
      | None => None
      | Some co => Some (ci ++ co)
      end
  end.

(* the configuration dict, restricted to the four keys of the fragment *)
Record config := mk_config { cf_style : option str; cf_location : option str; cf_transport : option str; cf_action : option str }.

Definition port_config (b : binding) (p : port) : config :=
  mk_config (obind (b_soap b) sb_style) (port_address p) (obind (b_soap b) sb_transport) None.

Definition op_config (cfg : config) (bo : b_operation) : config :=        (* cfg.copy(); cfg.update(...) *)
  match bo_soap bo with
  | None => cfg
  | Some so =>
      mk_config (match so_style so with Some s => Some s | None => cf_style cfg end)
                (cf_location cfg) (cf_transport cfg)
                (match so_action so with Some a => Some a | None => cf_action cfg end)
  end.

Definition const_attrs (cfg : config) : list attr :=
  flat_map (fun kv : str * option str =>
              match snd kv with                        (* `if config[key] is not None` *)
              | Some _ => [build_attr (fst kv) string_qn true false None (snd kv) None]
              | None => []
              end)
           [(k_style, cf_style cfg); (k_location, cf_location cfg); (k_transport, cf_transport cfg);
            (k_soap_action, cf_action cfg)].

Definition last_piece (s : str) : str := last (split_chr 95 s) [].     (* name.split("_")[-1] *)

(* map_binding_operation *)
(* config.setdefault("style", "document") *)
Definition set_default_style (cfg : config) : config :=
  match cf_style cfg with
  | Some _ => cfg
  | None => mk_config (Some m_default_style) (cf_location cfg) (cf_transport cfg) (cf_action cfg)
  end.

Definition map_binding_operation (d : definitions) (bo : b_operation) (po : pt_operation)
           (cfg0 : config) (pt_nm : str) : option (list aclass) :=
  let cfg := set_default_style cfg0 in
  let style := match cf_style cfg with Some s => s | None => m_default_style end in
  let name := pt_nm ++ [95] ++ bo_name bo in
  let namespace := operation_namespace (cf_transport cfg) in
  match map_binding_operation_messages d bo po name style namespace with
  | None => None
  | Some msgs =>
      let refs := flat_map (fun mc : aclass =>
                    match c_meta_name mc with
                    | Some (_ :: _) => [build_attr (last_piece (c_name mc)) (c_qname mc) false false None None (Some mc)]
                    | _ => []
                    end) msgs in
      Some (msgs ++ [AClass (build_qname (d_tns d) name) None TagBindingOperation None (const_attrs cfg ++ refs) []])
  end.

(* Binding.unique_operations: group by name (insertion order of first occurrence), last of each group *)
Fixpoint dedup_first (seen l : list str) : list str :=
  match l with
  | [] => []
  | x :: r => if existsb (str_eqb x) seen then dedup_first seen r else x :: dedup_first (x :: seen) r
  end.
Definition unique_operations (ops : list b_operation) : list b_operation :=
  flat_map (fun k => match rev (filter (fun o => str_eqb (bo_name o) k) ops) with x :: _ => [x] | [] => [] end)
           (dedup_first [] (map bo_name ops)).

Fixpoint concat_opt {A} (l : list (option (list A))) : option (list A) :=
  match l with
  | [] => Some []
  | None :: _ => None
  | Some x :: r => match concat_opt r with Some y => Some (x ++ y) | None => None end
  end.

(* map_binding *)
Definition map_binding (d : definitions) (b : binding) (pt : port_type) (cfg : config) : option (list aclass) :=
  concat_opt (map (fun bo =>
    match find_named pto_name (pt_operations pt) (bo_name bo) with
    | None => None
    | Some po => map_binding_operation d bo po (op_config cfg bo) (pt_name pt)
    end) (unique_operations (b_operations b))).

(* map_port *)
Definition map_port (d : definitions) (p : port) : option (list aclass) :=
  match find_named b_name (d_bindings d) (text_suffix (port_binding p)) with
  | None => None
  | Some b =>
      match find_named pt_name (d_port_types d) (text_suffix (b_type b)) with
      | None => None
      | Some pt => map_binding d b pt (port_config b p)
      end
  end.

(* map *)
Definition map_definitions (d : definitions) : option (list aclass) :=
  concat_opt (map (map_port d) (flat_map svc_ports (d_services d))).

(* ------------------------------------------------------------------ what the mapped classes mean: shapes *)
(* global simple types of the schema: (namespace, name, base builtin of a plain restriction
   | None for an enumeration) *)
Definition tenv := simple_types.
Fixpoint tenv_get (e : tenv) (q : qn) : option (option str) :=
  match e with
  | [] => None
  | (u, l, b) :: r => if qn_eqb (u, l) q then Some b else tenv_get r q
  end.

(* ClassValidator.handle_duplicate_types: of several classes with the same qname and tag the
   last defined is kept; ProcessAttributeTypes.find_dependency then finds it by qname *)
Definition find_element_class (all : list aclass) (q : qn) : option aclass :=
  find (fun c => is_tag TagElement c && qn_eqb (c_qname c) q) (rev all).

Definition required_of (a : attr) : bool :=
  match a_min a with Some O => false | _ => true end.

(* element namespace of an attr inside `owner` whose children inherit `inherited`:
   explicit, inherited, or the "##lazy" of a part given by type after
   ProcessAttributeTypes (detect_lazy_namespace runs only for complex sources) *)
Definition lazy_complex_ns (owner : aclass) (inherited : str) : str :=
  if truthy (c_namespace owner) then [] else inherited.

(* XmlVar: default_namespace skips namespaces starting with "#" (##any, ##other, ... and the
   "##lazy" that survives for parts of a simple type): the element is then unqualified *)
Definition var_namespace (ns : str) : str :=
  match ns with 35 :: _ => [] | _ => ns end.

(* one field of class `c` whose members inherit `ns_children`; `rec` decodes a class *)
Definition decode_attr (rec : aclass -> str -> list item) (te : tenv) (all : list aclass)
           (c : aclass) (ns_children : str) (a : attr) : item :=
  let req := required_of a in
  let ns := match a_namespace a with Some n => var_namespace n | None => ns_children end in
  let tr := TRef (fst (a_type a)) (snd (a_type a)) in
  if a_native a then Leaf ns (a_name a) req (TNative (snd (a_type a)))
  else if a_forward a then
    match find (fun i => qn_eqb (c_qname i) (a_type a)) (c_inner c) with
    | Some i => Node ns (a_name a) req (rec i ns_children)
    | None => Leaf ns (a_name a) req tr
    end
  else
    match find_element_class all (a_type a) with
    | Some mc => Node ns (a_name a) req (rec mc ns_children)
    | None =>
        if ostr_eqb (a_namespace a) (Some m_lazy) then
          match tenv_get te (a_type a) with
          | Some (Some base) => Leaf ns (a_name a) req (TNative base)
          | Some None => Leaf ns (a_name a) req tr
          | None => Leaf (lazy_complex_ns c ns_children) (a_name a) req tr
          end
        else Leaf ns (a_name a) req tr
    end.

Definition children_ns (c : aclass) (inherited : str) : str :=
  match c_namespace c with Some (x :: n) => x :: n | _ => inherited end.

Fixpoint decode_class (fuel : nat) (te : tenv) (all : list aclass) (c : aclass) (inherited : str) : list item :=
  match fuel with
  | O => []
  | S fuel' =>
      map (decode_attr (decode_class fuel' te all) te all c (children_ns c inherited)) (c_attrs c)
  end.

Definition decode_root (te : tenv) (all : list aclass) (c : aclass) : item :=
  let ns := match c_namespace c with Some n => n | None => [] end in
  Node ns (match c_meta_name c with Some n => n | None => c_name c end) true (decode_class 8 te all c ns).

Definition const_of (c : aclass) (key : str) : option str :=
  match find (fun a => str_eqb (a_name a) key) (c_attrs c) with
  | Some a => a_default a
  | None => None
  end.
Definition envelope_of (te : tenv) (all : list aclass) (c : aclass) (key : str) : option item :=
  match find (fun a => str_eqb (a_name a) key) (c_attrs c) with
  | Some a => match a_ref a with Some e => Some (decode_root te all e) | None => None end
  | None => None
  end.

Definition decode_service (te : tenv) (all : list aclass) (c : aclass) : service_desc :=
  mk_sd (c_name c) (const_of c k_style) (const_of c k_location) (const_of c k_transport) (const_of c k_soap_action)
        (envelope_of te all c m_input) (envelope_of te all c m_output).

Definition shapes (te : tenv) (cs : list aclass) : list service_desc :=
  map (decode_service te cs) (filter (is_tag TagBindingOperation) cs).

(* after ClassValidator: one service per name, the last defined *)
Fixpoint keep_last (l : list service_desc) : list service_desc :=
  match l with
  | [] => []
  | x :: r => if existsb (fun y => str_eqb (sd_name y) (sd_name x)) r then keep_last r else x :: keep_last r
  end.
Definition final_shapes (te : tenv) (cs : list aclass) : list service_desc := keep_last (shapes te cs).

(* ------------------------------------------------------------------ Client *)
Definition headers := list (str * str).

(* d[k] = v on an insertion-ordered dict *)
Fixpoint dict_set (h : headers) (k v : str) : headers :=
  match h with
  | [] => [(k, v)]
  | (k', v') :: r => if str_eqb k' k then (k, v) :: r else (k', v') :: dict_set r k v
  end.

(* Client.prepare_headers; None = ClientValueError *)
Definition prepare_headers (transport soap_action : option str) (h : headers) : option headers :=
  if ostr_eqb transport (Some c_soap_transport) then
    let r := dict_set h c_content_type c_text_xml in
    Some (match soap_action with                       (* `if self.config.soap_action is not None` *)
          | Some a => dict_set r c_soap_action a
          | None => r
          end)
  else None.

Inductive payload := PStr (s : str) | PBytes (b : list N).
Inductive client_exn := ClientValueError | DecodeError | EncodeError.

Section Client.
  (* the generated classes, their instances, the serializer, the parser and the transport
     are parameters: the client is modelled over any of them *)
  Variables Obj Cls Parsed : Type.
  Variable isinstance : Obj -> Cls -> bool.
  Variable as_dict : Obj -> bool.                      (* isinstance(obj, dict) *)
  Variable decode_dict : Obj -> Cls -> option Obj.     (* DictDecoder.decode, None = it raises *)
  Variable render : Obj -> str.                        (* XmlSerializer.render *)
  Variable encode : str -> str -> option (list N).     (* str.encode(encoding), None = it raises *)
  Variable post : str -> payload -> headers -> list N. (* Transport.post *)
  Variable parse : list N -> Cls -> Parsed.            (* XmlParser.from_bytes (may itself stand for an exception) *)

  Record client_config := mk_client_config {
    cc_location : str; cc_transport : option str; cc_soap_action : option str;
    cc_input : Cls; cc_output : Cls; cc_encoding : option str }.

  (* Client.prepare_payload *)
  Definition prepare_payload (cfg : client_config) (obj : Obj) : client_exn + payload :=
    let oobj := if as_dict obj then decode_dict obj (cc_input cfg) else Some obj in
    match oobj with
    | None => inl DecodeError
    | Some o =>
        if negb (isinstance o (cc_input cfg)) then inl ClientValueError
        else
          let result := render o in
          match cc_encoding cfg with
          | Some (c :: e) => match encode (c :: e) result with Some b => inr (PBytes b) | None => inl EncodeError end
          | _ => inr (PStr result)
          end
    end.

  Record call := mk_call { call_url : str; call_data : payload; call_headers : headers }.

  (* Client.send: (the POSTs made, exception | parsed response) *)
  Definition send (cfg : client_config) (obj : Obj) (h : headers) : list call * (client_exn + Parsed) :=
    match prepare_payload cfg obj with
    | inl e => ([], inl e)
    | inr data =>
        match prepare_headers (cc_transport cfg) (cc_soap_action cfg) h with
        | None => ([], inl ClientValueError)
        | Some h' =>
            let response := post (cc_location cfg) data h' in
            ([mk_call (cc_location cfg) data h'], inr (parse response (cc_output cfg)))
        end
    end.
End Client.
