(* Model/DatesStd.v — conversions between the Xml* values and the standard library's datetime objects
   (XmlDate.to_date/to_datetime/from_date/from_datetime, XmlTime.to_time/from_time,
   XmlDateTime.to_datetime/from_datetime, dates.calculate_timezone/calculate_offset).
   A stdlib object is modelled as the tuple of the fields its constructor received (that is what the
   object is: datetime stores exactly these), `None` = the constructor raised (ValueError). No proofs. *)
From Coq Require Import NArith ZArith List Bool.
From XV Require Import Base.Str Gen.DatesTables Model.Dates.
Import ListNotations.
Open Scope Z_scope.

(* datetime.datetime / datetime.time / datetime.date; tzinfo = fixed offset in whole minutes *)
Record pydatetime := mk_pydt {
  sd_year : Z; sd_month : Z; sd_day : Z; sd_hour : Z; sd_minute : Z; sd_second : Z; sd_us : Z; sd_off : option Z }.
Record pytime := mk_pyt { q_hour : Z; q_minute : Z; q_second : Z; q_us : Z; q_off : option Z }.
Record pydate := mk_pyd { r_year : Z; r_month : Z; r_day : Z }.

(* the constructors' range checks (MINYEAR = 1, MAXYEAR = 9999, the calendar, hour 0..23, ...) *)
Definition py_date_ok (y m d : Z) : bool :=
  (1 <=? y) && (y <=? 9999) && (1 <=? m) && (m <=? 12) && (1 <=? d) && (d <=? monthlen y m).
Definition py_time_ok (h mi s us : Z) : bool :=
  (0 <=? h) && (h <=? 23) && (0 <=? mi) && (mi <=? 59) && (0 <=? s) && (s <=? 59)
  && (0 <=? us) && (us <=? 999999).
(* dates.calculate_timezone: None -> None, 0 -> utc, else timezone(timedelta(minutes=offset)),
   which demands -24h < offset < 24h *)
Definition py_tz_ok (o : option Z) : bool :=
  match o with None => true | Some z => (-1440 <? z) && (z <? 1440) end.

(* the `microsecond` property: fractional_second // 1000 *)
Definition microsecond (frac : Z) : Z := frac / 1000.

Definition datetime_to_std (v : xdatetime) : option pydatetime :=
  let us := microsecond (dt_frac v) in
  if py_tz_ok (dt_offset v) && py_date_ok (dt_year v) (dt_month v) (dt_day v)
     && py_time_ok (dt_hour v) (dt_minute v) (dt_second v) us
  then Some (mk_pydt (dt_year v) (dt_month v) (dt_day v) (dt_hour v) (dt_minute v) (dt_second v) us (dt_offset v))
  else None.
(* calculate_offset: int(utcoffset().total_seconds() // 60) = the minutes for whole-minute offsets *)
Definition datetime_from_std (p : pydatetime) : xdatetime :=
  mk_xdatetime (sd_year p) (sd_month p) (sd_day p) (sd_hour p) (sd_minute p) (sd_second p) (sd_us p * 1000) (sd_off p).

Definition time_to_std (v : xtime) : option pytime :=
  let us := microsecond (t_frac v) in
  if py_tz_ok (t_offset v) && py_time_ok (t_hour v) (t_minute v) (t_second v) us
  then Some (mk_pyt (t_hour v) (t_minute v) (t_second v) us (t_offset v)) else None.
Definition time_from_std (q : pytime) : xtime :=
  mk_xtime (q_hour q) (q_minute q) (q_second q) (q_us q * 1000) (q_off q).

Definition date_to_date (v : xdate) : option pydate :=
  if py_date_ok (d_year v) (d_month v) (d_day v) then Some (mk_pyd (d_year v) (d_month v) (d_day v)) else None.
Definition date_to_datetime (v : xdate) : option pydatetime :=
  if py_tz_ok (d_offset v) && py_date_ok (d_year v) (d_month v) (d_day v)
  then Some (mk_pydt (d_year v) (d_month v) (d_day v) 0 0 0 0 (d_offset v)) else None.
Definition date_from_date (r : pydate) : xdate := mk_xdate (r_year r) (r_month r) (r_day r) None.
Definition date_from_datetime (p : pydatetime) : xdate := mk_xdate (sd_year p) (sd_month p) (sd_day p) (sd_off p).

(* XmlTime.now(tz) / utcnow() = from_time(datetime.now(tz).timetz()): the time keeps the datetime's
   offset (repair a863c7f; `.time()` dropped it) *)
Definition pydatetime_timetz (p : pydatetime) : pytime :=
  mk_pyt (sd_hour p) (sd_minute p) (sd_second p) (sd_us p) (sd_off p).
Definition time_now_from (p : pydatetime) : xtime := time_from_std (pydatetime_timetz p).
Definition datetime_now_from (p : pydatetime) : xdatetime := datetime_from_std p.
