(* Model/SafeCorr.v — agreement predicates (model = observed implementation answer) and
   oracles (specification judged on the implementation's answers) for the generated case
   files of harness/c07.py.  Observations: `obs` = Some result | None for an exception
   that the model also names (IndexError / RecursionError). *)
From Coq Require Import NArith List Bool String.
From XV Require Import Base.Str Base.Eqb Gen.SafeTables Model.Safe Model.Rename Spec.PyIdent.
Import ListNotations.
Open Scope N_scope.

Definition lstr_eqb := list_eqb str_eqb.
Definition olstr_eqb := opt_eqb lstr_eqb.

(* ---- text.py: function code, input, observed (None = IndexError) *)
Definition text_model (fn : N) (s : str) : option (list str) :=
  match fn with
  | 0 => Some (split_words s)
  | 1 => Some [alnum s]
  | 2 => Some [snake_case s]
  | 3 => Some [pascal_case s]
  | 4 => option_map (fun x => [x]) (camel_case s)
  | 5 => Some [mixed_case s]
  | 6 => Some [mixed_snake_case s]
  | 7 => option_map (fun x => [x]) (mixed_pascal_case s)
  | 8 => Some [screaming_snake_case s]
  | 9 => Some [kebab_case s]
  | 10 => Some [original_case s]
  | 11 => option_map (fun x => [x]) (capitalize s)
  | 12 => Some [clean_uri s]
  | 13 => Some [if is_reserved s then [49] else [48]]
  | _ => None
  end.

Definition agree_text (c : N * str * option (list str)) : bool :=
  let '(fn, s, obs) := c in olstr_eqb (text_model fn s) obs.

(* str.title on ASCII-alphanumeric words only (the domain on which the model uses it) *)
Definition agree_title (c : str * str) : bool := str_eqb (title (fst c)) (snd c).

(* classify: 1 UPPER 2 LOWER 3 NUMERIC 4 OTHER *)
Definition ctype_code (t : ctype) : N :=
  match t with CUpper => 1 | CLower => 2 | CNumeric => 3 | COther => 4 end.
Definition agree_classify (c : N * N) : bool := ctype_code (classify (fst c)) =? snd c.

(* ---- safe_name / filters: observed = (0, r) ok | (1, _) RecursionError | (2, _) other exception *)
Definition sres_code (r : sres) : N * str :=
  match r with SOk s => (0, s) | SFuel => (1, []) | SErr => (2, []) end.
Definition obs_eqb (a b : N * str) : bool := (fst a =? fst b) && (if fst a =? 0 then str_eqb (snd a) (snd b) else true).

Definition agree_safe_name (c : str * str * str * (N * str)) : bool :=
  let '(name, prefix, casev, obs) := c in
  match case_of_value casev with
  | Some k => obs_eqb (sres_code (safe_name safe_fuel prefix (apply_case k) name)) obs
  | None => false
  end.

(* conventions as ten strings: (case value, prefix) for class, field, constant, module, package *)
Definition conv_of (l : list (str * str)) : option conventions :=
  match l with
  | [(c1, p1); (c2, p2); (c3, p3); (c4, p4); (c5, p5)] =>
      match case_of_value c1, case_of_value c2, case_of_value c3, case_of_value c4, case_of_value c5 with
      | Some k1, Some k2, Some k3, Some k4, Some k5 => Some (mk_conv k1 p1 k2 p2 k3 p3 k4 p4 k5 p5)
      | _, _, _, _, _ => None
      end
  | _ => None
  end.

Definition default_conv_list : list (str * str) :=
  [(conv_class_name_case, conv_class_name_prefix); (conv_field_name_case, conv_field_name_prefix);
   (conv_constant_name_case, conv_constant_name_prefix); (conv_module_name_case, conv_module_name_prefix);
   (conv_package_name_case, conv_package_name_prefix)].

(* filter code: 0 class_name 1 field_name 2 constant_name 3 module_name 4 package_name *)
Definition filter_model (cv : conventions) (fn : N) (name : str) : sres :=
  match fn with
  | 0 => class_name cv name | 1 => field_name cv name | 2 => constant_name cv name
  | 3 => module_name cv name | _ => package_name cv name
  end.

Definition agree_filter (c : list (str * str) * N * str * (N * str)) : bool :=
  let '(cl, fn, name, obs) := c in
  match conv_of cl with
  | Some cv => obs_eqb (sres_code (filter_model cv fn name)) obs
  | None => false
  end.

(* ---- rename handlers *)
Definition attr_of (t : str * str * option str) : attr := let '(n, tg, ns) := t in mk_attr n tg ns.

Definition agree_unique_name (c : str * list str * str) : bool :=
  let '(name, reserved, obs) := c in str_eqb (unique_name name reserved) obs.

Definition agree_rename_attrs (c : list (str * str * option str) * list str) : bool :=
  lstr_eqb (map a_name (rename_duplicate_attributes (map attr_of (fst c)))) (snd c).

Definition cls_of (t : str * str * bool * bool) : cls := let '(ns, n, e, a) := t in mk_cls ns n e a.

(* style, classes (container order), their locations, observed use_names, observed names *)
Definition agree_should_use_names (c : str * list str * bool) : bool :=
  let '(style, locs, obs) := c in Bool.eqb (should_use_names style locs) obs.

Definition agree_rename_classes (c : str * list str * list (str * str * bool * bool) * list str) : bool :=
  let '(style, locs, l, obs) := c in
  lstr_eqb (map c_name (rename_duplicate_classes (should_use_names style locs) (map cls_of l))) obs.

(* ---- oracles ------------------------------------------------------------------- *)
Fixpoint nodupb (l : list str) : bool :=
  match l with [] => true | x :: r => negb (str_in x r) && nodupb r end.

(* a generated name: identifier and not a keyword.  ASCII notion for ASCII names, the
   interpreter's XID tables otherwise (original_case lets non-ASCII through) *)
Definition usable_nameb (r : str) : bool :=
  identifier_with py_xid_start py_xid_continue r && negb (is_keyword r).

(* the defect classes the models know about *)
Definition keyword_not_reserved (r : str) : bool := is_keyword r && negb (is_reserved r).

(* verdict on one generated name: 0 usable, 1 = `await` not reserved (finding C07-F1, fixed: a
   regression), 3 = any other keyword that is not reserved, 2 = not an identifier *)
Definition name_verdict (r : str) : N :=
  if usable_nameb r then 0
  else if keyword_not_reserved r then (if str_eqb r (PyIdent.lit "await") then 1 else 3)
  else 2.

(* names reaching final_field_name: for an enumeration class the members are constants *)
Definition final_names (cv : conventions) (enum : bool) (l : list attr) : list sres :=
  map (fun a => if enum then constant_name cv (a_name a) else field_name cv (a_name a)) l.

Definition sres_str (r : sres) : str := match r with SOk s => s | _ => [] end.

(* oracle on a renamed attr list observed from the implementation: field names distinct *)
Definition oracle_fields_distinct (c : list str) : bool := nodupb c.

(* classification of a duplicate among the field names of one class, given the attr
   names AFTER the implementation's rename step:
     1 = the model reproduces the field names and the renamed SLUGS already collide
         (duplicate survived / was created by RenameDuplicateAttributes: by-preference rename)
     2 = the model reproduces the field names, slugs are distinct, the collision is created
         by safe_name's prefix / suffix adjustment
     0 = the model does not explain it *)
(* some name whose final form occurs twice was adjusted by safe_name (the final form is not the
   convention applied to the name itself) *)
Definition adjusted_collision (case : str -> option str) (names finals : list str) : bool :=
  existsb (fun nf => let '(n, f) := nf in
             negb (opt_eqb str_eqb (case n) (Some f)) &&
             Nat.ltb 1 (List.length (filter (str_eqb f) finals)))
          (combine names finals).

Definition classify_dup_fields (c : list (str * str) * bool * list str * list str) : N :=
  let '(cl, enum, names, fields) := c in
  match conv_of cl with
  | None => 0
  | Some cv =>
      let model := map (fun n => sres_str (if enum then constant_name cv n else field_name cv n)) names in
      if negb (lstr_eqb model fields) then 0
      else if nodupb fields then 0
      else if negb (nodupb (map alnum names)) then 1
      else if adjusted_collision (apply_case (if enum then constant_case cv else field_case cv)) names fields then 2
      else 0
  end.

(* same for the class names of one module (names = Class.name after RenameDuplicateClasses) *)
Definition classify_dup_classes (c : list (str * str) * list str * list str) : N :=
  let '(cl, names, class_names) := c in
  match conv_of cl with
  | None => 0
  | Some cv =>
      let model := map (fun n => sres_str (class_name cv n)) names in
      if negb (lstr_eqb model class_names) then 0
      else if nodupb class_names then 0
      else if negb (nodupb (map alnum names)) then 1
      else if adjusted_collision (apply_case (class_case cv)) names class_names then 2
      else 0
  end.

(* Filters.__init__: does the configuration pass the safe-prefix validation? *)
Definition agree_filters_init (c : list (str * str) * bool) : bool :=
  match conv_of (fst c) with
  | Some cv => Bool.eqb (filters_init cv) (snd c)
  | None => false
  end.
