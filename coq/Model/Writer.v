(* Model/Writer.v — executable model of the writer half of the XML serializer.

   Modelled xsdata code (faithful, including defects):
     xsdata/utils/namespaces.py : clean_prefixes, load_prefix, generate_prefix, prefix_exists,
                                  split_qname (with utils/text.split), build_qname
     xsdata/formats/dataclass/serializers/mixins.py :
        EventHandler.write / start_tag / add_attribute / add_namespace / set_data / end_tag /
        flush_start / start_namespaces / reset_default_namespace / is_xsi_type / encode_data,
        XmlWriter.start_document;  QNameConverter.serialize (formats/converter.py)
   Modelled third-party sinks (NOT verified, tied by correspondence only):
     xml.sax.saxutils.XMLGenerator (startPrefixMapping, endPrefixMapping, startElementNS,
        endElementNS, characters, _qname, escape, quoteattr) as used by XmlEventWriter
     lxml.sax.ElementTreeContentHandler (startPrefixMapping, endPrefixMapping, _buildTag,
        startElementNS, endElementNS, characters) as used by LxmlEventWriter; the tree is
        the output (libxml2's serialiser is trusted to print the tree it was given).
   Fixed configuration: indent = None, encoding = UTF-8, xml_version = 1.0.
   No proofs in this file. *)
From Coq Require Import NArith List Bool.
From XV Require Import Base.Str Base.Dec Base.Eqb Spec.XmlNs Gen.WriterTables.
Import ListNotations.
Open Scope N_scope.

(* ------------------------------------------------------------------ Python exceptions *)
Inductive perr :=
| PyXmlWriterError      (* xsdata.exceptions.XmlWriterError: the only sanctioned failure *)
| PyIndexError | PyKeyError | PyAttributeError | PyTypeError | PySaxError
| SinkUnmodelled.       (* input outside the modelled domain of a third-party sink *)

Definition perr_eqb (a b : perr) : bool :=
  match a, b with
  | PyXmlWriterError, PyXmlWriterError | PyIndexError, PyIndexError | PyKeyError, PyKeyError
  | PyAttributeError, PyAttributeError | PyTypeError, PyTypeError | PySaxError, PySaxError
  | SinkUnmodelled, SinkUnmodelled => true
  | _, _ => false
  end.

(* ------------------------------------------------------------------ insertion-ordered dicts *)
Definition nsmap := list (option str * str).            (* prefix (None = default) -> uri *)

Fixpoint nm_get (m : nsmap) (p : option str) : option str :=
  match m with
  | [] => None
  | (p', u) :: r => if ostr_eqb p p' then Some u else nm_get r p
  end.
(* d[k] = v : update in place, or append *)
Fixpoint nm_set (m : nsmap) (p : option str) (u : str) : nsmap :=
  match m with
  | [] => [(p, u)]
  | (p', u') :: r => if ostr_eqb p p' then (p', u) :: r else (p', u') :: nm_set r p u
  end.
Definition nm_has_key (m : nsmap) (p : option str) : bool :=
  match nm_get m p with Some _ => true | None => false end.
Fixpoint nm_remove (m : nsmap) (p : option str) : nsmap :=
  match m with
  | [] => []
  | (p', u) :: r => if ostr_eqb p p' then r else (p', u) :: nm_remove r p
  end.

(* ------------------------------------------------------------------ utils/namespaces.py *)
(* prefix_exists: uri in ns_map.values() *)
Definition prefix_exists (u : str) (m : nsmap) : bool := existsb (fun e => str_eqb (snd e) u) m.

(* Namespace.get_enum(uri).prefix *)
Fixpoint std_prefix (tbl : list (str * str)) (u : str) : option str :=
  match tbl with
  | [] => None
  | (u', p) :: r => if str_eqb u u' then Some p else std_prefix r u
  end.

Definition s_ns : str := [110; 115].
(* the while loop: first ns<k>, k >= the start, that is not a key.  At most len(ns_map)
   keys can be taken, so len(ns_map)+1 iterations always suffice (`free_ns_free`). *)
Fixpoint free_ns (m : nsmap) (k : N) (fuel : nat) : str :=
  match fuel with
  | O => s_ns ++ to_dec k
  | S f => if nm_has_key m (Some (s_ns ++ to_dec k)) then free_ns m (k + 1) f else s_ns ++ to_dec k
  end.
(* generate_prefix: returns the prefix and the updated map.  Namespace.get_enum is only
   consulted for a truthy uri; the standard prefix is used when ns_map.get(prefix, uri) == uri. *)
Definition generate_prefix (u : str) (m : nsmap) : str * nsmap :=
  let fresh := free_ns m (N.of_nat (length m)) (S (length m)) in
  let p := match (match u with [] => None | _ => std_prefix std_namespaces u end) with
           | Some sp => match nm_get m (Some sp) with
                        | None => sp
                        | Some u' => if str_eqb u' u then sp else fresh
                        end
           | None => fresh
           end in
  (p, nm_set m (Some p) u).

(* load_prefix: first prefix bound to the uri, else generate.  The result may be the
   default prefix (None). *)
Fixpoint find_prefix (u : str) (m : nsmap) : option (option str) :=
  match m with
  | [] => None
  | (p, u') :: r => if str_eqb u' u then Some p else find_prefix u r
  end.
Definition load_prefix (u : str) (m : nsmap) : option str * nsmap :=
  match find_prefix u m with
  | Some p => (p, m)
  | None => let (p, m') := generate_prefix u m in (Some p, m')
  end.

(* clean_prefixes over the raw user map (keys None, "" or text; falsy uris dropped) *)
Definition key_or_none (p : option str) : option str :=
  match p with Some [] => None | _ => p end.
Fixpoint clean_collect (raw : nsmap) (acc : nsmap) : nsmap :=
  match raw with
  | [] => acc
  | (p, u) :: r =>
      match u with
      | [] => clean_collect r acc
      | _ => let p' := key_or_none p in
             if nm_has_key acc p' then clean_collect r acc else clean_collect r (acc ++ [(p', u)])
      end
  end.
Definition truthy_prefix (p : option str) : bool :=
  match p with Some (_ :: _) => true | _ => false end.
Definition clean_prefixes (raw : nsmap) : nsmap :=
  let result := clean_collect raw [] in
  match nm_get result None with
  | Some ((_ :: _) as d) =>
      if existsb (fun e => truthy_prefix (fst e) && str_eqb (snd e) d) result
      then nm_remove result None else result
  | _ => result
  end.
(* XmlSerializer.write: clean_prefixes(ns_map) if ns_map else {} *)
Definition serializer_ns_map (raw : nsmap) : nsmap :=
  match raw with [] => [] | _ => clean_prefixes raw end.

(* text.split(value, sep): partition once; (left, right) if right else (None, left) *)
Definition text_split (sep : N) (s : str) : option str * str :=
  match find_chr sep s with
  | Some i => match skipn (S i) s with
              | [] => (None, firstn i s)
              | rt => (Some (firstn i s), rt)
              end
  | None => (None, s)
  end.

(* split_qname *)
Definition split_qname (s : str) : qname :=
  match s with
  | c :: r =>
      if c =? c_lbrace then
        match text_split c_rbrace r with
        | (Some ((_ :: _) as lf), rt) => (Some lf, rt)
        | _ => (None, s)
        end
      else (None, s)
  | [] => (None, s)            (* the empty string raises IndexError in Python; never an event name *)
  end.

(* build_qname(uri, tag) for a non-empty tag *)
Definition build_qname (q : qname) : str :=
  match fst q with
  | Some ((_ :: _) as u) => [c_lbrace] ++ u ++ [c_rbrace] ++ snd q
  | _ => snd q
  end.

(* ------------------------------------------------------------------ encode_data *)
(* QNameConverter.serialize(value, ns_map): value.text is build_qname of the pair *)
Definition enc_qname (m : nsmap) (q : qname) : str * nsmap :=
  match split_qname (build_qname q) with
  | (None, tag) => (tag, m)
  | (Some u, tag) =>
      let (p, m') := load_prefix u m in
      (match p with Some ((_ :: _) as p') => p' ++ [c_colon] ++ tag | _ => tag end, m')
  end.
Definition enc_atom (m : nsmap) (a : atom) : str * nsmap :=
  match a with
  | AText s => (s, m)
  | AQName q => enc_qname m q
  end.
Fixpoint enc_atoms (m : nsmap) (l : list atom) : list str * nsmap :=
  match l with
  | [] => ([], m)
  | a :: r => let (s, m1) := enc_atom m a in
              let (ss, m2) := enc_atoms m1 r in (s :: ss, m2)
  end.
Definition encode_data (m : nsmap) (v : wvalue) : option str * nsmap :=
  match v with
  | VNone => (None, m)
  | VAtom a => let (s, m') := enc_atom m a in (Some s, m')
  | VList [] => (None, m)
  | VList l => let (ss, m') := enc_atoms m l in (Some (join [c_space] ss), m')
  end.

(* is_xsi_type(qname, value): a str starting with "{" on xsi:type, or naming a DataType *)
Definition q_xsi_type_m : qname := split_qname qn_xsi_type.
Definition q_xsi_nil_m : qname := (Some xsi_uri, xsi_nil_local).
Definition is_xsi_type (q : qname) (v : wvalue) : bool :=
  match v with
  | VAtom (AText s) =>
      startswith [c_lbrace] s && (qname_eqb q q_xsi_type_m || existsb (str_eqb s) datatype_qnames)
  | _ => false
  end.
Definition attr_value_conv (q : qname) (v : wvalue) : wvalue :=
  if is_xsi_type q v then
    match v with
    | VAtom (AText s) => VAtom (AQName (split_qname s))
    | _ => v
    end
  else v.

(* ------------------------------------------------------------------ SAX calls *)
Inductive sax :=
| SStartPrefix (p : option str) (u : str)
| SEndPrefix (p : option str)
| SStartElem (q : qname) (attrs : list (qname * option str))
| SEndElem (q : qname)
| SChars (s : str).

(* ------------------------------------------------------------------ EventHandler *)
Record wconfig := { cfg_schema_location : option str;
                    cfg_no_ns_schema_location : option str;
                    cfg_xml_declaration : bool }.
Definition default_config : wconfig :=
  {| cfg_schema_location := None; cfg_no_ns_schema_location := None; cfg_xml_declaration := false |}.

Definition attrmap := list (qname * option str).
Fixpoint am_set (m : attrmap) (q : qname) (v : option str) : attrmap :=
  match m with
  | [] => [(q, v)]
  | (q', v') :: r => if qname_eqb q q' then (q', v) :: r else (q', v') :: am_set r q v
  end.
Fixpoint am_remove (m : attrmap) (q : qname) : attrmap :=
  match m with
  | [] => []
  | (q', v) :: r => if qname_eqb q q' then r else (q', v) :: am_remove r q
  end.

Record wstate := {
  w_parents : list nsmap;            (* ns_context[:-1], innermost first *)
  w_open : bool;                     (* ns_context is non-empty (then ns_map is its last item) *)
  w_map : nsmap;                     (* self.ns_map *)
  w_pending : option qname;          (* pending_tag *)
  w_attrs : attrmap;
  w_in_tail : bool;
  w_tail : option str;
  w_pp : list (list (option str))    (* pending_prefixes, innermost first *)
}.

Definition set_map (s : wstate) (m : nsmap) : wstate :=
  {| w_parents := w_parents s; w_open := w_open s; w_map := m; w_pending := w_pending s;
     w_attrs := w_attrs s; w_in_tail := w_in_tail s; w_tail := w_tail s; w_pp := w_pp s |}.

(* add_namespace *)
Definition add_namespace (u : option str) (m : nsmap) : nsmap :=
  match u with
  | Some ((_ :: _) as u') => if prefix_exists u' m then m else snd (generate_prefix u' m)
  | _ => m
  end.

(* add_namespace(uri, prefixed=True): attributes need a non default prefix *)
Definition prefixed_exists (u : str) (m : nsmap) : bool :=
  existsb (fun e => truthy_prefix (fst e) && str_eqb (snd e) u) m.
Definition add_namespace_attr (u : option str) (m : nsmap) : nsmap :=
  match u with
  | Some ((_ :: _) as u') => if prefixed_exists u' m then m else snd (generate_prefix u' m)
  | _ => m
  end.

Definition truthy (o : option str) : bool := match o with Some (_ :: _) => true | _ => false end.

(* start_namespaces: entries of ns_map that differ from the parent's *)
Definition changed_entries (parent m : nsmap) : nsmap :=
  filter (fun e => negb (ostr_eqb (nm_get parent (fst e)) (Some (snd e)))) m.

(* flush_start *)
Definition flush_start (is_nil : bool) (s : wstate) : wstate * list sax :=
  match w_pending s with
  | None => (s, [])
  | Some tag =>
      let attrs := if is_nil then w_attrs s else am_remove (w_attrs s) q_xsi_nil_m in
      let m1 := fold_left (fun m a => add_namespace_attr (fst (fst a)) m) attrs (w_map s) in
      (* reset_default_namespace *)
      let m2 := if negb (truthy (fst tag)) && nm_has_key m1 None then nm_set m1 None [] else m1 in
      let parent := match w_parents s with p :: _ => p | [] => [] end in
      let ch := changed_entries parent m2 in
      ({| w_parents := w_parents s; w_open := w_open s; w_map := m2; w_pending := None; w_attrs := [];
          w_in_tail := false; w_tail := w_tail s; w_pp := map fst ch :: w_pp s |},
       map (fun e => SStartPrefix (fst e) (snd e)) ch ++ [SStartElem tag attrs])
  end.

Definition wres := (wstate * list sax * option perr)%type.

Definition start_tag (q : qname) (s : wstate) : wres :=
  let (s1, out) := flush_start false s in
  let parents := if w_open s1 then w_map s1 :: w_parents s1 else w_parents s1 in
  ({| w_parents := parents; w_open := true; w_map := add_namespace (fst q) (w_map s1);
      w_pending := Some q; w_attrs := w_attrs s1; w_in_tail := w_in_tail s1; w_tail := w_tail s1;
      w_pp := w_pp s1 |}, out, None).

Definition add_attribute (root : bool) (q : qname) (v : wvalue) (s : wstate) : wres :=
  match w_pending s, root with
  | None, false => (s, [], Some PyXmlWriterError)
  | _, _ =>
      let (enc, m) := encode_data (w_map s) (attr_value_conv q v) in
      ({| w_parents := w_parents s; w_open := w_open s; w_map := m; w_pending := w_pending s;
          w_attrs := am_set (w_attrs s) q enc; w_in_tail := w_in_tail s; w_tail := w_tail s;
          w_pp := w_pp s |}, [], None)
  end.

Definition set_data (v : wvalue) (s : wstate) : wres :=
  let (enc, m) := encode_data (w_map s) v in
  let (s1, out) := flush_start (match enc with None => true | Some _ => false end) (set_map s m) in
  ({| w_parents := w_parents s1; w_open := w_open s1; w_map := w_map s1; w_pending := w_pending s1;
      w_attrs := w_attrs s1; w_in_tail := true; w_tail := w_tail s1; w_pp := w_pp s1 |},
   out ++ (match enc with Some ((_ :: _) as txt) => [SChars txt] | _ => [] end), None).

Definition end_tag (q : qname) (s : wstate) : wres :=
  let (s1, out0) := flush_start true s in
  let out1 := out0 ++ [SEndElem q] ++ (match w_tail s1 with Some ((_ :: _) as t) => [SChars t] | _ => [] end) in
  if negb (w_open s1) then (s1, out1, Some PyIndexError)            (* ns_context.pop() on [] *)
  else
    let '(parents, open, m) :=
      match w_parents s1 with
      | p :: ps => (ps, true, p)
      | [] => ([], false, w_map s1)
      end in
    match w_pp s1 with
    | [] => ({| w_parents := parents; w_open := open; w_map := m; w_pending := w_pending s1;
                w_attrs := w_attrs s1; w_in_tail := false; w_tail := None; w_pp := [] |},
             out1, Some PyIndexError)
    | prefixes :: pps =>
        ({| w_parents := parents; w_open := open; w_map := m; w_pending := w_pending s1;
            w_attrs := w_attrs s1; w_in_tail := false; w_tail := None; w_pp := pps |},
         out1 ++ map SEndPrefix prefixes, None)
    end.

Definition wstep (s : wstate) (e : wevent) : wres :=
  match e with
  | WStart q => start_tag q s
  | WAttr q v => add_attribute false q v s
  | WData v => set_data v s
  | WEnd q => end_tag q s
  end.

(* EventHandler.__init__ + the root attributes of write() *)
Definition winit (cfg : wconfig) (user : nsmap) : wstate :=
  let s0 := {| w_parents := []; w_open := false; w_map := user; w_pending := None; w_attrs := [];
               w_in_tail := false; w_tail := None; w_pp := [] |} in
  let s1 := match cfg_schema_location cfg with
            | Some v => fst (fst (add_attribute true (split_qname qn_xsi_schema_location) (VAtom (AText v)) s0))
            | None => s0 end in
  match cfg_no_ns_schema_location cfg with
  | Some v => fst (fst (add_attribute true (split_qname qn_xsi_no_namespace_schema_location) (VAtom (AText v)) s1))
  | None => s1
  end.

(* ------------------------------------------------------------------ sink 1: XMLGenerator *)
(* escape: three sequential str.replace calls; each key is one character *)
Definition replace_chr (c : N) (by_ : str) (s : str) : str :=
  flat_map (fun x => if x =? c then by_ else [x]) s.
Definition e_amp : str := [38;97;109;112;59].
Definition e_gt : str := [38;103;116;59].
Definition e_lt : str := [38;108;116;59].
Definition e_quot : str := [38;113;117;111;116;59].
Definition e_nl : str := [38;35;49;48;59].
Definition e_cr : str := [38;35;49;51;59].
Definition e_tab : str := [38;35;57;59].
Definition sax_escape (s : str) : str :=
  replace_chr c_lt e_lt (replace_chr c_gt e_gt (replace_chr c_amp e_amp s)).
(* XmlEventWriter's XMLGenerator subclass: characters() = escape(content, {"\r": "&#13;"}) *)
Definition sax_escape_text (s : str) : str := replace_chr 13 e_cr (sax_escape s).
(* the generator subclass's startPrefixMapping: escape(uri, entities) with entities for
   LF, CR, TAB and the double quote, in that order *)
Definition sax_escape_uri (s : str) : str :=
  replace_chr c_quot e_quot (replace_chr 9 e_tab (replace_chr 13 e_cr (replace_chr 10 e_nl (sax_escape s)))).
Definition sax_quoteattr (s : str) : str :=
  let d := replace_chr 9 e_tab (replace_chr 13 e_cr (replace_chr 10 e_nl (sax_escape s))) in
  if mem c_quot d then
    if mem c_apos d then [c_quot] ++ replace_chr c_quot e_quot d ++ [c_quot]
    else [c_apos] ++ d ++ [c_apos]
  else [c_quot] ++ d ++ [c_quot].

Definition nctx := list (str * option str).        (* uri -> prefix *)
Fixpoint nc_get (c : nctx) (u : str) : option (option str) :=
  match c with
  | [] => None
  | (u', p) :: r => if str_eqb u u' then Some p else nc_get r u
  end.
Fixpoint nc_set (c : nctx) (u : str) (p : option str) : nctx :=
  match c with
  | [] => [(u, p)]
  | (u', p') :: r => if str_eqb u u' then (u', p) :: r else (u', p') :: nc_set r u p
  end.

Record nstate := {
  n_saved : list nctx;                      (* _ns_contexts above the initial one *)
  n_cur : nctx;                             (* _current_context *)
  n_undecl : list (option str * str);       (* _undeclared_ns_maps *)
  n_pend : option (str * list (option str * str) * list (str * str));   (* written "<name ..." not yet closed *)
  n_out : list xtoken                       (* reversed *)
}.
Definition ninit : nstate := {| n_saved := []; n_cur := []; n_undecl := []; n_pend := None; n_out := [] |}.

(* the literal in saxutils._qname *)
Definition sax_xml_ns : str := ns_xml.
Definition n_qname (c : nctx) (q : qname) : option str :=           (* None = KeyError *)
  match fst q with
  | Some ((_ :: _) as u) =>
      if str_eqb sax_xml_ns u then Some (s_xml ++ [c_colon] ++ snd q)
      else match nc_get c u with
           | None => None
           | Some (Some ((_ :: _) as p)) => Some (p ++ [c_colon] ++ snd q)
           | Some _ => Some (snd q)
           end
  | _ => Some (snd q)
  end.

Definition n_finish (s : nstate) : nstate :=
  match n_pend s with
  | Some (n, ds, ats) => {| n_saved := n_saved s; n_cur := n_cur s; n_undecl := n_undecl s; n_pend := None;
                            n_out := XStart n ds ats :: n_out s |}
  | None => s
  end.

Fixpoint n_attrs (c : nctx) (l : list (qname * option str)) : list (str * str) + perr :=
  match l with
  | [] => inl []
  | (q, v) :: r =>
      match n_qname c q with
      | None => inr PyKeyError
      | Some n => match v with
                  | None => inr PyAttributeError       (* quoteattr(None) *)
                  | Some t => match n_attrs c r with
                              | inl ats => inl ((n, sax_quoteattr t) :: ats)
                              | inr e => inr e
                              end
                  end
      end
  end.

Definition nstep (s : nstate) (c : sax) : nstate + perr :=
  match c with
  | SStartPrefix p u =>
      inl {| n_saved := n_cur s :: n_saved s; n_cur := nc_set (n_cur s) u p;
             n_undecl := n_undecl s ++ [(p, sax_escape_uri u)]; n_pend := n_pend s; n_out := n_out s |}
  | SEndPrefix _ =>
      match n_saved s with
      | c0 :: rest => inl {| n_saved := rest; n_cur := c0; n_undecl := n_undecl s; n_pend := n_pend s;
                             n_out := n_out s |}
      | [] => inr SinkUnmodelled          (* more endPrefixMapping than startPrefixMapping: never produced *)
      end
  | SStartElem q attrs =>
      let s1 := n_finish s in
      match n_qname (n_cur s1) q with
      | None => inr PyKeyError
      | Some n =>
          (* a default-prefix declaration is written as xmlns="uri" for every falsy prefix *)
          let ds := map (fun d => (match fst d with Some (_ :: _) => fst d | _ => None end, snd d)) (n_undecl s1) in
          match n_attrs (n_cur s1) attrs with
          | inr e => inr e
          | inl ats => inl {| n_saved := n_saved s1; n_cur := n_cur s1; n_undecl := [];
                              n_pend := Some (n, ds, ats); n_out := n_out s1 |}
          end
      end
  | SEndElem q =>
      match n_pend s with
      | Some (n, ds, ats) => inl {| n_saved := n_saved s; n_cur := n_cur s; n_undecl := n_undecl s;
                                    n_pend := None; n_out := XEmpty n ds ats :: n_out s |}
      | None => match n_qname (n_cur s) q with
                | None => inr PyKeyError
                | Some n => inl {| n_saved := n_saved s; n_cur := n_cur s; n_undecl := n_undecl s;
                                   n_pend := None; n_out := XEnd n :: n_out s |}
                end
      end
  | SChars t =>
      match t with
      | [] => inl s
      | _ => let s1 := n_finish s in
             inl {| n_saved := n_saved s1; n_cur := n_cur s1; n_undecl := n_undecl s1; n_pend := None;
                    n_out := XText (sax_escape_text t) :: n_out s1 |}
      end
  end.

Fixpoint nsteps (s : nstate) (l : list sax) : nstate + perr :=
  match l with
  | [] => inl s
  | c :: r => match nstep s c with inl s' => nsteps s' r | inr e => inr e end
  end.

(* ------------------------------------------------------------------ sink 2: lxml ElementTreeContentHandler *)
Record lframe := { lf_tag : qname; lf_ns : list (option str * str); lf_attrs : list (qname * str);
                   lf_kids : list inode (* reversed *) }.
Record lstate := {
  l_default : option str;                 (* _default_ns *)
  l_dstack : list (option str);           (* _ns_mapping[None], last item first *)
  l_new : nsmap;                          (* _new_mappings *)
  l_stack : list lframe;                  (* _element_stack, innermost first *)
  l_root : option inode                   (* the finished document element *)
}.
Definition linit : lstate :=
  {| l_default := None; l_dstack := [None]; l_new := []; l_stack := []; l_root := None |}.

Definition l_build_tag (d : option str) (q : qname) : qname :=
  match fst q with
  | Some (_ :: _) => q
  | _ => match d with Some ((_ :: _) as u) => (Some u, snd q) | _ => (None, snd q) end
  end.

(* the domain on which lxml's own validation (tag/attribute names, prefixes, namespace
   URIs, text) is known to accept the input; outside it the sink model abstains *)
Definition uri_safe_char (c : N) : bool :=
  in_range 48 57 c || in_range 65 90 c || in_range 97 122 c
  || mem c [c_colon; 47; 46; 45; 95; c_hash; 38; 63; 61; 37; 126; 43].
Definition l_uri_ok (u : str) : bool := forallb uri_safe_char u.
Definition l_prefix_ok (p : option str) : bool :=
  match p with
  | None => true
  | Some p' => is_ncname p' && negb (str_eqb p' s_xml) && negb (str_eqb p' s_xmlns)
  end.
Definition l_text_ok (s : str) : bool := forallb is_xml_char s.
Definition l_qname_ok (q : qname) : bool :=
  is_ncname (snd q) && match fst q with Some u => l_uri_ok u | None => true end.

Fixpoint l_attrs (l : list (qname * option str)) : list (qname * str) + perr :=
  match l with
  | [] => inl []
  | (q, v) :: r =>
      match v with
      | None => inr PyTypeError
      | Some t =>
          (* an unqualified attribute called xmlns is printed by libxml2 as a namespace
             declaration: outside "the serialiser prints the tree it was given" *)
          if l_qname_ok q && l_text_ok t
             && negb (match fst q with None => str_eqb (snd q) s_xmlns | Some _ => false end) then
            match l_attrs r with inl ats => inl ((q, t) :: ats) | inr e => inr e end
          else inr SinkUnmodelled
      end
  end.

Definition l_add_kid (k : inode) (s : lstate) : lstate + perr :=
  match l_stack s with
  | f :: rest => inl {| l_default := l_default s; l_dstack := l_dstack s; l_new := l_new s;
                        l_stack := {| lf_tag := lf_tag f; lf_ns := lf_ns f; lf_attrs := lf_attrs f;
                                      lf_kids := k :: lf_kids f |} :: rest;
                        l_root := l_root s |}
  | [] => inr PyIndexError
  end.

Definition lstep (s : lstate) (c : sax) : lstate + perr :=
  match c with
  | SStartPrefix p u =>
      (* xml -> its own namespace: libxml2 knows that binding and prints no declaration for
         it; the model records it like any other in-scope binding (it is always in scope) *)
      if (ostr_eqb p (Some s_xml) && str_eqb u ns_xml)
         || (l_prefix_ok p && l_uri_ok u && negb (str_eqb u ns_xml) && negb (str_eqb u ns_xmlns)) then
        inl {| l_default := match p with None => Some u | Some _ => l_default s end;
               l_dstack := match p with None => Some u :: l_dstack s | Some _ => l_dstack s end;
               l_new := nm_set (l_new s) p u; l_stack := l_stack s; l_root := l_root s |}
      else inr SinkUnmodelled
  | SEndPrefix p =>
      match p with
      | Some _ => inl s
      | None => match l_dstack s with
                | _ :: ((d :: _) as rest) => inl {| l_default := d; l_dstack := rest; l_new := l_new s;
                                                    l_stack := l_stack s; l_root := l_root s |}
                | _ => inr PyIndexError
                end
      end
  | SStartElem q attrs =>
      let tag := l_build_tag (l_default s) q in
      if negb (l_qname_ok tag) then inr SinkUnmodelled else
      match l_attrs attrs with
      | inr e => inr e
      | inl ats =>
          match l_root s, l_stack s with
          | Some _, [] => inr PyIndexError               (* element_stack[-1] for a second root *)
          | _, _ => inl {| l_default := l_default s; l_dstack := l_dstack s; l_new := [];
                           l_stack := {| lf_tag := tag; lf_ns := l_new s; lf_attrs := ats; lf_kids := [] |}
                                      :: l_stack s;
                           l_root := l_root s |}
          end
      end
  | SEndElem q =>
      match l_stack s with
      | [] => inr PyIndexError
      | f :: rest =>
          if qname_eqb (l_build_tag (l_default s) q) (lf_tag f) then
            let el := IElem (lf_tag f) (lf_ns f) (lf_attrs f) (merge_text (rev (lf_kids f))) in
            match rest with
            | [] => inl {| l_default := l_default s; l_dstack := l_dstack s; l_new := l_new s;
                           l_stack := []; l_root := Some el |}
            | _ => l_add_kid el {| l_default := l_default s; l_dstack := l_dstack s; l_new := l_new s;
                                   l_stack := rest; l_root := l_root s |}
            end
          else inr PySaxError
      end
  | SChars t =>
      match l_stack s with
      | [] => inr PyIndexError
      | _ => if l_text_ok t then l_add_kid (IText t) s else inr SinkUnmodelled
      end
  end.

Fixpoint lsteps (s : lstate) (l : list sax) : lstate + perr :=
  match l with
  | [] => inl s
  | c :: r => match lstep s c with inl s' => lsteps s' r | inr e => inr e end
  end.

(* ------------------------------------------------------------------ the whole writer *)
Section Run.
  Context {S : Type} (sink : S -> list sax -> S + perr).

  Fixpoint run_events (w : wstate) (k : S) (evs : list wevent) : (wstate * S) + perr :=
    match evs with
    | [] => inl (w, k)
    | e :: r =>
        let '(w', out, err) := wstep w e in
        match sink k out with
        | inr x => inr x                       (* the handler raised first *)
        | inl k' => match err with
                    | Some x => inr x
                    | None => run_events w' k' r
                    end
        end
    end.
End Run.

Definition xml_decl : str :=
  (* <?xml version="1.0" encoding="UTF-8"?>\n *)
  [60;63;120;109;108;32;118;101;114;115;105;111;110;61;34;49;46;48;34;32;101;110;99;111;100;105;110;103;61;34;85;84;70;45;56;34;63;62;10].

(* XmlEventWriter(config, out, ns_map=clean_prefixes(user)).write(events) -> the tokens written *)
Definition run_native (cfg : wconfig) (user : nsmap) (evs : list wevent) : xdoc + perr :=
  match run_events nsteps (winit cfg (serializer_ns_map user)) ninit evs with
  | inl (_, k) => inl (rev (n_out k))
  | inr e => inr e
  end.
Definition native_text (cfg : wconfig) (d : xdoc) : str :=
  (if cfg_xml_declaration cfg then xml_decl else []) ++ print_xdoc d.

(* LxmlEventWriter: the tree handed to etree.tostring *)
Definition run_lxml (cfg : wconfig) (user : nsmap) (evs : list wevent) : inode + perr :=
  match run_events lsteps (winit cfg (serializer_ns_map user)) linit evs with
  | inl (_, k) => match l_root k with
                  | Some t => inl t
                  | None => inr PyAttributeError      (* etree.tostring of an empty tree: not reachable with a root *)
                  end
  | inr e => inr e
  end.

(* ================================================================== event trees
   A well-nested event list denotes a tree; the guards of the theorems are stated on
   that tree.  `parse_item` is the recogniser (fuel = length + 1 suffices). *)
Inductive item :=
| IData (v : wvalue)
| INode (q : qname) (attrs : list (qname * wvalue)) (kids : list item).

Fixpoint flatten (i : item) : list wevent :=
  match i with
  | IData v => [WData v]
  | INode q ats ks =>
      WStart q :: map (fun a => WAttr (fst a) (snd a)) ats ++ flat_map flatten ks ++ [WEnd q]
  end.

Fixpoint take_attrs (evs : list wevent) : list (qname * wvalue) * list wevent :=
  match evs with
  | WAttr q v :: r => let (a, r') := take_attrs r in ((q, v) :: a, r')
  | _ => ([], evs)
  end.

Fixpoint parse_item (fuel : nat) (evs : list wevent) : option (item * list wevent) :=
  match fuel with
  | O => None
  | S f =>
      match evs with
      | WData v :: r => Some (IData v, r)
      | WStart q :: r =>
          let (ats, r1) := take_attrs r in
          match parse_items f r1 with
          | Some (ks, WEnd q' :: r2) => if qname_eqb q q' then Some (INode q ats ks, r2) else None
          | _ => None
          end
      | _ => None
      end
  end
with parse_items (fuel : nat) (evs : list wevent) : option (list item * list wevent) :=
  match fuel with
  | O => None
  | S f =>
      match evs with
      | WData _ :: _ | WStart _ :: _ =>
          match parse_item f evs with
          | Some (i, r) => match parse_items f r with
                           | Some (ks, r') => Some (i :: ks, r')
                           | None => None
                           end
          | None => None
          end
      | _ => Some ([], evs)
      end
  end.

(* the document the event list denotes: one element, nothing after it *)
Definition doc_tree (evs : list wevent) : option item :=
  match parse_item (S (length evs)) evs with
  | Some (INode q ats ks, []) => Some (INode q ats ks)
  | _ => None
  end.
Definition well_nested_b (evs : list wevent) : bool :=
  match doc_tree evs with Some _ => true | None => false end.
Definition on_tree (P : item -> bool) (evs : list wevent) : bool :=
  match doc_tree evs with Some t => P t | None => true end.

(* a predicate on every element (name, attributes, content) and every data value *)
Fixpoint all_nodes (P : qname -> list (qname * wvalue) -> list item -> bool) (D : wvalue -> bool)
         (i : item) : bool :=
  match i with
  | IData v => D v
  | INode q ats ks => P q ats ks && forallb (all_nodes P D) ks
  end.

(* ================================================================== guards
   Computable side conditions of the theorems.  One clause per refutation lemma in
   Proofs/WriterRefute.v; `writer_guard` is their conjunction. *)

Definition value_atoms (v : wvalue) : list atom :=
  match v with VNone => [] | VAtom a => [a] | VList l => l end.
(* encode_data gives None *)
Definition value_none (v : wvalue) : bool :=
  match v with VNone => true | VList [] => true | _ => false end.
(* encode_data gives None or "" : nothing is written *)
Definition value_falsy (v : wvalue) : bool :=
  match v with
  | VNone => true | VList [] => true
  | VAtom (AText []) => true | VList [AText []] => true
  | _ => false
  end.

Definition atom_qnames (a : atom) : list qname := match a with AQName q => [q] | AText _ => [] end.
Definition value_qnames (v : wvalue) : list qname := flat_map atom_qnames (value_atoms v).
Definition value_texts (v : wvalue) : list str :=
  flat_map (fun a => match a with AText s => [s] | AQName _ => [] end) (value_atoms v).
(* an attribute value as add_attribute sees it *)
Definition attr_conv (a : qname * wvalue) : wvalue := attr_value_conv (fst a) (snd a).

(* -- clause: names are XML names, namespace names are XML text without '}' ---------- *)
Definition uri_char_ok (c : N) : bool := is_xml_char c && negb (c =? c_rbrace).
Definition uri_ok (u : str) : bool :=
  match u with [] => false | _ => forallb uri_char_ok u && negb (str_eqb u ns_xmlns) end.
Definition ouri_ok (u : option str) : bool := match u with Some u' => uri_ok u' | None => true end.
Definition name_ok (q : qname) : bool := is_ncname (snd q) && ouri_ok (fst q).
Definition attr_name_ok (q : qname) : bool :=
  name_ok q && negb (match fst q with None => str_eqb (snd q) s_xmlns | Some _ => false end).
Definition t_names_ok : item -> bool :=
  all_nodes (fun q ats _ => name_ok q && forallb (fun a => attr_name_ok (fst a)) ats
                            && forallb (fun a => forallb name_ok (value_qnames (attr_conv a))) ats)
            (fun v => forallb name_ok (value_qnames v)).
Definition names_ok (evs : list wevent) : bool := on_tree t_names_ok evs.
(* the part of names_ok that is about namespace names only (finding: hostile URI) *)
Definition t_uris_ok : item -> bool :=
  all_nodes (fun q ats _ => ouri_ok (fst q) && forallb (fun a => ouri_ok (fst (fst a))) ats
                            && forallb (fun a => forallb (fun x => ouri_ok (fst x)) (value_qnames (attr_conv a))) ats)
            (fun v => forallb (fun x => ouri_ok (fst x)) (value_qnames v)).
Definition uris_ok (evs : list wevent) : bool := on_tree t_uris_ok evs.

(* -- clause: text is XML text ---------------------------------------------------------- *)
Definition t_texts_ok : item -> bool :=
  all_nodes (fun _ ats _ => forallb (fun a => forallb (forallb is_xml_char) (value_texts (attr_conv a))) ats)
            (fun v => forallb (forallb is_xml_char) (value_texts v)).
Definition cfg_texts_ok (cfg : wconfig) : bool :=
  forallb (fun o => match o with
                    | Some s => forallb is_xml_char s && negb (startswith [c_lbrace] s)
                    | None => true end)
          [cfg_schema_location cfg; cfg_no_ns_schema_location cfg].
Definition texts_ok (cfg : wconfig) (evs : list wevent) : bool := on_tree t_texts_ok evs && cfg_texts_ok cfg.
(* -- clause: user prefixes ---------------------------------------------------------------- *)
Definition user_prefix_legal (e : option str * str) : bool :=
  match fst e with
  | None => true
  | Some p => is_ncname p && negb (str_eqb p s_xml) && negb (str_eqb p s_xmlns)
  end && uri_ok (snd e) && negb (str_eqb (snd e) ns_xml).
Definition user_prefixes_legal (user : nsmap) : bool := forallb user_prefix_legal (serializer_ns_map user).

(* -- scoped clauses ------------------------------------------------------------------------ *)
Definition has_ns_qname (v : wvalue) : bool :=
  existsb (fun q => match fst q with Some (_ :: _) => true | _ => false end) (value_qnames v).
(* a QName in character data after the start tag was written may need a prefix that
   can no longer be declared *)
Definition late_ok (ks : list item) : bool :=
  match ks with
  | [] => true
  | _ :: r => forallb (fun k => match k with IData v => negb (has_ns_qname v) | INode _ _ _ => true end) r
  end.
Definition t_no_late_qname : item -> bool := all_nodes (fun _ _ ks => late_ok ks) (fun _ => true).
Definition no_late_qname_data (evs : list wevent) : bool := on_tree t_no_late_qname evs.

Definition q_xsi_nil_pair (q : qname) : bool := qname_eqb q q_xsi_nil_m.
Definition has_nil (ats : list (qname * wvalue)) : bool := existsb (fun a => q_xsi_nil_pair (fst a)) ats.
(* xsi:nil survives a None data event; content may still follow *)
Definition nil_ok (ats : list (qname * wvalue)) (ks : list item) : bool :=
  match ks with
  | IData v :: r =>
      if has_nil ats && value_none v
      then forallb (fun k => match k with IData v' => value_none v' | INode _ _ _ => false end) r
      else true
  | _ => true
  end.
Definition t_nil_ok : item -> bool := all_nodes (fun _ ats ks => nil_ok ats ks) (fun _ => true).
Definition nil_content_ok (evs : list wevent) : bool := on_tree t_nil_ok evs.

Definition user_default (user : nsmap) : option str := nm_get (serializer_ns_map user) None.

(* a QName value in the user's default namespace is printed bare; an unqualified element
   then resets the default namespace *)
Definition no_qname_in (u0 : str) (v : wvalue) : bool :=
  negb (existsb (fun q => ostr_eqb (fst q) (Some u0)) (value_qnames v)).
Definition t_default_qname_ok (u0 : str) : item -> bool :=
  all_nodes (fun q ats ks =>
               match fst q with
               | Some (_ :: _) => true
               | _ => forallb (fun a => no_qname_in u0 (attr_conv a)) ats
                      && forallb (fun k => match k with IData v => no_qname_in u0 v | INode _ _ _ => true end) ks
               end) (fun _ => true).
Definition default_qname_ok (user : nsmap) (evs : list wevent) : bool :=
  match user_default user with
  | None => true
  | Some u0 => on_tree (t_default_qname_ok u0) evs
  end.

(* a str attribute value that spells a schema datatype in Clark notation is re-written *)
Definition t_no_clark : item -> bool :=
  all_nodes (fun _ ats _ =>
               forallb (fun a => match snd a with
                                 | VAtom (AText s) =>
                                     qname_eqb (fst a) q_xsi_type_m || negb (existsb (str_eqb s) datatype_qnames)
                                 | _ => true end) ats) (fun _ => true).
Definition no_clark_datatype_text (evs : list wevent) : bool := on_tree t_no_clark evs.

(* grammar: attribute events carry a value (EventGenerator skips None attributes) *)
Definition t_attrs_present : item -> bool :=
  all_nodes (fun _ ats _ => forallb (fun a => negb (value_none (snd a))) ats) (fun _ => true).
Definition events_wf (evs : list wevent) : bool := well_nested_b evs && on_tree t_attrs_present evs.

Definition user_map_ok (cfg : wconfig) (user : nsmap) (evs : list wevent) : bool :=
  user_prefixes_legal user && default_qname_ok user evs.

Definition events_ok (cfg : wconfig) (evs : list wevent) : bool :=
  names_ok evs && texts_ok cfg evs
  && no_late_qname_data evs && nil_content_ok evs && no_clark_datatype_text evs && events_wf evs.

Definition writer_guard (cfg : wconfig) (user : nsmap) (evs : list wevent) : bool :=
  user_map_ok cfg user evs && events_ok cfg evs.

(* the lxml sink model abstains outside this domain *)
Definition t_lxml_uris : item -> bool :=
  all_nodes (fun q ats _ => match fst q with Some u => l_uri_ok u | None => true end
                            && forallb (fun a => match fst (fst a) with Some u => l_uri_ok u | None => true end) ats
                            && forallb (fun a => forallb (fun x => match fst x with Some u => l_uri_ok u | None => true end)
                                                         (value_qnames (attr_conv a))) ats)
            (fun v => forallb (fun x => match fst x with Some u => l_uri_ok u | None => true end) (value_qnames v)).
Definition lxml_domain (cfg : wconfig) (user : nsmap) (evs : list wevent) : bool :=
  forallb (fun e => l_uri_ok (snd e)) (serializer_ns_map user) && on_tree t_lxml_uris evs.

(* ================================================================== statements *)
(* what the document must say: the events, plus the configured root attributes *)
Definition expected (cfg : wconfig) (evs : list wevent) : option enode :=
  expected_tree (cfg_schema_location cfg) (cfg_no_ns_schema_location cfg) evs.

(* the clauses of writer_guard, in a fixed order (used by the refutation lemmas) *)
Definition clause_vector (cfg : wconfig) (user : nsmap) (evs : list wevent) : list bool :=
  [ user_prefixes_legal user;
    default_qname_ok user evs; names_ok evs; texts_ok cfg evs;
    no_late_qname_data evs; nil_content_ok evs; no_clark_datatype_text evs;
    events_wf evs ].

(* C03 for one input, native writer: the output is well-formed, namespace-well-formed and
   says what the events say — or the call failed with the sanctioned writer error *)
Definition native_sound_b (cfg : wconfig) (user : nsmap) (evs : list wevent) : bool :=
  match expected cfg evs with
  | None => true
  | Some e =>
      match run_native cfg user evs with
      | inl d => match resolve d with Some t => doc_says e t | None => false end
      | inr err => perr_eqb err PyXmlWriterError
      end
  end.
Definition lxml_sound_b (cfg : wconfig) (user : nsmap) (evs : list wevent) : bool :=
  match expected cfg evs with
  | None => true
  | Some e =>
      match run_lxml cfg user evs with
      | inl t => doc_says e t
      | inr err => perr_eqb err PyXmlWriterError
      end
  end.
