(* Model/Dates.v — executable model of xsdata/utils/dates.py and of the
   from_string/__str__/duration/_cmp parts of xsdata/models/datatype.py.
   Faithful, including the lax and wrong corners; no proofs here. *)
From Coq Require Import NArith ZArith List Bool Lia PrimFloat Uint63.
From XV Require Import Base.Str Base.Dec Base.PyInt Gen.DatesTables.
Import ListNotations.
Open Scope Z_scope.

(* ---------- validate_date / validate_time / monthlen ---------------- *)
(* calendar.isleap *)
Definition isleap (y : Z) : bool :=
  (y mod 4 =? 0) && (negb (y mod 100 =? 0) || (y mod 400 =? 0)).

Definition monthlen (year month : Z) : Z :=
  nth (Z.to_nat month) mdays 0 + (if (month =? 2) && isleap year then 1 else 0).

Definition validate_date (year month day : Z) : bool :=
  if negb ((1 <=? month) && (month <=? 12)) then false
  else (1 <=? day) && (day <=? monthlen year month).

Definition validate_time (hour minute second frac : Z) : bool :=
  if negb ((0 <=? hour) && (hour <=? 24)) then false
  else if (hour =? 24) && (negb (minute =? 0) || negb (second =? 0) || negb (frac =? 0)) then false
  else if negb ((0 <=? minute) && (minute <=? 59)) then false
  else if negb ((0 <=? second) && (second <=? 59)) then false
  else (0 <=? frac) && (frac <=? 999999999).

(* ---------- formatting ---------------------------------------------- *)
Definition format_date (year month day : Z) : str :=
  (if year <? 0 then [45%N] ++ fmt_0wd 4 (- year) else fmt_0wd 4 year)
  ++ [45%N] ++ fmt_0wd 2 month ++ [45%N] ++ fmt_0wd 2 day.

Definition hms (hour minute second : Z) : str :=
  fmt_0wd 2 hour ++ [58%N] ++ fmt_0wd 2 minute ++ [58%N] ++ fmt_0wd 2 second.

Definition format_time (hour minute second frac : Z) : str :=
  if frac =? 0 then hms hour minute second
  else
    let microsecond := frac / 1000 in
    let nano := frac mod 1000 in
    if negb (nano =? 0) then hms hour minute second ++ [46%N] ++ fmt_0wd 9 frac
    else
      let milli := microsecond / 1000 in
      let micro := microsecond mod 1000 in
      if negb (micro =? 0) then hms hour minute second ++ [46%N] ++ fmt_0wd 6 microsecond
      else hms hour minute second ++ [46%N] ++ fmt_0wd 3 milli.

Definition format_offset (offset : option Z) : str :=
  match offset with
  | None => []
  | Some o =>
      if o =? 0 then [90%N]
      else
        let sign := if o <? 0 then 45%N else 43%N in
        let a := if o <? 0 then - o else o in
        [sign] ++ fmt_0wd 2 (a / 60) ++ [58%N] ++ fmt_0wd 2 (a mod 60)
  end.

(* ---------- DateTimeParser ------------------------------------------ *)
(* State = the not yet consumed suffix of the (already stripped) value.  A
   slice that would run past the end always ends in ValueError in the code
   (every format ends with %z, which then leaves vidx <> vlen): modelled as
   immediate failure. *)
Definition res (A : Type) := option (A * str).

Definition skip (c : N) (s : str) : option str :=
  match s with
  | x :: r => if N.eqb x c then Some r else None
  | [] => None
  end.

Definition parse_digits (n : nat) (s : str) : res Z :=
  if (length s <? n)%nat then None
  else match py_int (firstn n s) with
       | Some z => Some (z, skipn n s)
       | None => None
       end.

Definition year_lz_bad (lz : nat) (year : Z) : bool :=
  ((lz =? 1)%nat && (999 <? year)) || ((lz =? 2)%nat && (99 <? year))
  || ((lz =? 3)%nat && (9 <? year)) || ((lz =? 4)%nat && (0 <? year))
  || (4 <? lz)%nat.

Definition parse_year (s : str) : res Z :=
  match s with
  | [] => None                         (* peek() on the empty string *)
  | c0 :: r0 =>
      let negative := N.eqb c0 45 in
      let s1 := if negative then r0 else s in
      if (length s1 <? 4)%nat then None
      else
        let '(more, rest) := span py_isdigit (skipn 4 s1) in
        let raw := firstn 4 s1 ++ more in
        match py_int raw with
        | None => None
        | Some year =>
            if year_lz_bad (count_leading 48 raw) year then None
            else Some (if negative then - year else year, rest)
        end
  end.

Fixpoint span_max (n : nat) (p : N -> bool) (s : str) : str * str :=
  match n, s with
  | S k, c :: r => if p c then let '(a, b) := span_max k p r in (c :: a, b) else ([], s)
  | _, _ => ([], s)
  end.

Definition parse_fractional_second (s : str) : res Z :=
  match s with
  | 46%N :: r =>
      let '(ds, rest) := span_max 9 py_isdigit r in
      match py_int (ljust 9 48 ds) with
      | Some z => Some (z, rest)
      | None => None
      end
  | _ => Some (0, s)
  end.

Definition parse_offset (s : str) : res (option Z) :=
  match s with
  | [] => Some (None, [])
  | c :: r =>
      if N.eqb c 90 then Some (Some 0, r)
      else if N.eqb c 45 || N.eqb c 43 then
        match parse_digits 2 r with
        | None => None
        | Some (hh, r1) =>
            match skip 58 r1 with
            | None => None
            | Some r2 =>
                match parse_digits 2 r2 with
                | None => None
                | Some (mm, r3) =>
                    let off := hh * 60 + mm in
                    Some (Some (if N.eqb c 45 then off * -1 else off * 1), r3)
                end
            end
        end
      else None
  end.

Definition parse_var (v : N) (s : str) : res (list (option Z)) :=
  if mem v simple_two_digits_formats then
    match parse_digits 2 s with Some (z, r) => Some ([Some z], r) | None => None end
  else if N.eqb v 89 then
    match parse_year s with Some (z, r) => Some ([Some z], r) | None => None end
  else if N.eqb v 83 then
    match parse_digits 2 s with
    | Some (z, r) =>
        match parse_fractional_second r with
        | Some (f, r') => Some ([Some z; Some f], r')
        | None => None
        end
    | None => None
    end
  else if N.eqb v 122 then
    match parse_offset s with Some (o, r) => Some ([o], r) | None => None end
  else None.

Fixpoint run_fmt (fmt : str) (s : str) : option (list (option Z)) :=
  match fmt with
  | [] => match s with [] => Some [] | _ => None end
  | 37%N :: v :: fmt' =>
      match parse_var v s with
      | Some (vals, s') =>
          match run_fmt fmt' s' with
          | Some rest => Some (vals ++ rest)
          | None => None
          end
      | None => None
      end
  | c :: fmt' =>
      if N.eqb c 37 then None      (* "%" as the last format char: IndexError *)
      else match skip c s with
           | Some s' => run_fmt fmt' s'
           | None => None
           end
  end.

Definition parse_date_args (value fmt : str) : option (list (option Z)) :=
  run_fmt fmt (py_strip value).

(* ---------- the value types ----------------------------------------- *)
Record xdate := mk_xdate { d_year : Z; d_month : Z; d_day : Z; d_offset : option Z }.
Record xtime := mk_xtime { t_hour : Z; t_minute : Z; t_second : Z; t_frac : Z; t_offset : option Z }.
Record xdatetime := mk_xdatetime {
  dt_year : Z; dt_month : Z; dt_day : Z;
  dt_hour : Z; dt_minute : Z; dt_second : Z; dt_frac : Z; dt_offset : option Z }.

Definition date_from_string (s : str) : option xdate :=
  match parse_date_args s fmt_DATE with
  | Some [Some y; Some m; Some d; o] =>
      if validate_date y m d then Some (mk_xdate y m d o) else None
  | _ => None
  end.

Definition time_from_string (s : str) : option xtime :=
  match parse_date_args s fmt_TIME with
  | Some [Some h; Some mi; Some se; Some f; o] =>
      if validate_time h mi se f then Some (mk_xtime h mi se f o) else None
  | _ => None
  end.

Definition datetime_from_string (s : str) : option xdatetime :=
  match parse_date_args s fmt_DATE_TIME with
  | Some [Some y; Some m; Some d; Some h; Some mi; Some se; Some f; o] =>
      if validate_date y m d && validate_time h mi se f
      then Some (mk_xdatetime y m d h mi se f o) else None
  | _ => None
  end.

Definition date_str (v : xdate) : str :=
  format_date (d_year v) (d_month v) (d_day v) ++ format_offset (d_offset v).
Definition time_str (v : xtime) : str :=
  format_time (t_hour v) (t_minute v) (t_second v) (t_frac v) ++ format_offset (t_offset v).
Definition datetime_str (v : xdatetime) : str :=
  format_date (dt_year v) (dt_month v) (dt_day v) ++ [84%N]
  ++ format_time (dt_hour v) (dt_minute v) (dt_second v) (dt_frac v) ++ format_offset (dt_offset v).

(* ---------- XmlPeriod._parse_period --------------------------------- *)
Record xperiod := mk_xperiod { p_year : option Z; p_month : option Z; p_day : option Z; p_offset : option Z }.

Definition rfind_chr (c : N) (s : str) : option nat :=
  match find_chr c (rev s) with
  | Some i => Some (length s - 1 - i)%nat
  | None => None
  end.

(* value[:end] where end = len(value), minus 6 when the value contains ":" (a timezone offset);
   a negative end index (len < 6) counts from the end *)
Definition ym_head (value : str) : str :=
  let n := length value in
  match find_chr 58 value with
  | Some _ => if (n <? 6)%nat then firstn (n - (6 - n)) value else firstn (n - 6) value
  | None => value
  end.

Definition oz (o : option Z) (d : Z) : Z := match o with Some z => if z =? 0 then d else z | None => d end.

Definition period_parse (value0 : str) : option xperiod :=
  let value := py_strip value0 in
  let r :=
    if startswith [45;45;45]%N value then
      match parse_date_args value fmt_G_DAY with
      | Some [d; o] => Some (mk_xperiod None None d o)
      | _ => None
      end
    else if startswith [45;45]%N value then
      let value := if str_eqb (slice value 4 6) [45;45]%N then firstn 4 value ++ skipn 6 value else value in
      let n := length value in
      if (n =? 4)%nat || (n =? 5)%nat || (n =? 10)%nat then
        match parse_date_args value fmt_G_MONTH with
        | Some [m; o] => Some (mk_xperiod None m None o)
        | _ => None
        end
      else
        match parse_date_args value fmt_G_MONTH_DAY with
        | Some [m; d; o] => Some (mk_xperiod None m d o)
        | _ => None
        end
    else
      let head := ym_head value in
      let ym := match rfind_chr 45 head with Some i => (3 <? i)%nat | None => false end in
      if ym then
        match parse_date_args value fmt_G_YEAR_MONTH with
        | Some [y; m; o] => Some (mk_xperiod y m None o)
        | _ => None
        end
      else
        match parse_date_args value fmt_G_YEAR with
        | Some [y; o] => Some (mk_xperiod y None None o)
        | _ => None
        end
  in
  match r with
  | Some p => if validate_date 0 (oz (p_month p) 1) (oz (p_day p) 1) then Some p else None
  | None => None
  end.

(* ---------- XmlDuration._parse_interval ------------------------------ *)
(* The regular expression is mirrored as written (see Gen.xml_duration_re_pattern
   and Proofs: the mirror is valid for exactly that pattern text):
     ^([-]?)P(?:(\d+)Y)?(?:(\d+)M)?(?:(\d+)D)?(?:T(?:(\d+)H)?(?:(\d+)M)?(?:(\d+(.\d+)?)S)?)?$
   \d is any Unicode decimal digit, "." any character but newline, "$" matches
   at the end or before a final newline.  *)
Definition expected_duration_pattern : str :=
  [94;40;91;45;93;63;41;80;40;63;58;40;92;100;43;41;89;41;63;40;63;58;40;92;100;43;41;77;41;63;40;63;58;40;92;100;43;41;68;41;63;40;63;58;84;40;63;58;40;92;100;43;41;72;41;63;40;63;58;40;92;100;43;41;77;41;63;40;63;58;40;92;100;43;40;46;92;100;43;41;63;41;83;41;63;41;63;36]%N.

Definition take_slot (letter : N) (s : str) : option str * str :=
  let '(ds, rest) := span py_isdecimal s in
  match ds, rest with
  | _ :: _, c :: r => if N.eqb c letter then (Some ds, r) else (None, s)
  | _, _ => (None, s)
  end.

Definition take_seconds (s : str) : option str * str :=
  let '(d1, rest) := span py_isdecimal s in
  match d1, rest with
  | _ :: _, c :: r =>
      let '(d2, rest2) := span py_isdecimal r in
      match negb (N.eqb c 10), d2, rest2 with
      | true, _ :: _, 83%N :: r2 => (Some (d1 ++ c :: d2), r2)
      | _, _, _ => if N.eqb c 83 then (Some d1, r) else (None, s)
      end
  | _, _ => (None, s)
  end.

Record xduration := mk_xduration {
  du_neg : bool; du_years : option Z; du_months : option Z; du_days : option Z;
  du_hours : option Z; du_minutes : option Z; du_seconds : option str }.

Definition at_end (s : str) : bool :=
  match s with [] => true | [10%N] => true | _ => false end.

Definition oint (o : option str) : option (option Z) :=
  match o with
  | None => Some None
  | Some t => match py_int t with Some z => Some (Some z) | None => None end
  end.

(* the optional (?:T ...) group *)
Definition time_slots (s4 : str) : option str * option str * option str * str :=
  match s4 with
  | c :: s5 =>
      if N.eqb c 84 then
        let '(h, s6) := take_slot 72 s5 in
        let '(mi, s7) := take_slot 77 s6 in
        let '(se, s8) := take_seconds s7 in
        (h, mi, se, s8)
      else (None, None, None, s4)
  | [] => (None, None, None, s4)
  end.

(* XmlDuration.__init__ strips the value (like XmlPeriod) before _parse_interval *)
Definition duration_parse (value0 : str) : option xduration :=
  let value := py_strip value0 in
  if negb (str_eqb xml_duration_re_pattern expected_duration_pattern) then None else
  if (length value <? 3)%nat || endswith [84%N] value then None else
  let '(neg, s0) := match value with 45%N :: r => (true, r) | _ => (false, value) end in
  match s0 with
  | 80%N :: s1 =>
      let '(y, s2) := take_slot 89 s1 in
      let '(mo, s3) := take_slot 77 s2 in
      let '(d, s4) := take_slot 68 s3 in
      let '(h, mi, se, s8) := time_slots s4 in
      if at_end s8 then
        match oint y, oint mo, oint d, oint h, oint mi with
        | Some y', Some mo', Some d', Some h', Some mi' => Some (mk_xduration neg y' mo' d' h' mi' se)
        | _, _, _, _, _ => None
        end
      else None
  | _ => None
  end.

(* ---------- duration (float seconds) and _cmp ------------------------ *)
Open Scope float_scope.

(* int -> float, exact for |z| < 2^53 (the harness stays within that) *)
Definition f_of_Z (z : Z) : float :=
  match z with
  | Z0 => 0
  | Zpos p => of_uint63 (Uint63.of_Z (Zpos p))
  | Zneg p => - of_uint63 (Uint63.of_Z (Zpos p))
  end.

(* a Python number: int or float, with Python's + and * *)
Inductive pynum := PI (z : Z) | PF (f : float).
Definition pn_f (a : pynum) : float := match a with PI z => f_of_Z z | PF f => f end.
Definition pn_add (a b : pynum) : pynum :=
  match a, b with PI x, PI y => PI (x + y)%Z | _, _ => PF (pn_f a + pn_f b) end.
Definition pn_mul (a b : pynum) : pynum :=
  match a, b with PI x, PI y => PI (x * y)%Z | _, _ => PF (pn_f a * pn_f b) end.
Definition pn_neg (a : pynum) : pynum :=
  match a with PI x => PI (- x)%Z | PF f => PF (- f) end.
Definition cst (isf : bool) (f : float) (z : Z) : pynum := if isf then PF f else PI z.

Definition K_YEAR := cst DS_YEAR_is_float DS_YEAR_f DS_YEAR_z.
Definition K_MONTH := cst DS_MONTH_is_float DS_MONTH_f DS_MONTH_z.
Definition K_DAY := cst DS_DAY_is_float DS_DAY_f DS_DAY_z.
Definition K_HOUR := cst DS_HOUR_is_float DS_HOUR_f DS_HOUR_z.
Definition K_MINUTE := cst DS_MINUTE_is_float DS_MINUTE_f DS_MINUTE_z.
Definition K_FRAC := cst DS_FRACTIONAL_SECOND_is_float DS_FRACTIONAL_SECOND_f DS_FRACTIONAL_SECOND_z.
Definition K_OFFSET := cst DS_OFFSET_is_float DS_OFFSET_f DS_OFFSET_z.

Definition off_or_0 (o : option Z) : Z := match o with Some z => z | None => 0%Z end.

Definition time_duration (v : xtime) : pynum :=
  pn_add (pn_add (pn_add (pn_add
    (pn_mul (PI (t_hour v)) K_HOUR)
    (pn_mul (PI (t_minute v)) K_MINUTE))
    (PI (t_second v)))
    (pn_mul (PI (t_frac v)) K_FRAC))
    (pn_mul (PI (off_or_0 (t_offset v))) K_OFFSET).

Definition datetime_duration (v : xdatetime) : pynum :=
  let negative := (dt_year v <? 0)%Z in
  let year := if negative then (- dt_year v)%Z else dt_year v in
  let total :=
    pn_add (pn_add (pn_add (pn_add (pn_add (pn_add (pn_add
      (pn_mul (PI year) K_YEAR)
      (pn_mul (PI (dt_month v)) K_MONTH))
      (pn_mul (PI (dt_day v)) K_DAY))
      (pn_mul (PI (dt_hour v)) K_HOUR))
      (pn_mul (PI (dt_minute v)) K_MINUTE))
      (PI (dt_second v)))
      (pn_mul (PI (dt_frac v)) K_FRAC))
      (pn_mul (PI (off_or_0 (dt_offset v))) K_OFFSET) in
  if negative then pn_neg total else total.

(* xsdata.utils.dates.date_ordinal (added by the repair of C06-F2): `mdays[1:month]` is the slice
   of the month table, `month > 2 and isleap(year)` a bool added as 0/1; a negative slice bound counts from the end
   (unvalidated values can be constructed directly). *)
Definition sum_z (l : list Z) : Z := fold_right Z.add 0%Z l.
Definition date_ordinal (year month day : Z) : Z :=
  let prev := (year - 1)%Z in
  let days := (prev * 365 + prev / 4 - prev / 100 + prev / 400)%Z in
  let stop := if (month <? 0)%Z then Z.max 0 (Z.of_nat (length mdays) + month) else month in
  let days := (days + (sum_z (firstn (Z.to_nat (stop - 1)) (skipn 1%nat mdays))
                       + (if (2 <? month)%Z && isleap year then 1 else 0)%Z))%Z in
  (days + day)%Z.

(* datatype._timeline: the DS_* constants keep their Python number kind (all int on the pinned tree) *)
Definition timeline_of (days h mi s f : Z) (o : option Z) : pynum :=
  let seconds :=
    pn_add (pn_add (pn_add (pn_add
      (pn_mul (PI days) K_DAY)
      (pn_mul (PI h) K_HOUR))
      (pn_mul (PI mi) K_MINUTE))
      (PI s))
      (pn_mul (PI (off_or_0 o)) K_OFFSET) in
  pn_add (pn_mul seconds (PI 1000000000%Z)) (PI f).
Definition time_timeline (v : xtime) : pynum :=
  timeline_of 0%Z (t_hour v) (t_minute v) (t_second v) (t_frac v) (t_offset v).
Definition datetime_timeline (v : xdatetime) : pynum :=
  timeline_of (date_ordinal (dt_year v) (dt_month v) (dt_day v))
              (dt_hour v) (dt_minute v) (dt_second v) (dt_frac v) (dt_offset v).

(* Python comparison of two numbers of the same kind (both sides are built from the same constants) *)
Definition pn_ltb (a b : pynum) : bool :=
  match a, b with PI x, PI y => (x <? y)%Z | _, _ => (pn_f a <? pn_f b)%float end.
Definition pn_eqb (a b : pynum) : bool :=
  match a, b with PI x, PI y => (x =? y)%Z | _, _ => (pn_f a =? pn_f b)%float end.
Definition time_lt (a b : xtime) : bool := pn_ltb (time_timeline a) (time_timeline b).
Definition time_eq (a b : xtime) : bool := pn_eqb (time_timeline a) (time_timeline b).
Definition datetime_lt (a b : xdatetime) : bool := pn_ltb (datetime_timeline a) (datetime_timeline b).
Definition datetime_eq (a b : xdatetime) : bool := pn_eqb (datetime_timeline a) (datetime_timeline b).

(* XmlDuration / XmlPeriod are UserStrings: the value keeps value.strip() and str() returns it *)
Definition duration_str (s : str) : option str := option_map (fun _ => py_strip s) (duration_parse s).
Definition period_str (s : str) : option str := option_map (fun _ => py_strip s) (period_parse s).

(* XmlDate / XmlTime / XmlDateTime.replace: a keyword left at None keeps the field; `offset` has the sentinel
   `True` for "keep" (so `offset=None` REMOVES the offset).  The constructors do not validate, so replace is a
   pure field update. *)
Inductive off_arg := OffKeep | OffSet (o : option Z).
Definition keep_z (new : option Z) (old : Z) : Z := match new with Some v => v | None => old end.
Definition keep_off (a : off_arg) (old : option Z) : option Z := match a with OffKeep => old | OffSet o => o end.
Definition date_replace (v : xdate) (y m d : option Z) (o : off_arg) : xdate :=
  mk_xdate (keep_z y (d_year v)) (keep_z m (d_month v)) (keep_z d (d_day v)) (keep_off o (d_offset v)).
Definition time_replace (v : xtime) (h mi s f : option Z) (o : off_arg) : xtime :=
  mk_xtime (keep_z h (t_hour v)) (keep_z mi (t_minute v)) (keep_z s (t_second v)) (keep_z f (t_frac v))
           (keep_off o (t_offset v)).
Definition datetime_replace (v : xdatetime) (y m d h mi s f : option Z) (o : off_arg) : xdatetime :=
  mk_xdatetime (keep_z y (dt_year v)) (keep_z m (dt_month v)) (keep_z d (dt_day v))
               (keep_z h (dt_hour v)) (keep_z mi (dt_minute v)) (keep_z s (dt_second v)) (keep_z f (dt_frac v))
               (keep_off o (dt_offset v)).
