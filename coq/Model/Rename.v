(* Model/Rename.v — executable model of
     codegen/models.py          Attr.slug, Class.slug
     codegen/utils.py           ClassUtils.rename_duplicate_attributes,
                                rename_attribute_by_preference, rename_attributes_by_index,
                                unique_name
     utils/collections.py       group_by (insertion-ordered dict of lists)
     codegen/handlers/rename_duplicate_classes.py   run, rename_classes,
                                add_abstract_suffix, add_numeric_suffix, next_qname,
                                get_reserved (lazy, then updated)
   over minimal records.  Objects that Python mutates in place are list positions here.
   Faithful, including defects; no proofs. *)
From Coq Require Import NArith List Bool String.
From XV Require Import Base.Str Base.Dec Gen.SafeTables Model.Safe.
Import ListNotations.
Open Scope N_scope.

(* ------------------------------------------------------------------ attrs *)
Record attr := mk_attr { a_name : str; a_tag : str; a_ns : option str }.

Definition a_slug (a : attr) : str := alnum (a_name a).
Definition a_is_attribute (a : attr) : bool :=
  str_eqb (a_tag a) tag_ATTRIBUTE || str_eqb (a_tag a) tag_ANY_ATTRIBUTE.
Definition a_is_enumeration (a : attr) : bool := str_eqb (a_tag a) tag_ENUMERATION.
Definition ns_truthy (o : option str) : bool := match o with Some (_ :: _) => true | _ => false end.
Definition opt_str_eqb (a b : option str) : bool :=
  match a, b with Some x, Some y => str_eqb x y | None, None => true | _, _ => false end.

Definition dummy_attr : attr := mk_attr [] [] None.
Definition get (l : list attr) (i : nat) : attr := nth i l dummy_attr.

Fixpoint set_name (i : nat) (n : str) (l : list attr) : list attr :=
  match l, i with
  | [], _ => []
  | a :: r, O => mk_attr n (a_tag a) (a_ns a) :: r
  | a :: r, S k => a :: set_name k n r
  end.

(* collections.group_by on positions: one group per distinct key, in the order of the first
   occurrence of the key; inside a group the positions in increasing order.  (Written as a
   specification of the dict-of-lists the Python code builds, which is what it returns.) *)
Fixpoint dedup (l : list str) (seen : list str) : list str :=
  match l with
  | [] => []
  | k :: r => if str_in k seen then dedup r seen else k :: dedup r (k :: seen)
  end.

Definition positions_of (keys : list str) (k : str) : list nat :=
  filter (fun i => str_eqb (nth i keys []) k) (seq 0 (List.length keys)).

Definition group_by (keys : list str) : list (list nat) :=
  map (positions_of keys) (dedup keys []).

(* key=lambda x: x.slug or DEFAULT_ATTR_NAME *)
Definition attr_key (a : attr) : str := match a_slug a with [] => default_attr_name | s => s end.

(* ---- unique_name *)
Fixpoint unique_index (fuel : nat) (name : str) (reserved : list str) (index : N) : option N :=
  match fuel with
  | O => None
  | S k => if str_in (alnum (name ++ us ++ to_dec index)) reserved
           then unique_index k name reserved (index + 1)
           else Some index
  end.

Definition unique_name (name : str) (reserved : list str) : str :=
  if str_in (alnum name) reserved then
    match unique_index (S (List.length reserved)) name reserved 1 with
    | Some i => name ++ us ++ to_dec i
    | None => name    (* not reachable: Proofs/RenameUnique.v unique_index_total *)
    end
  else name.

(* ---- rename_attribute_by_preference: which position changes, and its new name *)
Definition preference (a b : attr) (i j : nat) : nat * str :=
  if str_eqb (a_tag a) (a_tag b) && (ns_truthy (a_ns a) || ns_truthy (a_ns b)) then
    let '(p, c) := if ns_truthy (a_ns b) then (j, b) else (i, a) in
    (p, clean_uri (match a_ns c with Some n => n | None => [] end) ++ us ++ a_name c)
  else
    let '(p, c) := if a_is_attribute b then (j, b) else (i, a) in
    (p, a_name c ++ us ++ a_tag c).

(* all slugs except the one at position p *)
Fixpoint slugs_except (p : nat) (l : list attr) : list str :=
  match l, p with
  | [], _ => []
  | _ :: r, O => map a_slug r
  | a :: r, S k => a_slug a :: slugs_except k r
  end.

(* since the fix for C07-F2 the renamed attr goes through unique_name against the others *)
Definition rename_by_preference (l : list attr) (i j : nat) : list attr :=
  let '(p, n) := preference (get l i) (get l j) i j in
  set_name p (unique_name n (slugs_except p l)) l.

(* ---- rename_attributes_by_index: `items` = rename[1:] *)
Fixpoint rename_by_index (l : list attr) (items : list nat) : list attr :=
  match items with
  | [] => l
  | p :: r => rename_by_index (set_name p (unique_name (a_name (get l p)) (map a_slug l)) l) r
  end.

Definition rename_group (l : list attr) (g : list nat) : list attr :=
  match g with
  | [i; j] => if negb (a_is_enumeration (get l i)) then rename_by_preference l i j
              else rename_by_index l [j]
  | _ :: r => rename_by_index l r
  | _ => l
  end.

Definition rename_duplicate_attributes (l : list attr) : list attr :=
  fold_left rename_group (group_by (map attr_key l)) l.

(* ------------------------------------------------------------------ classes *)
Record cls := mk_cls { c_ns : str; c_name : str; c_element : bool; c_abstract : bool }.

(* namespaces.build_qname(ns, name) for a non-empty name *)
Definition build_qname (ns name : str) : str :=
  match ns with [] => name | _ => [123] ++ ns ++ [125] ++ name end.
Definition c_qname (c : cls) : str := build_qname (c_ns c) (c_name c).
Definition c_cmp (use_names : bool) (c : cls) : str := alnum (if use_names then c_name c else c_qname c).

Definition dummy_cls : cls := mk_cls [] [] false false.
Definition cget (l : list cls) (i : nat) : cls := nth i l dummy_cls.
Fixpoint cset_name (i : nat) (n : str) (l : list cls) : list cls :=
  match l, i with
  | [], _ => []
  | c :: r, O => mk_cls (c_ns c) n (c_element c) (c_abstract c) :: r
  | c :: r, S k => c :: cset_name k n r
  end.

(* lexicographic order on code points (Python str <) and a stable insertion sort *)
Fixpoint str_ltb (a b : str) : bool :=
  match a, b with
  | _, [] => false
  | [], _ :: _ => true
  | x :: a', y :: b' => (x <? y) || ((x =? y) && str_ltb a' b')
  end.

Fixpoint insert_sorted (l : list cls) (p : nat) (acc : list nat) : list nat :=
  match acc with
  | [] => [p]
  | q :: r => if str_ltb (c_name (cget l p)) (c_name (cget l q)) then p :: acc else q :: insert_sorted l p r
  end.
Definition sort_by_name (l : list cls) (g : list nat) : list nat :=
  fold_left (fun acc p => insert_sorted l p acc) g [].

(* state: classes, the lazily built `reserved` set (None = not built yet) *)
Definition cstate := (list cls * option (list str))%type.

Fixpoint next_index (fuel : nat) (use_names : bool) (ns name : str) (reserved : list str) (index : N) : option N :=
  match fuel with
  | O => None
  | S k =>
      let new_name := name ++ us ++ to_dec index in
      let cmp := alnum (if use_names then new_name else build_qname ns new_name) in
      if str_in cmp reserved then next_index k use_names ns name reserved (index + 1) else Some index
  end.

Definition add_numeric_suffix (use_names : bool) (st : cstate) (p : nat) : cstate :=
  let '(l, res) := st in
  let reserved := match res with
                  | Some [] | None => map (c_cmp use_names) l      (* `if not self.reserved:` rebuild *)
                  | Some r => r
                  end in
  let c := cget l p in
  match next_index (S (List.length reserved)) use_names (c_ns c) (c_name c) reserved 1 with
  | Some i =>
      let new_name := c_name c ++ us ++ to_dec i in
      let cmp := alnum (if use_names then new_name else build_qname (c_ns c) new_name) in
      (cset_name p new_name l, Some (cmp :: reserved))
  | None => st       (* not reachable *)
  end.

(* since fix 5e6ea57: "<name>_abstract" is tested against the reserved set and falls back to the
   numeric suffix search when it is taken *)
Definition add_abstract_suffix (use_names : bool) (st : cstate) (p : nat) : cstate :=
  let '(l, res) := st in
  let reserved := match res with
                  | Some [] | None => map (c_cmp use_names) l
                  | Some r => r
                  end in
  let c := cget l p in
  let new_name := c_name c ++ lit "_abstract" in
  let cmp := alnum (if use_names then new_name else build_qname (c_ns c) new_name) in
  if str_in cmp reserved then
    match next_index (S (List.length reserved)) use_names (c_ns c) new_name reserved 1 with
    | Some i =>
        let nn := new_name ++ us ++ to_dec i in
        (cset_name p nn l, Some (alnum (if use_names then nn else build_qname (c_ns c) nn) :: reserved))
    | None => st       (* not reachable *)
    end
  else (cset_name p new_name l, Some (cmp :: reserved)).

Definition rename_classes (use_names : bool) (st : cstate) (g : list nat) : cstate :=
  match g with
  | [] | [_] => st
  | _ =>
      let l := fst st in
      let abstract := filter (fun p => c_abstract (cget l p)) g in
      match g, abstract with
      | [_; _], [p] => add_abstract_suffix use_names st p
      | _, _ =>
          let total_elements := List.length (filter (fun p => c_element (cget l p)) g) in
          fold_left (fun s p => if negb (c_element (cget l p)) || (Nat.ltb 1 total_elements)
                                then add_numeric_suffix use_names s p else s)
                    (sort_by_name l g) st
      end
  end.

(* should_use_names: unique plain names are required by the structure style, or all classes come
   from ONE source location (they then share a module whatever their namespaces are) *)
Definition should_use_names (style : str) (locations : list str) : bool :=
  str_in style require_unique_names || Nat.eqb (List.length (dedup locations [])) 1.

Definition rename_duplicate_classes (use_names : bool) (l : list cls) : list cls :=
  fst (fold_left (rename_classes use_names) (group_by (map (c_cmp use_names) l)) (l, None)).
