(* Model/Builder.v — executable model of XmlMetaBuilder / XmlVarBuilder
   (xsdata/formats/dataclass/models/builders.py) and of XmlVar.__init__ / XmlMeta.__init__
   (models/elements.py) over a model *description* (Spec/MetaSpec.v: what the user wrote),
   and of the part of XmlContext that turns classes into the `universe` of Model/Bind.v.
   No proofs here.

     build_meta D cd parent_ns : xmeta          XmlMetaBuilder.build(clazz, parent_namespace)
     universe_of D pns         : universe       pns c = the parent namespace under which class
                                                c was first built (the cache history; C14)

   Modelling decisions
   * typing.py's annotation analysis is not modelled: the description states the analysed
     shape (item type, list, tokens, Optional) and `analysed` maps it to the `Result` the
     real analysis returns for the annotation genmodels.render_field writes; the
     correspondence compares the outcome (types, factory, tokens_factory, required) field by
     field with the real XmlVar;
   * the name generators in force (Meta.element_name_generator / attribute_name_generator or the
     context's) are not modelled as functions: the description carries what they return for the
     Python field / class names (fd_gen_name, cd_gen_name; computed by the harness with the real
     generator functions), the model decides WHERE they apply; Meta.target_namespace, global_type,
     inner classes and metadata "type": absent / Ignore are not in the description language;
   * dataclasses.fields order (inherited first, a redeclared field keeps its slot) is
     Spec.MetaSpec.all_fields — Python semantics, shared with the specification;
   * resolve_namespaces builds a `set`: with more than one token the tuple order is
     hash-dependent; the model keeps first-occurrence order (wf_desc asks for one token). *)
From Coq Require Import NArith ZArith List Bool.
From XV Require Import Base.Str Base.Eqb Model.Bind Spec.MetaSpec.
Import ListNotations.
Open Scope N_scope.

(* ---------------------------------------------------------------- typing Result *)
Record tresult := mk_tresult {
  tr_types : list ptype;
  tr_factory : option factory;        (* list / tuple *)
  tr_dict_factory : bool;             (* factory = dict (Attributes) *)
  tr_tokens_factory : option factory;
  tr_optional : bool
}.

Definition analysed (f : fdesc) : tresult :=
  match fd_kind f with
  | KElement =>
      if fd_tokens f then
        mk_tresult [fd_type f] (if fd_list f then Some FList else None) false (Some FList) false
      else if fd_list f then mk_tresult [fd_type f] (Some FList) false None false
      else mk_tresult [fd_type f] None false None (fd_optional f)
  | KAttribute | KText =>
      if fd_tokens f then mk_tresult [fd_type f] None false (Some FList) false
      else mk_tresult [fd_type f] None false None (fd_optional f)
  | KWildcard =>
      if fd_list f then mk_tresult [TObject] (Some FList) false None false
      else mk_tresult [TObject] None false None (fd_optional f)
  | KAttributes => mk_tresult [TStr] None true None false
  | KElements =>
      if fd_list f then mk_tresult [TObject] (Some FList) false None false
      else mk_tresult [TObject] None false None (fd_optional f)
  end.

(* ClassType.default_value(field) for the field genmodels.render_field writes *)
Definition default_of (f : fdesc) : vdefault :=
  match fd_kind f with
  | KAttributes => DFactoryDict
  | _ =>
      if fd_tokens f || fd_list f then DFactoryList
      else match fd_default f with
           | Some p => DValue (VP p)
           | None => DNone
           end
  end.

(* ---------------------------------------------------------------- XmlVarBuilder *)
Definition TARGET_NS : str := [35;35;116;97;114;103;101;116;78;97;109;101;115;112;97;99;101].  (* ##targetNamespace *)
Definition LOCAL_NS : str := [35;35;108;111;99;97;108].                                          (* ##local *)
Definition OTHER_NS : str := [35;35;111;116;104;101;114].                                        (* ##other *)

Fixpoint dedupe (l : list str) : list str :=
  match l with
  | [] => []
  | x :: r => x :: filter (fun y => negb (str_eqb x y)) (dedupe r)
  end.

(* resolve_namespaces(xml_type, namespace, parent_namespace) *)
Definition resolve_namespaces (k : vkind) (namespace parent_ns : option str) : list str :=
  let namespace := match k, namespace with
                   | (KElement | KWildcard), None => parent_ns
                   | _, _ => namespace
                   end in
  match namespace with
  | None | Some [] => []
  | Some n =>
      dedupe (map (fun ns =>
                     if str_eqb ns TARGET_NS then match parent_ns with Some ((_ :: _) as p) => p | _ => ANY_NS end
                     else if str_eqb ns LOCAL_NS then []
                     else if str_eqb ns OTHER_NS then 33 :: match parent_ns with Some p => p | None => [] end
                     else ns) (split_ws xml_ws n))
  end.

(* elements.default_namespace *)
Definition default_namespace (nss : list str) : option str :=
  find (fun ns => match ns with [] => false | x :: _ => negb (N.eqb x 35) end) nss.

Definition is_class_type (t : ptype) : bool := match t with TClass _ => true | _ => false end.
Definition first_class (ts : list ptype) : option cls :=
  match find is_class_type ts with Some (TClass c) => Some c | _ => None end.

(* XmlVar.__init__: the kind actually assigned *)
Definition final_kind (k : vkind) (clazz : option cls) : vkind :=
  match k with
  | KElements => KElements
  | KElement => KElement
  | _ => match clazz with
         | Some _ => KElement
         | None => k
         end
  end.

Definition STRICT : str := [115;116;114;105;99;116].

(* XmlVarBuilder.build for a choice of a compound field *)
Definition build_choice (name : str) (index : N) (parent_ns : option str) (parent_factory : option factory)
           (ch : str * ptype) : xvar :=
  let types := [snd ch] in
  let clazz := first_class types in
  let nss := resolve_namespaces KElement None parent_ns in
  let dns := default_namespace nss in
  mk_xvar index name (fst ch) (build_qname dns (fst ch)) None KElement types clazz true false
          parent_factory None None (existsb (ptype_eqb TObject) types) STRICT false false None DNone nss [] [].

Fixpoint build_choices (name : str) (index : N) (parent_ns : option str) (pf : option factory)
         (chs : list (str * ptype)) : list (qname * xvar) :=
  match chs with
  | [] => []
  | ch :: r =>
      let v := build_choice name index parent_ns pf ch in
      (* elements[choice.qname] = choice : a later choice with the same qname replaces the value in place *)
      let rest := build_choices name (index + 1) parent_ns pf r in
      (v_qname v, match assoc (v_qname v) rest with Some later => later | None => v end)
      :: filter (fun kv => negb (str_eqb (fst kv) (v_qname v))) rest
  end.

(* XmlVarBuilder.build (index = the builder's counter after the increment) *)
Definition build_var (index : N) (parent_ns : option str) (f : fdesc) : xvar :=
  let r := analysed f in
  let k := fd_kind f in
  let dflt := default_of f in
  let has_factory := match tr_factory r with Some _ => true | None => tr_dict_factory r end in
  let required :=
      match k, dflt with
      | KAttribute, DNone => negb (tr_optional r) && negb (fd_tokens f || has_factory)
      | KAttribute, _ => fd_required f
      | _, _ => if fd_tokens f || has_factory then false else negb (tr_optional r)
      end in
  (* local_name = metadata name or build_local_name(xml_type, name): the generator only sees the field name *)
  let local := match fd_xml_name f with
               | Some ((_ :: _) as n) => n
               | _ => match fd_gen_name f with Some ((_ :: _) as g) => g | _ => fd_name f end
               end in
  let types := tr_types r in
  let any_type := match k with KElement | KElements => existsb (ptype_eqb TObject) types | _ => false end in
  let clazz := first_class types in
  let nss := resolve_namespaces k (fd_namespace f) parent_ns in
  let dns := default_namespace nss in
  let elements := match k with
                  | KElements => build_choices (fd_name f) (index + 1) parent_ns (tr_factory r) (fd_choices f)
                  | _ => []
                  end in
  mk_xvar index (fd_name f) local (build_qname dns local)
          (match fd_wrapper f with Some ((_ :: _) as w) => Some (build_qname dns w) | _ => None end)
          (final_kind k clazz) types clazz true (fd_mixed f)
          (tr_factory r) (tr_tokens_factory r) (fd_format f) any_type STRICT required (fd_nillable f)
          (fd_sequence f) dflt nss elements [].

(* build_vars: the counter advances by 1 + number of choices per field *)
Fixpoint build_vars (index : N) (cns : option str) (fields : list (cdesc * fdesc)) : list xvar :=
  match fields with
  | [] => []
  | (decl, f) :: r =>
      (* parent_namespace of an inherited field: the declaring class's Meta.namespace if stated *)
      let pns := match cd_meta_ns decl with Some n => Some n | None => cns end in
      build_var (index + 1) pns f
      :: build_vars (index + 1 + match fd_kind f with KElements => N.of_nat (length (fd_choices f)) | _ => 0 end) cns r
  end.

(* ---------------------------------------------------------------- XmlMetaBuilder *)
Fixpoint alist_set {A} (k : str) (v : A) (l : list (str * A)) : list (str * A) :=
  match l with
  | [] => [(k, v)]
  | (k', v') :: r => if str_eqb k k' then (k, v) :: r else (k', v') :: alist_set k v r
  end.

Fixpoint alist_append {A} (k : str) (v : A) (l : list (str * list A)) : list (str * list A) :=
  match l with
  | [] => [(k, [v])]
  | (k', vs) :: r => if str_eqb k k' then (k', vs ++ [v]) :: r else (k', vs) :: alist_append k v r
  end.

Definition class_namespace (cd : cdesc) (parent_ns : option str) : option str :=
  match cd_meta_ns cd with Some n => Some n | None => parent_ns end.

Definition meta_local_name (cd : cdesc) : str :=
  match cd_meta_name cd with
  | Some ((_ :: _) as n) => n
  | _ => match cd_gen_name cd with Some ((_ :: _) as g) => g | _ => cd_name cd end       (* element_name_generator(clazz.__name__) *)
  end.

(* XmlMetaBuilder.target_namespace(module, meta) *)
Definition target_namespace (D : mdesc) (cd : cdesc) : option str :=
  match md_module_ns D with
  | Some n => Some n
  | None => cd_meta_ns cd
  end.

Definition build_meta (D : mdesc) (cd : cdesc) (parent_ns : option str) : xmeta :=
  let ns := class_namespace cd parent_ns in
  let local := meta_local_name cd in
  let qname := build_qname ns local in
  let vars := build_vars 0 ns (all_fields (length (md_classes D)) D cd) in
  let attributes := fold_left (fun acc v => if v_is KAttribute v then alist_set (v_qname v) v acc else acc) vars [] in
  let elements := fold_left (fun acc v => if v_is KElement v then alist_append (v_qname v) v acc else acc) vars [] in
  let wrappers := fold_left (fun acc v => if v_is KElement v then
                                            match v_wrapper_qname v with
                                            | Some ((_ :: _) as w) => alist_set w (v_qname v) acc
                                            | _ => acc
                                            end else acc) vars [] in
  let wildcards := filter (v_is KWildcard) vars in
  mk_xmeta (cd_id cd) qname (Some (build_qname (target_namespace D cd) local)) (cd_nillable cd)
           (last_error (filter (v_is KText) vars))
           (filter (v_is KElements) vars) elements wildcards attributes
           (filter (v_is KAttributes) vars) wrappers (target_uri qname)
           (existsb v_mixed wildcards).

(* ---------------------------------------------------------------- the universe *)
Fixpoint mro_of (fuel : nat) (D : mdesc) (c : cls) : list cls :=
  c :: match fuel with
       | O => []
       | S k => match find_cdesc D c with
                | Some cd => match cd_base cd with Some b => mro_of k D b | None => [] end
                | None => []
                end
       end.

(* XmlContext.get_subclasses(object) restricted to the model: post-order over definition order *)
Fixpoint post_order (fuel : nat) (D : mdesc) (c : cls) : list cls :=
  match fuel with
  | O => [c]
  | S k =>
      flat_map (fun d => match cd_base d with
                         | Some b => if N.eqb b c then post_order k D (cd_id d) else []
                         | None => []
                         end) (md_classes D) ++ [c]
  end.

Definition xsi_order (D : mdesc) : list cls :=
  flat_map (fun d => match cd_base d with None => post_order (length (md_classes D)) D (cd_id d) | Some _ => [] end)
           (md_classes D).

Definition xsi_cache (D : mdesc) : list (qname * list cls) :=
  fold_left (fun acc c =>
               match find_cdesc D c with
               | Some cd => alist_append (build_qname (target_namespace D cd) (meta_local_name cd)) c acc
               | None => acc
               end) (xsi_order D) [].

Definition universe_of (D : mdesc) (pns : cls -> option str) : universe :=
  let n := length (md_classes D) in
  mk_universe
    (map (fun cd => (cd_id cd, build_meta D cd (pns (cd_id cd)))) (md_classes D))
    (map (fun cd => (cd_id cd, mro_of n D (cd_id cd))) (md_classes D))
    (map (fun cd => (cd_id cd, match cd_base cd with Some b => [b] | None => [] end)) (md_classes D))
    (xsi_cache D)
    (md_enums D)
    (map (fun cd => (cd_id cd, cd_name cd)) (md_classes D)).

Definition pns_of_list (l : list (cls * option str)) (c : cls) : option str :=
  match assocN c l with Some o => o | None => None end.
