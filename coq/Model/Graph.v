(* Model/Graph.v — executable models of the order-sensitive cores of xsdata's code
   generator (property C12, reproducible generation).  Definitions only.

   Modelled Python (anchors):
     xsdata/utils/graphs.py            strongly_connected_components
     shims/toposort.py (= the published toposort package)   toposort, toposort_flatten(sort=True)
     xsdata/codegen/handlers/designate_class_packages.py    sort_classes, strongly_connected_classes,
                                                            group_by_strong_components, assign
     xsdata/codegen/resolver.py        create_class_list, import_classes, sorted_imports
     xsdata/codegen/models.py          Attr.native_types  (= list(set(...)))
     xsdata/formats/converter.py       ConverterFactory.sort_types
     xsdata/codegen/handlers/reset_attribute_sequence_numbers.py   process, find_next_sequence_number

   Conventions.  A Python `set` / the key order of a dict built from a set is a list
   whose ORDER IS SUPPLIED BY THE CALLER (the oracle): the theorems quantify over all
   such orders.  `id()` values are labels of type N supplied by the caller.
   Python exceptions are first-class results. *)
From Coq Require Import NArith List Bool Arith.
From XV Require Import Base.Str Gen.GraphTables.
Import ListNotations.
Close Scope N_scope.
Open Scope nat_scope.

Inductive pyexc := KeyError | IndexError | CircularDependencyError.

Inductive result (T : Type) :=
| Ok : T -> result T
| Raise : pyexc -> result T
| OutOfFuel : result T.
Arguments Ok {T} _.
Arguments Raise {T} _.
Arguments OutOfFuel {T}.

Definition rmap {T U} (f : T -> U) (r : result T) : result U :=
  match r with Ok x => Ok (f x) | Raise e => Raise e | OutOfFuel => OutOfFuel end.

Section Generic.
  Context {A : Type}.
  Variable eqb : A -> A -> bool.

  Definition memb (x : A) (l : list A) : bool := existsb (eqb x) l.

  (* duplicate removal (which occurrence is kept is irrelevant for sets) *)
  Fixpoint dedup (l : list A) : list A :=
    match l with
    | [] => []
    | x :: r => if memb x r then dedup r else x :: dedup r
    end.

  (* order-preserving duplicate removal, first occurrence kept (dict key order) *)
  Fixpoint nub (l : list A) : list A :=
    match l with
    | [] => []
    | x :: r => x :: filter (fun y => negb (eqb y x)) (nub r)
    end.

  (* ---- sorted(): stable insertion sort w.r.t. a "less or equal" test ---- *)
  Section Sort.
    Variable leb : A -> A -> bool.
    Fixpoint insert (x : A) (l : list A) : list A :=
      match l with
      | [] => [x]
      | y :: r => if leb x y then x :: y :: r else y :: insert x r
      end.
    Fixpoint isort (l : list A) : list A :=
      match l with
      | [] => []
      | x :: r => insert x (isort r)
      end.
    (* sorted(<set>) *)
    Definition sort_set (l : list A) : list A := isort (dedup l).
  End Sort.

  (* ---- dict[str, list/set[str]] as an association list in insertion order ---- *)
  Definition dict := list (A * list A).
  Definition keys (d : dict) : list A := map fst d.
  Fixpoint get (d : dict) (k : A) : option (list A) :=
    match d with
    | [] => None
    | (k', v) :: r => if eqb k k' then Some v else get r k
    end.
  Definition get_or_nil (d : dict) (k : A) : list A :=
    match get d k with Some v => v | None => [] end.

  (* ======================================================================
     strongly_connected_components(edges)   (xsdata/utils/graphs.py)
     ====================================================================== *)
  Record scc_state := mk_st {
    st_ident : list A;            (* identified : set *)
    st_stack : list A;            (* stack, TOP FIRST *)
    st_index : list (A * nat);    (* index : dict *)
    st_bounds : list nat;         (* boundaries, TOP FIRST *)
    st_out : list (list A)        (* components yielded so far, MOST RECENT FIRST *)
  }.

  Definition st_init : scc_state := mk_st [] [] [] [] [].

  Fixpoint idx_get (ix : list (A * nat)) (v : A) : option nat :=
    match ix with
    | [] => None
    | (k, i) :: r => if eqb v k then Some i else idx_get r v
    end.

  (* while index[w] < boundaries[-1]: boundaries.pop() *)
  Fixpoint pop_while (iw : nat) (b : list nat) : result (list nat) :=
    match b with
    | [] => Raise IndexError
    | t :: r => if Nat.ltb iw t then pop_while iw r else Ok b
    end.

  (* index[v] = len(stack); stack.append(v); boundaries.append(index[v]) *)
  Definition push (v : A) (st : scc_state) : scc_state :=
    let iv := length (st_stack st) in
    mk_st (st_ident st) (v :: st_stack st) ((v, iv) :: st_index st) (iv :: st_bounds st) (st_out st).

  Definition set_bounds (st : scc_state) (b : list nat) : scc_state :=
    mk_st (st_ident st) (st_stack st) (st_index st) b (st_out st).

  (* for w in edges[v]: ...   (`rec` = the recursive call dfs(w)) *)
  Section Visit.
    Variable rec : A -> scc_state -> result scc_state.
    Fixpoint visit (ws : list A) (st : scc_state) : result scc_state :=
      match ws with
      | [] => Ok st
      | w :: r =>
        match idx_get (st_index st) w with
        | None =>
            match rec w st with
            | Ok st' => visit r st'
            | e => e
            end
        | Some iw =>
            if memb w (st_ident st) then visit r st
            else match pop_while iw (st_bounds st) with
                 | Ok b' => visit r (set_bounds st b')
                 | Raise e => Raise e
                 | OutOfFuel => OutOfFuel
                 end
        end
      end.
  End Visit.

  (* if boundaries[-1] == index[v]: pop the component *)
  Definition finish (iv : nat) (st2 : scc_state) : result scc_state :=
    match st_bounds st2 with
    | [] => Raise IndexError
    | t :: br =>
      if Nat.eqb t iv then
        let k := length (st_stack st2) - iv in
        let scc := firstn k (st_stack st2) in
        Ok (mk_st (scc ++ st_ident st2) (skipn k (st_stack st2)) (st_index st2) br (scc :: st_out st2))
      else Ok st2
    end.

  Fixpoint dfs (fuel : nat) (E : dict) (v : A) (st : scc_state) : result scc_state :=
    match fuel with
    | O => OutOfFuel
    | S f =>
      match get E v with
      | None => Raise KeyError
      | Some ws =>
        match visit (dfs f E) ws (push v st) with
        | Ok st2 => finish (length (st_stack st)) st2
        | e => e
        end
      end
    end.

  (* for vertex in set(edges): if vertex not in index: yield from dfs(vertex) *)
  Fixpoint scc_loop (fuel : nat) (E : dict) (vs : list A) (st : scc_state) : result scc_state :=
    match vs with
    | [] => Ok st
    | v :: r =>
      match idx_get (st_index st) v with
      | Some _ => scc_loop fuel E r st
      | None =>
        match dfs fuel E v st with
        | Ok st' => scc_loop fuel E r st'
        | e => e
        end
      end
    end.

  (* vorder = the iteration order of set(edges): any permutation of the keys *)
  Definition scc_run (vorder : list A) (E : dict) : result (list (list A)) :=
    rmap (fun st => rev (st_out st)) (scc_loop (S (length E)) E vorder st_init).

  (* ---- a checker for SCC outputs (proved sound in Proofs/GraphScc.v) ---- *)
  Fixpoint nodupb (l : list A) : bool :=
    match l with [] => true | x :: r => negb (memb x r) && nodupb r end.

  Definition succs (E : dict) (S : list A) : list A := flat_map (get_or_nil E) S.
  Fixpoint reach_iter (n : nat) (E : dict) (S : list A) : list A :=
    match n with O => S | S k => reach_iter k E (dedup (S ++ succs E S)) end.
  (* predecessors: keys with an edge into S *)
  Definition preds (E : dict) (S : list A) : list A :=
    map fst (filter (fun kv => existsb (fun w => memb w S) (snd kv)) E).
  Fixpoint coreach_iter (n : nat) (E : dict) (S : list A) : list A :=
    match n with O => S | S k => coreach_iter k E (dedup (S ++ preds E S)) end.

  (* every edge out of a component ends in it or in an EARLIER component *)
  Fixpoint order_ok (E : dict) (earlier : list A) (comps : list (list A)) : bool :=
    match comps with
    | [] => true
    | c :: r =>
      forallb (fun u => forallb (fun w => memb w (c ++ earlier)) (get_or_nil E u)) c
      && order_ok E (c ++ earlier) r
    end.

  (* every member is reachable from the first one and reaches it back *)
  Definition comp_connected (E : dict) (c : list A) : bool :=
    match c with
    | [] => false
    | r :: _ =>
      let fwd := reach_iter (length E) E [r] in
      let bwd := coreach_iter (length E) E [r] in
      forallb (fun x => memb x fwd && memb x bwd) c
    end.

  Definition scc_check (E : dict) (comps : list (list A)) : bool :=
    let all := concat comps in
    nodupb (keys E) && nodupb all
    && forallb (fun k => memb k all) (keys E) && forallb (fun x => memb x (keys E)) all
    && forallb (comp_connected E) comps
    && order_ok E [] comps.

  (* ======================================================================
     toposort / toposort_flatten(sort=True)
     ====================================================================== *)
  Variable leb : A -> A -> bool.   (* Python's < on the keys (str: by code point) *)

  Definition is_nil {T} (l : list T) : bool := match l with [] => true | _ => false end.

  (* for k, v in data.items(): v.discard(k) *)
  Definition discard_self (d : dict) : dict :=
    map (fun kv => (fst kv, filter (fun x => negb (eqb x (fst kv))) (snd kv))) d.
  (* reduce(set.union, data.values()) - set(data.keys()) *)
  Definition extra_items (d : dict) : list A :=
    dedup (filter (fun x => negb (memb x (keys d))) (concat (map snd d))).
  Definition topo_prepare (d : dict) : dict :=
    let d1 := discard_self d in d1 ++ map (fun x => (x, [])) (extra_items d1).
  (* set(item for item, dep in data.items() if len(dep) == 0) *)
  Definition layer_of (d : dict) : list A := map fst (filter (fun kv => is_nil (snd kv)) d).
  (* {item: dep - ordered for item, dep in data.items() if item not in ordered} *)
  Definition topo_step (ordered : list A) (d : dict) : dict :=
    map (fun kv => (fst kv, filter (fun x => negb (memb x ordered)) (snd kv)))
        (filter (fun kv => negb (memb (fst kv) ordered)) d).

  Fixpoint topo_loop (fuel : nat) (d : dict) : result (list (list A)) :=
    match fuel with
    | O => OutOfFuel
    | S f =>
      let ordered := layer_of d in
      if is_nil ordered then (if is_nil d then Ok [] else Raise CircularDependencyError)
      else rmap (cons ordered) (topo_loop f (topo_step ordered d))
    end.

  (* the layers, each one a set *)
  Definition toposort (d : dict) : result (list (list A)) :=
    if is_nil d then Ok []
    else let d' := topo_prepare d in topo_loop (S (length d')) d'.

  Definition toposort_flatten (d : dict) : result (list A) :=
    rmap (fun ls => concat (map (sort_set leb) ls)) (toposort d).

  (* ---- DesignateClassPackages.sort_classes(qnames) ----
     deps q = the class's dependencies() (a generator over a set: any order, duplicates harmless) *)
  Definition sort_classes (deps : A -> list A) (group : list A) : result (list A) :=
    toposort_flatten (map (fun q => (q, filter (fun x => memb x group) (deps q))) group).

  (* ---- DependenciesResolver.create_class_list(classes) ---- *)
  Definition create_class_list (deps : A -> list A) (classes : list A) : result (list A) :=
    toposort_flatten (map (fun q => (q, deps q)) classes).

  (* ---- assign(): the container as a finite map qname -> module ---- *)
  Section Assign.
    Context {M : Type}.
    Definition amap := A -> option M.
    Definition assign_one (m : amap) (g : list A * M) : amap :=
      fun q => if memb q (fst g) then Some (snd g) else m q.
    Definition assign_all (gs : list (list A * M)) (m : amap) : amap := fold_left assign_one gs m.

    (* group_by_strong_components: for group in <sccs>: classes = sort_classes(group);
       module = classes[0].name; assign(classes, package, module) *)
    Variable modname : A -> M.
    Fixpoint cluster_plan (deps : A -> list A) (groups : list (list A)) : result (list (list A * M)) :=
      match groups with
      | [] => Ok []
      | g :: r =>
        match sort_classes deps g with
        | Ok [] => Raise IndexError          (* classes[0] on an empty list *)
        | Ok (h :: t) => rmap (cons (h :: t, modname h)) (cluster_plan deps r)
        | Raise e => Raise e
        | OutOfFuel => OutOfFuel
        end
      end.
  End Assign.

  (* ---- resolver: import_classes / sorted_imports ---- *)
  Definition import_classes (class_list class_map_keys : list A) : list A :=
    filter (fun q => negb (memb q class_map_keys)) class_list.
End Generic.

(* ==========================================================================
   Instances on Python str (list of code points)
   ========================================================================== *)
Fixpoint str_leb (a b : str) : bool :=
  match a, b with
  | [], _ => true
  | _ :: _, [] => false
  | x :: a', y :: b' => if N.ltb x y then true else if N.ltb y x then false else str_leb a' b'
  end.

Definition s_scc_run := scc_run str_eqb.
Definition s_scc_check := scc_check str_eqb.
Definition s_toposort_flatten := toposort_flatten str_eqb str_leb.
Definition s_sort_classes (D : dict) := sort_classes str_eqb str_leb (get_or_nil str_eqb D).
Definition s_create_class_list (D : dict) := create_class_list str_eqb str_leb (get_or_nil str_eqb D).

(* sorted(self.imports, key=lambda x: x.name): imports as (qname, name) *)
Definition sorted_imports (imps : list (str * str)) : list (str * str) :=
  isort (fun a b => str_leb (snd a) (snd b)) imps.

(* ---- Attr.native_types = list(dict.fromkeys(types)) ; ConverterFactory.sort_types ----
   (since /repo 4392a4a native_types de-duplicates in DECLARED order: no set, no oracle) *)
Definition native_types (types : list str) : list str := nub str_eqb types.
Fixpoint assoc_prio (t : list (str * N)) (k : str) : option N :=
  match t with
  | [] => None
  | (k', p) :: r => if str_eqb k k' then Some p else assoc_prio r k
  end.
Definition prio (t : str) : N :=
  match assoc_prio type_priority t with Some p => p | None => type_priority_default end.
Definition prio_leb (a b : str) : bool := N.leb (prio a) (prio b).
Definition sort_types (ord : list str) : list str :=
  if Nat.ltb (length ord) sort_types_shortcut then ord else isort prio_leb ord.
Definition in_table (t : str) : bool := match assoc_prio type_priority t with Some _ => true | None => false end.
Definition sorted_native_types (types : list str) : list str := sort_types (native_types types).
(* guard under which sort_types does not depend on the order of its argument:
   at most one type outside the priority table *)
Definition native_guard (ord : list str) : bool :=
  Nat.leb (length (filter (fun t => negb (in_table t)) ord)) 1.

(* ---- ResetAttributeSequenceNumbers.process ----
   attrs: restrictions.sequence of each attr (None, or a label: id() of an xs:sequence);
   base: restrictions.sequence of the base classes' attrs (already renumbered) *)
Definition seq_truthy (s : option N) : option N :=
  match s with Some n => if N.eqb n 0 then None else Some n | None => None end.
Fixpoint somes {T} (l : list (option T)) : list T :=
  match l with [] => [] | Some x :: r => x :: somes r | None :: r => somes r end.
Definition seq_groups (attrs : list (option N)) : list N := nub N.eqb (somes (map seq_truthy attrs)).
Fixpoint index_of (l : list N) (x : N) : nat :=
  match l with [] => 0 | y :: r => if N.eqb x y then 0 else S (index_of r x) end.
Definition find_next_sequence_number (base : list (option N)) : N :=
  N.succ (fold_right N.max 0%N (map (fun s => match s with Some n => n | None => 0%N end) base)).
Definition reset_sequence_numbers (base attrs : list (option N)) : list (option N) :=
  let next := find_next_sequence_number base in
  let gs := seq_groups attrs in
  map (fun s => match seq_truthy s with
                | Some n => Some (next + N.of_nat (index_of gs n))%N
                | None => s
                end) attrs.
