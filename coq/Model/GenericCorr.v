(* Model/GenericCorr.v — agreement predicates and the C11 oracle, evaluated by the
   generated case files of harness/c11.py.  One case = one generated document (its
   infoset, known by construction and cross-checked with two independent XML
   parsers) plus what the implementation did with it in every placement. *)
From Coq Require Import NArith ZArith List Bool.
From XV Require Import Base.Str Base.Eqb Base.PyInt Gen.GenericTables Spec.Infoset Model.Generic.
Import ListNotations.
Open Scope N_scope.

(* ------------------------------------------------------------ equalities *)
Definition prim_eqb (a b : prim) : bool :=
  match a, b with
  | PStr x, PStr y => str_eqb x y
  | PInt x, PInt y => Z.eqb x y
  | PBool x, PBool y => Bool.eqb x y
  | _, _ => false
  end.
Definition aval_eqb (a b : aval) : bool :=
  match a, b with
  | AVStr x, AVStr y => str_eqb x y
  | AVQName x, AVQName y => str_eqb x y
  | _, _ => false
  end.
Definition wevent_eqb (a b : wevent) : bool :=
  match a, b with
  | WStart x, WStart y => str_eqb x y
  | WAttr k v, WAttr k' v' => str_eqb k k' && aval_eqb v v'
  | WData x, WData y => opt_eqb prim_eqb x y
  | WEnd x, WEnd y => str_eqb x y
  | _, _ => false
  end.

Fixpoint gval_eqb (a b : gval) : bool :=
  match a, b with
  | GAny q1 x1 l1 k1 a1, GAny q2 x2 l2 k2 a2 =>
      ostr_eqb q1 q2 && ostr_eqb x1 x2 && ostr_eqb l1 l2 && attrs_eqb a1 a2 &&
      (fix go (u v : list gval) : bool :=
         match u, v with
         | [], [] => true
         | p :: u', q :: v' => gval_eqb p q && go u' v'
         | _, _ => false
         end) k1 k2
  | GText x, GText y => ostr_eqb x y
  | GDerived q1 v1, GDerived q2 v2 => str_eqb q1 q2 && prim_eqb v1 v2
  | GHolder c1 a1 s1 i1, GHolder c2 a2 s2 i2 =>
      str_eqb (c_rq c1) (c_rq c2) && attrs_eqb a1 a2 &&
      (match s1, s2 with SNone, SNone | SOne, SOne | SMany, SMany => true | _, _ => false end) &&
      (fix go (u v : list gval) : bool :=
         match u, v with
         | [], [] => true
         | p :: u', q :: v' => gval_eqb p q && go u' v'
         | _, _ => false
         end) i1 i2
  | _, _ => false
  end.
Definition wval_eqb (a b : wval) : bool :=
  match a, b with
  | WNone, WNone => true
  | WOne x, WOne y => gval_eqb x y
  | WMany x, WMany y => list_eqb gval_eqb x y
  | _, _ => false
  end.
Definition robj_eqb (a b : robj) : bool := attrs_eqb (r_atts a) (r_atts b) && wval_eqb (r_w a) (r_w b).
Definition perr_eqb (a b : perr) : bool :=
  match a, b with
  | EParser, EParser | EConverter, EConverter | EContext, EContext | ETypeError, ETypeError
  | EUnsupported, EUnsupported => true
  | _, _ => false
  end.

(* in-scope namespace maps as finite maps: first binding wins, unbound ("") dropped *)
Definition okey_leb (a b : option str) : bool :=
  match a, b with
  | None, _ => true
  | Some _, None => false
  | Some x, Some y => str_leb x y
  end.
Fixpoint ns_insert (kv : option str * str) (l : nsmap) : nsmap :=
  match l with
  | [] => [kv]
  | h :: r => if okey_leb (fst kv) (fst h) then kv :: l else h :: ns_insert kv r
  end.
Fixpoint ns_dedupe (seen : list (option str)) (m : nsmap) : nsmap :=
  match m with
  | [] => []
  | (p, u) :: r =>
      if existsb (opt_eqb str_eqb p) seen then ns_dedupe seen r
      else match u with
           | [] => ns_dedupe (p :: seen) r
           | _ => (p, u) :: ns_dedupe (p :: seen) r
           end
  end.
Definition ns_canon (m : nsmap) : nsmap := fold_right ns_insert [] (ns_dedupe [] m).

Definition pevent_eqb (a b : pevent) : bool :=
  match a, b with
  | PStart q1 a1 n1, PStart q2 a2 n2 => str_eqb q1 q2 && attrs_eqb a1 a2 && nsmap_eqb (ns_canon n1) (ns_canon n2)
  | PEnd q1 x1 l1, PEnd q2 x2 l2 => str_eqb q1 q2 && ostr_eqb x1 x2 && ostr_eqb l1 l2
  | _, _ => false
  end.

(* ----------------------------------------------------------- observations *)
Inductive pobs :=
| POTree (v : gval)       (* TreeParser result *)
| POObj (o : robj)        (* holder instance *)
| POErr (e : perr)        (* exception, by class *)
| POOther.                (* something outside the modelled slice *)

Definition nid_eqb : node_id -> node_id -> bool := list_eqb Nat.eqb.
Fixpoint vis_get (p : node_id) (l : list (node_id * nat)) : option nat :=
  match l with
  | [] => None
  | (q, k) :: r => if nid_eqb p q then Some k else vis_get p r
  end.
Definition oracle_of (tx tl : list (node_id * nat)) : oracle :=
  mkOracle (fun p => vis_get p tx) (fun p => vis_get p tl).

(* specification-side description of a placement *)
Record placement := mkPl { pl_cfg : wcfg; pl_target : option str; pl_kws : list nskw; pl_reg : list wcfg }.

Record obs := mkObs {
  ob_pl : option placement;             (* None = the stand-alone TreeParser *)
  ob_vtext : list (node_id * nat);      (* cut texts, as observed on the tokenizer *)
  ob_vtail : list (node_id * nat);      (* cut tails *)
  ob_events : option (list pevent);     (* events the real handler delivered *)
  ob_parse : pobs;
  ob_wev : option (list wevent);        (* EventGenerator output *)
  ob_outs : list (option itree);        (* re-parsed output of each writer *)
  ob_outs_ns : list (option itree)      (* the same under user supplied prefix maps (default and/or prefixed bindings) *)
}.
Definition case : Type := itree * list obs.

(* ------------------------------------------------------------------ verdicts *)
Definition model_parse (pl : option placement) (evs : list pevent) : pobs :=
  match pl with
  | None => match tree_parse evs with Some v => POTree v | None => POErr EUnsupported end
  | Some p => match wild_parse (pl_reg p) (pl_cfg p) evs with Ok o => POObj o | Err e => POErr e end
  end.
Definition pobs_eqb (a b : pobs) : bool :=
  match a, b with
  | POTree x, POTree y => gval_eqb x y
  | POObj x, POObj y => robj_eqb x y
  | POErr EUnsupported, POOther => true
  | POErr EUnsupported, POErr _ => true   (* outside the slice the model claims nothing; the code may fail later on *)
  | POErr x, POErr y => perr_eqb x y
  | _, _ => false
  end.
Definition model_gen (pl : option placement) (o : pobs) : option (list wevent) :=
  match pl, o with
  | None, POTree v => Some (gen_any v)
  | Some p, POObj r => gen_root (pl_cfg p) r
  | _, _ => None
  end.

(* what XML Schema says about the first-level children of the holder *)
Definition ns_of_clark (q : str) : option str :=
  match q with
  | 123 :: rest => match partition_chr 125 rest with
                   | (u, true, _) => Some u
                   | _ => None
                   end
  | _ => None
  end.
Definition xsd_valid (p : placement) (t : itree) : bool :=
  forallb (fun k => xsd_allows (pl_target p) (pl_kws p) (ns_of_clark (i_name k))) (i_kids t).

(* holder positions: the root of a holder placement, and every child of a holder
   position whose name is a registered holder class (found by qname) *)
Definition in_reg (reg : list wcfg) (q : str) : option wcfg := find (fun n => str_eqb (c_rq n) q) reg.

(* requirements on the element at a holder position for the property to apply *)
Definition holder_node_ok (c : wcfg) (t : itree) : bool :=
  negb (has_xsi (i_atts t))
  && (c_amap c || match i_atts t with [] => true | _ => false end)
  && (match c_kind c with KChoice => all_ws (i_text t) | _ => true end)
  && forallb (fun k => negb (existsb (str_eqb (i_name k)) (c_typed c))) (i_kids t).

Fixpoint holders_ok (reg : list wcfg) (c : wcfg) (t : itree) : bool :=
  match t with
  | INode n a d x ks l =>
      holder_node_ok c t &&
      forallb (fun k => match in_reg reg (i_name k) with
                        | Some n' => holders_ok reg n' k
                        | None => true
                        end) ks
  end.

(* placements to which the property applies at all *)
Definition applicable (pl : option placement) (t : itree) : bool :=
  match pl with
  | None => true
  | Some p =>
      let c := pl_cfg p in
      str_eqb (i_name t) (c_rq c)
      && (match i_tail t with [] => true | _ => false end)
      && holders_ok (pl_reg p) c t
      && xsd_valid p t
  end.

(* the whitespace exception with holder positions: blank text of a holder element is
   not content even when it has no children (element-only content model) *)
Fixpoint norm_holders (reg : list wcfg) (holder : bool) (t : itree) : itree :=
  match t with
  | INode n a d x ks l =>
      INode n a d
        (if holder then (if all_ws x then [] else x)
         else match ks with [] => x | _ => if all_ws x then [] else x end)
        (map (fun k => norm_holders reg (holder && match in_reg reg (i_name k) with Some _ => true | None => false end) k) ks)
        (if all_ws l then [] else l)
  end.

Definition expected (pl : option placement) (t : itree) : itree :=
  match pl with
  | None => norm_ws (canon [] t)
  | Some p => norm_holders (pl_reg p) true (canon [] t)
  end.

(* clause first-level, at every holder position *)
Fixpoint g_first_level_reg (reg : list wcfg) (m : nsmap) (t : itree) : bool :=
  match t with
  | INode n a d x ks l =>
      let m' := d ++ m in
      forallb (fun k => fl_generic m' k && match in_reg reg (i_name k) with
                                           | Some _ => g_first_level_reg reg m' k
                                           | None => true
                                           end) ks
  end.

(* guard clauses for nested holder classes *)
Definition nonblank (s : str) : bool := negb (forallb py_isspace s).
(* clause typedtail: a holder class element followed by text inside a non-mixed holder *)
Fixpoint g_typed_tail (reg : list wcfg) (c : wcfg) (t : itree) : bool :=
  match t with
  | INode n a d x ks l =>
      forallb (fun k => match in_reg reg (i_name k) with
                        | Some n' => (match c_kind c with KMixed => true | _ => negb (nonblank (i_tail k)) end)
                                     && g_typed_tail reg n' k
                        | None => true
                        end) ks
  end.
(* clause singletail: the tail of a single-wildcard holder is kept in the qname-less
   wrapper and written before the holder's end event, i.e. inside the element *)
Fixpoint g_single_tail (reg : list wcfg) (c : wcfg) (t : itree) : bool :=
  match t with
  | INode n a d x ks l =>
      forallb (fun k => match in_reg reg (i_name k) with
                        | Some n' => negb (match c_kind n' with KSingle => nonblank (i_tail k) | _ => false end)
                                     && g_single_tail reg n' k
                        | None => true
                        end) ks
  end.

(* names the model never has to look into, but the spec statement does *)
Definition wf_name (q : str) : bool :=
  match q with
  | [] => false
  | 123 :: rest => match partition_chr 125 rest with
                   | (_ :: _, true, _ :: _) => true
                   | _ => false
                   end
  | _ => negb (mem 123 q) && negb (mem 125 q)
  end.
Definition g_names_node (m : nsmap) (t : itree) : bool :=
  wf_name (i_name t) && forallb (fun kv => wf_name (fst kv)) (i_atts t) && nodup_keys (i_atts t).

Definition bit (b : bool) (n : N) : N := if b then n else 0.

(* A user supplied prefix map changes only prefix choices, which `canon` erases, unless the
   stream carries a QName-valued attribute whose lexical form depends on the bindings in scope:
   an xsi:type given as a string (unprefixed / Clark form in a user-bound namespace).  XSD
   datatype QNames are safe: the user maps of the check never bind the XSD namespace. *)
Definition wev_prefix_free (e : list wevent) : bool :=
  forallb (fun ev => match ev with
                     | WAttr k (AVStr _) => negb (str_eqb k xsi_type_q)
                     | WAttr k (AVQName c) => is_datatype_clark c
                     | _ => true
                     end) e.

(* code bits:
     1 handler events differ from the pump      2 parse result differs from the model
     4 writer events differ from the model      8 written infoset differs from the model
    16 the property's oracle fails              32 the implementation produced/accepted
                                                   something although XSD rejects the document
   guard clauses that do not hold of this input (they classify an oracle failure):
    64 visible  128 nil  256 rewrite  512 dtclark  1024 xsitype  2048 space
  4096 first-level xsi:type datatype (holder placements)   8192 ill-formed names (harness bug)
 16384 typed child with a tail in a non-mixed holder   32768 tail of a single-wildcard holder written inside it
131072 a first-level xs:QName / xs:NOTATION value resolves differently (or not at all) in the written output
 65536 written infoset under a user supplied prefix map differs from the model (ill-formed output included) *)
(* Namespace-sensitive datatypes (xs:QName, xs:NOTATION) named by xsi:type on a first-level child of a
   holder: the value space is (namespace name, local part), so the text is compared after resolution
   against the bindings in scope, in the input and in the written output.  An undeclared prefix in the
   output stays unresolved and differs.  Only positions that are so typed on both sides are compared
   (F8 explains a changed type, not a changed or unresolvable value). *)
Definition is_nsvalue_type (q : str) : bool :=
  str_eqb q (datatype_clark [81;78;97;109;101]) || str_eqb q (datatype_clark [78;79;84;65;84;73;79;78]).
Definition qname_value (m : nsmap) (k : itree) : option str :=
  let m' := i_nsd k ++ m in
  match attr_get xsi_type_q (i_atts k) with
  | Some v => if is_nsvalue_type (resolve_qname m' v) then Some (resolve_qname m' (i_text k)) else None
  | None => None
  end.
Fixpoint qvals_agree (mi mo : nsmap) (ki ko : list itree) : bool :=
  match ki, ko with
  | a :: r, b :: s => match qname_value mi a, qname_value mo b with
                      | Some x, Some y => str_eqb x y
                      | _, _ => true
                      end && qvals_agree mi mo r s
  | _, _ => true
  end.

Definition judge_obs (t : itree) (ob : obs) : N :=
  let o := oracle_of (ob_vtext ob) (ob_vtail ob) in
  let evs := pump o [] [] t in
  let mp := model_parse (ob_pl ob) evs in
  let c_ev := match ob_events ob with Some re => negb (list_eqb pevent_eqb evs re) | None => false end in
  let c_parse := negb (pobs_eqb mp (ob_parse ob)) in
  (* generator and writer are compared on the implementation's own parse result *)
  let mg := model_gen (ob_pl ob) (ob_parse ob) in
  let c_gen := match mg, ob_wev ob with
               | Some a, Some b => negb (list_eqb wevent_eqb a b)
               | None, None => false
               | None, Some _ => match ob_parse ob with POOther => false | _ => true end
               | Some _, None => true
               end in
  let mw := match ob_wev ob with Some e => write_tree e | None => None end in
  let c_write := match ob_wev ob with
                 | Some _ =>
                     (* output that the independent parsers reject cannot be compared here; it fails the oracle *)
                     negb (forallb (fun out => match out with
                                               | Some x => opt_eqb itree_eqb mw (Some (canon [] x))
                                               | None => true
                                               end) (ob_outs ob))
                 | None => false
                 end in
  let c_write_ns := match ob_wev ob with
                    | Some e => wev_prefix_free e &&
                        negb (forallb (fun out => opt_eqb itree_eqb mw (option_map (canon []) out)) (ob_outs_ns ob))
                    | None => false
                    end in
  let c_qname := match ob_pl ob with
                 | Some _ => negb (forallb (fun out => match out with
                                                       | Some x => qvals_agree (i_nsd t) (i_nsd x) (i_kids t) (i_kids x)
                                                       | None => true
                                                       end) (ob_outs ob))
                 | None => false
                 end in
  let app := applicable (ob_pl ob) t in
  let want := expected (ob_pl ob) t in
  (* the exception is a permission, not a duty: the output is normalised too *)
  let nrm := match ob_pl ob with None => norm_ws | Some p => norm_holders (pl_reg p) true end in
  let c_oracle :=
    app && negb (match ob_outs ob with
                 | [] => false
                 | outs => forallb (fun out => opt_eqb itree_eqb (Some want)
                                                       (option_map (fun x => nrm (canon [] x)) out)) outs
                 end) in
  let c_lax :=
    match ob_pl ob with
    | Some p => negb (xsd_valid p t) && match ob_parse ob with POObj _ => true | _ => false end
    | None => false
    end in
  bit c_ev 1 + bit c_parse 2 + bit c_gen 4 + bit c_write 8 + bit c_oracle 16 + bit c_lax 32
  + bit (negb (g_visible o [] t)) 64
  + bit (negb (g_nil [] t)) 128
  + bit (negb (g_rewrite [] t)) 256
  + bit (negb (g_dtclark [] t)) 512
  + bit (negb (g_xsitype [] t)) 1024
  + bit (negb (g_space [] t && match ob_pl ob with Some _ => ws_consistent (i_text t) | None => true end)) 2048
  + bit (match ob_pl ob with Some p => negb (g_first_level_reg (pl_reg p) [] t) | None => false end) 4096
  + bit (negb (tree_all g_names_node [] t)) 8192
  + bit (match ob_pl ob with Some p => negb (g_typed_tail (pl_reg p) (pl_cfg p) t) | None => false end) 16384
  + bit (match ob_pl ob with Some p => negb (g_single_tail (pl_reg p) (pl_cfg p) t) | None => false end) 32768
  + bit c_write_ns 65536 + bit c_qname 131072.

Fixpoint judge_list (t : itree) (i : N) (l : list obs) : list (N * N) :=
  match l with
  | [] => []
  | ob :: r => (i, judge_obs t ob) :: judge_list t (i + 1) r
  end.
Definition judge (c : case) : list (N * N) := judge_list (fst c) 0 (snd c).

Fixpoint judge_all (i : N) (l : list case) : list (N * N * N) :=
  match l with
  | [] => []
  | c :: r => map (fun oc => (i, fst oc, snd oc)) (judge c) ++ judge_all (i + 1) r
  end.
