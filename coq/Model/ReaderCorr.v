(* Model/ReaderCorr.v — agreement predicates (handler models <-> the REAL handlers) and the
   C08 handler oracle, evaluated in Coq by the generated case files of harness/c08.py.
   Also the computable guards the theorems of Properties/C08.v use. *)
From Coq Require Import NArith ZArith List Bool.
From XV Require Import Base.Str Base.Eqb Base.PyInt Model.Bind Model.Parser Model.ParserCorr Model.Reader.
Import ListNotations.
Open Scope N_scope.

Definition attrs_eqb : list (qname * str) -> list (qname * str) -> bool := list_eqb (pair_eqb str_eqb str_eqb).

(* exact equality of recorded events, prefix-map order included (dict insertion order) *)
Definition pevent_eqb (a b : pevent) : bool :=
  match a, b with
  | PStart q1 a1 n1, PStart q2 a2 n2 => str_eqb q1 q2 && attrs_eqb a1 a2 && nsmap_eqb n1 n2
  | PEnd q1 x1 l1, PEnd q2 x2 l2 => str_eqb q1 q2 && ostr_eqb x1 x2 && ostr_eqb l1 l2
  | PStartNs p1 u1, PStartNs p2 u2 => ostr_eqb p1 p2 && str_eqb u1 u2
  | _, _ => false
  end.
Definition events_eqb : list pevent -> list pevent -> bool := list_eqb pevent_eqb.

(* ---------------------------------------------------------------- guard of C08_handlers_agree *)
(* no namespace declaration below an element that is bound through a UnionNode: no start event
   with own declarations arrives while a UnionNode is on top of the parser's queue *)
Definition top_is_union (q : list node) : bool :=
  match q with NUnion _ :: _ => true | _ => false end.
Definition nonempty {A} (l : list A) : bool := match l with [] => false | _ => true end.

Section Guard.
  Variable cfg : pconfig.
  Variable c : conv.
  Variable u : universe.
  Variable replay : pconfig -> option cls -> list pevent -> outcome.
  Variable root : option cls.
  Fixpoint udf_loop (s : nstate) (toks : list tok) : bool :=
    match toks with
    | [] => true
    | t :: r =>
        match t with
        | TStart _ _ _ => negb (nonempty (n_pending s) && top_is_union (st_queue (n_ps s)))
        | _ => true
        end
        && match native_step cfg c u replay root s t with
           | inl s' => udf_loop s' r
           | inr _ => true
           end
    end.
End Guard.
Definition union_decl_free_n (n : nat) cfg c u root (toks : list tok) : bool :=
  udf_loop cfg c u (replay_n n c u) root native_init toks.
Definition union_decl_free cfg c u root (toks : list tok) : bool :=
  union_decl_free_n (length toks) cfg c u root toks.

(* well-formedness used by the theorems: an element does not declare the same prefix twice
   (XML: duplicate attribute).  [expat collects the declarations of one element in a dict,
   last wins; libxml2 keeps the first: they could differ only on such ill-formed input] *)
Fixpoint nodup_keys (d : nsmap) : bool :=
  match d with
  | [] => true
  | (k, _) :: r => negb (ns_mem k r) && nodup_keys r
  end.
Fixpoint decls_wf (e : xelem) : bool :=
  match e with
  | XE _ d _ _ ks _ => nodup_keys d && forallb decls_wf ks
  end.

(* ---------------------------------------------------------------- correspondence cases *)
Record rcase := mk_rcase {
  rc_cfg : pconfig;
  rc_tbl : conv_table;
  rc_u : universe;
  rc_root : option cls;
  rc_doc : xelem;
  rc_native_events : list pevent;      (* recorded by RecordParser(handler=XmlEventHandler) on the printed document *)
  rc_native_out : outcome;
  rc_native_rec : option nsmap;        (* parser.ns_map afterwards; None when the parse raised *)
  rc_lxml_events : list pevent;        (* RecordParser(handler=LxmlEventHandler), bytes source *)
  rc_lxml_out : outcome;
  rc_lxml_rec : option nsmap;
  rc_lxml_tree_events : list pevent;   (* LxmlEventHandler on an already parsed lxml tree (etree.iterwalk) *)
  rc_et_events : list pevent;          (* XmlEventHandler on an ElementTree element (native.iterwalk) *)
  rc_et_out : outcome
}.

Definition out_eqb (u : universe) : outcome -> outcome -> bool :=
  if has_union u then outcome_eqb_nolog else outcome_eqb.
Definition orec_eqb : option nsmap -> option nsmap -> bool := opt_eqb nsmap_eqb.

Definition agree_native_events (x : rcase) : bool :=
  events_eqb (native_events (rc_cfg x) (conv_of_table (rc_tbl x)) (rc_u x) (rc_root x) (doc_tokens (rc_doc x)))
             (rc_native_events x).
Definition agree_native_outcome (x : rcase) : bool :=
  out_eqb (rc_u x) (native_parse (rc_cfg x) (conv_of_table (rc_tbl x)) (rc_u x) (rc_root x) (doc_tokens (rc_doc x)))
          (rc_native_out x).
Definition agree_native_recorder (x : rcase) : bool :=
  let toks := doc_tokens (rc_doc x) in
  orec_eqb (native_recorder_n (length toks) (rc_cfg x) (conv_of_table (rc_tbl x)) (rc_u x) (rc_root x) toks)
           (rc_native_rec x).
Definition agree_lxml_events (x : rcase) : bool :=
  events_eqb (lxml_events (rc_cfg x) (conv_of_table (rc_tbl x)) (rc_u x) (rc_root x) (doc_tokens (rc_doc x)))
             (rc_lxml_events x).
Definition agree_lxml_outcome (x : rcase) : bool :=
  out_eqb (rc_u x) (lxml_parse (rc_cfg x) (conv_of_table (rc_tbl x)) (rc_u x) (rc_root x) (doc_tokens (rc_doc x)))
          (rc_lxml_out x).
Definition agree_lxml_recorder (x : rcase) : bool :=
  match rc_lxml_rec x with
  | Some r => nsmap_eqb (recorder_of [] (rc_lxml_events x)) r
  | None => true
  end.
Definition agree_lxml_tree_events (x : rcase) : bool :=
  events_eqb (rc_lxml_tree_events x) (rc_lxml_events x).
Definition agree_et_events (x : rcase) : bool :=
  events_eqb (native_events (rc_cfg x) (conv_of_table (rc_tbl x)) (rc_u x) (rc_root x) (et_tokens (rc_doc x)))
             (rc_et_events x).
Definition agree_et_outcome (x : rcase) : bool :=
  out_eqb (rc_u x) (native_parse (rc_cfg x) (conv_of_table (rc_tbl x)) (rc_u x) (rc_root x) (et_tokens (rc_doc x)))
          (rc_et_out x).

(* ---------------------------------------------------------------- oracle on the observations *)
(* C08 (handlers): the two handlers return equal objects (or both fail with the same error)
   for the same document *)
Definition oracle_handlers_agree (x : rcase) : bool := out_eqb (rc_u x) (rc_native_out x) (rc_lxml_out x).
Definition oracle_et_agrees (x : rcase) : bool := out_eqb (rc_u x) (rc_et_out x) (rc_lxml_out x).

(* the theorem's guard, computed with the theorem's own definition *)
Definition guard_handlers (x : rcase) : bool :=
  union_decl_free (rc_cfg x) (conv_of_table (rc_tbl x)) (rc_u x) (rc_root x) (doc_tokens (rc_doc x))
  && decls_wf (rc_doc x).

(* narrow class of finding C08-F7: outside the guard AND the faithful models reproduce the
   difference *)
Definition models_differ (x : rcase) : bool :=
  negb (out_eqb (rc_u x)
          (native_parse (rc_cfg x) (conv_of_table (rc_tbl x)) (rc_u x) (rc_root x) (doc_tokens (rc_doc x)))
          (lxml_parse (rc_cfg x) (conv_of_table (rc_tbl x)) (rc_u x) (rc_root x) (doc_tokens (rc_doc x)))).
Definition explained_by_union_decls (x : rcase) : bool := negb (guard_handlers x) && models_differ x.
(* finding C08-F1: the ElementTree walk regenerates prefixes; the model reproduces the difference *)
Definition et_models_differ (x : rcase) : bool :=
  negb (out_eqb (rc_u x)
          (native_parse (rc_cfg x) (conv_of_table (rc_tbl x)) (rc_u x) (rc_root x) (et_tokens (rc_doc x)))
          (lxml_parse (rc_cfg x) (conv_of_table (rc_tbl x)) (rc_u x) (rc_root x) (doc_tokens (rc_doc x)))).

(* pointwise agreement of the two recorded streams up to lookup-equivalent maps, wherever the
   parser model does not skip (conclusion of C08_pumps_agree evaluated on the observations) *)
Definition pevent_equivb (a b : pevent) : bool :=
  match a, b with
  | PStart q1 a1 n1, PStart q2 a2 n2 => str_eqb q1 q2 && attrs_eqb a1 a2 && ns_equivb n1 n2
  | _, _ => pevent_eqb a b
  end.

Fixpoint forallb2_pe (a b : list pevent) : bool :=
  match a, b with
  | [], [] => true
  | x :: a', y :: b' => pevent_equivb x y && forallb2_pe a' b'
  | _, _ => false
  end.
