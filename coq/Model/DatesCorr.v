(* Model/DatesCorr.v — agreement predicates used by the generated case files of
   the C06 correspondence check, and the C06 oracles (specification evaluated on
   the implementation's observed answers). *)
From Coq Require Import NArith ZArith List Bool PrimFloat.
From XV Require Import Base.Str Base.Dec Base.PyInt Base.Eqb Model.Dates Model.DatesStd Spec.XsdDates.
Import ListNotations.
Open Scope Z_scope.

Definition date_tuple (v : xdate) : list (option Z) :=
  [Some (d_year v); Some (d_month v); Some (d_day v); d_offset v].
Definition time_tuple (v : xtime) : list (option Z) :=
  [Some (t_hour v); Some (t_minute v); Some (t_second v); Some (t_frac v); t_offset v].
Definition datetime_tuple (v : xdatetime) : list (option Z) :=
  [Some (dt_year v); Some (dt_month v); Some (dt_day v); Some (dt_hour v); Some (dt_minute v);
   Some (dt_second v); Some (dt_frac v); dt_offset v].

Definition of_date_tuple (l : list (option Z)) : option xdate :=
  match l with [Some y; Some m; Some d; o] => Some (mk_xdate y m d o) | _ => None end.
Definition of_time_tuple (l : list (option Z)) : option xtime :=
  match l with [Some h; Some mi; Some s; Some f; o] => Some (mk_xtime h mi s f o) | _ => None end.
Definition of_datetime_tuple (l : list (option Z)) : option xdatetime :=
  match l with
  | [Some y; Some m; Some d; Some h; Some mi; Some s; Some f; o] => Some (mk_xdatetime y m d h mi s f o)
  | _ => None end.

(* ---- correspondence: model output = observed implementation output ---- *)
(* observed: None = ValueError, Some tuple = returned value *)
Definition agree_date_from_string (c : str * option (list (option Z))) : bool :=
  opt_eqb loZ_eqb (option_map date_tuple (date_from_string (fst c))) (snd c).
Definition agree_time_from_string (c : str * option (list (option Z))) : bool :=
  opt_eqb loZ_eqb (option_map time_tuple (time_from_string (fst c))) (snd c).
Definition agree_datetime_from_string (c : str * option (list (option Z))) : bool :=
  opt_eqb loZ_eqb (option_map datetime_tuple (datetime_from_string (fst c))) (snd c).

Definition agree_date_str (c : list (option Z) * str) : bool :=
  match of_date_tuple (fst c) with Some v => str_eqb (date_str v) (snd c) | None => false end.
Definition agree_time_str (c : list (option Z) * str) : bool :=
  match of_time_tuple (fst c) with Some v => str_eqb (time_str v) (snd c) | None => false end.
Definition agree_datetime_str (c : list (option Z) * str) : bool :=
  match of_datetime_tuple (fst c) with Some v => str_eqb (datetime_str v) (snd c) | None => false end.

Definition period_tuple (p : xperiod) : list (option Z) := [p_year p; p_month p; p_day p; p_offset p].
Definition agree_period (c : str * option (list (option Z))) : bool :=
  opt_eqb loZ_eqb (option_map period_tuple (period_parse (fst c))) (snd c).

(* duration: (value, implementation's own regex group for seconds, whether CPython's
   float() accepts that text, observed components or None for ValueError) *)
Definition dur_tuple (d : xduration) : bool * list (option Z) :=
  (du_neg d, [du_years d; du_months d; du_days d; du_hours d; du_minutes d]).
Definition agree_duration (c : str * (option str * bool) * option (bool * list (option Z))) : bool :=
  let '(value, (sec_text, float_ok), obs) := c in
  match duration_parse value with
  | None => match obs with None => true | Some _ => false end
  | Some d =>
      ostr_eqb (du_seconds d) sec_text &&
      (if float_ok then
         match obs with
         | Some o => Bool.eqb (fst o) (du_neg d) && loZ_eqb (snd o) (snd (dur_tuple d))
         | None => false
         end
       else match obs with None => true | Some _ => false end)
  end.

(* ordering: the six comparison results and both float durations (bit-exact) *)
(* durations are finite numbers; -0.0 = 0.0 is irrelevant for them *)
Definition f_eqb_bits (a b : float) : bool := PrimFloat.eqb a b.

Definition cmp6 (lt eq : bool) : list bool := [lt; eq; lt || eq; negb (lt || eq); negb lt; negb eq].
Definition lb_eqb := list_eqb Bool.eqb.

Definition agree_time_cmp (c : list (option Z) * list (option Z) * (list bool * float * float)) : bool :=
  let '(a, b, (obs, da, db)) := c in
  match of_time_tuple a, of_time_tuple b with
  | Some x, Some y =>
      lb_eqb (cmp6 (time_lt x y) (time_eq x y)) obs
      && f_eqb_bits (pn_f (time_duration x)) da && f_eqb_bits (pn_f (time_duration y)) db
  | _, _ => false
  end.
Definition agree_datetime_cmp (c : list (option Z) * list (option Z) * (list bool * float * float)) : bool :=
  let '(a, b, (obs, da, db)) := c in
  match of_datetime_tuple a, of_datetime_tuple b with
  | Some x, Some y =>
      lb_eqb (cmp6 (datetime_lt x y) (datetime_eq x y)) obs
      && f_eqb_bits (pn_f (datetime_duration x)) da && f_eqb_bits (pn_f (datetime_duration y)) db
  | _, _ => false
  end.

(* ---- oracles: the specification judged on the implementation's answers ---- *)
(* accepted => denotes a real date / time of day *)
Definition oracle_date_real (c : str * option (list (option Z))) : bool :=
  match snd c with
  | Some [Some y; Some m; Some d; _] => real_date y m d
  | Some _ => false
  | None => true
  end.
Definition oracle_time_real (c : str * option (list (option Z))) : bool :=
  match snd c with
  | Some [Some h; Some mi; Some s; Some f; _] => real_time h mi s f
  | Some _ => false
  | None => true
  end.
Definition oracle_datetime_real (c : str * option (list (option Z))) : bool :=
  match snd c with
  | Some [Some y; Some m; Some d; Some h; Some mi; Some s; Some f; _] => real_date y m d && real_time h mi s f
  | Some _ => false
  | None => true
  end.

(* every XSD-valid spelling (surrounded by XML whitespace) is accepted with the XSD value *)
Definition oracle_date_accepts (c : date_sp * str * str * str * option (list (option Z))) : bool :=
  let '(sp, a, b, s, obs) := c in
  negb (wf_date sp && forallb xml_ws a && forallb xml_ws b && str_eqb s (a ++ lex_date sp ++ b))
  || loZ_eqb (match obs with Some l => l | None => [] end)
       [Some (val_year (ds_year sp)); Some (ds_month sp); Some (ds_day sp); val_tz (ds_tz sp)].
Definition oracle_time_accepts (c : time_sp * str * str * str * option (list (option Z))) : bool :=
  let '(sp, a, b, s, obs) := c in
  negb (wf_time sp && forallb xml_ws a && forallb xml_ws b && str_eqb s (a ++ lex_time sp ++ b))
  || loZ_eqb (match obs with Some l => l | None => [] end)
       [Some (ts_hour sp); Some (ts_minute sp); Some (ts_second sp); Some (val_frac (ts_frac sp)); val_tz (ts_tz sp)].
Definition oracle_datetime_accepts (c : datetime_sp * str * str * str * option (list (option Z))) : bool :=
  let '(sp, a, b, s, obs) := c in
  negb (wf_datetime sp && forallb xml_ws a && forallb xml_ws b && str_eqb s (a ++ lex_datetime sp ++ b))
  || loZ_eqb (match obs with Some l => l | None => [] end)
       [Some (val_year (dts_year sp)); Some (dts_month sp); Some (dts_day sp); Some (dts_hour sp);
        Some (dts_minute sp); Some (dts_second sp); Some (val_frac (dts_frac sp)); val_tz (dts_tz sp)].
(* the guard of these oracles must not be vacuous: the harness also counts it *)
Definition guard_date_accepts (c : date_sp * str * str * str * option (list (option Z))) : bool :=
  let '(sp, a, b, s, obs) := c in
  wf_date sp && forallb xml_ws a && forallb xml_ws b && str_eqb s (a ++ lex_date sp ++ b).

(* formatting a valid value gives an XSD-valid string denoting the value:
   the canonical spelling of the value, printed by the specification, equals
   the implementation's string *)
Definition canon_year (y : Z) : year_sp :=
  mk_year_sp (y <? 0) (zfill 4 (to_dec (Z.to_N (Z.abs y)))).
Definition canon_tz (o : option Z) : tz_sp :=
  match o with
  | None => TzNone
  | Some z => if z =? 0 then TzZ else TzOff (z <? 0) (Z.abs z / 60) (Z.abs z mod 60)
  end.
Definition trim_frac (f : Z) : str :=
  if f =? 0 then [] else
  if negb (f mod 1000 =? 0) then zfill 9 (to_dec (Z.to_N f))
  else if negb ((f / 1000) mod 1000 =? 0) then zfill 6 (to_dec (Z.to_N (f / 1000)))
  else zfill 3 (to_dec (Z.to_N (f / 1000000))).

Definition valid_date_value (v : xdate) : bool :=
  real_date (d_year v) (d_month v) (d_day v) && real_offset (d_offset v).
Definition valid_time_value (v : xtime) : bool :=
  real_time (t_hour v) (t_minute v) (t_second v) (t_frac v) && real_offset (t_offset v).
Definition valid_datetime_value (v : xdatetime) : bool :=
  real_date (dt_year v) (dt_month v) (dt_day v)
  && real_time (dt_hour v) (dt_minute v) (dt_second v) (dt_frac v) && real_offset (dt_offset v).

Definition canon_date (v : xdate) : date_sp :=
  mk_date_sp (canon_year (d_year v)) (d_month v) (d_day v) (canon_tz (d_offset v)).
Definition canon_time (v : xtime) : time_sp :=
  mk_time_sp (t_hour v) (t_minute v) (t_second v) (trim_frac (t_frac v)) (canon_tz (t_offset v)).
Definition canon_datetime (v : xdatetime) : datetime_sp :=
  mk_datetime_sp (canon_year (dt_year v)) (dt_month v) (dt_day v) (dt_hour v) (dt_minute v) (dt_second v)
                 (trim_frac (dt_frac v)) (canon_tz (dt_offset v)).

Definition oracle_date_str (c : list (option Z) * str) : bool :=
  match of_date_tuple (fst c) with
  | Some v => negb (valid_date_value v)
              || (wf_date (canon_date v) && str_eqb (lex_date (canon_date v)) (snd c))
  | None => false
  end.
Definition oracle_time_str (c : list (option Z) * str) : bool :=
  match of_time_tuple (fst c) with
  | Some v => negb (valid_time_value v)
              || (wf_time (canon_time v) && str_eqb (lex_time (canon_time v)) (snd c))
  | None => false
  end.
Definition oracle_datetime_str (c : list (option Z) * str) : bool :=
  match of_datetime_tuple (fst c) with
  | Some v => negb (valid_datetime_value v)
              || (wf_datetime (canon_datetime v) && str_eqb (lex_datetime (canon_datetime v)) (snd c))
  | None => false
  end.

(* ordering agrees with the timeline *)
Definition cmp6Z (a b : Z) : list bool := cmp6 (a <? b) (a =? b).
Definition oracle_time_order (c : list (option Z) * list (option Z) * (list bool * float * float)) : bool :=
  let '(a, b, (obs, _, _)) := c in
  match of_time_tuple a, of_time_tuple b with
  | Some x, Some y =>
      negb (valid_time_value x && valid_time_value y)
      || lb_eqb obs (cmp6Z (time_ns (t_hour x) (t_minute x) (t_second x) (t_frac x) (t_offset x))
                           (time_ns (t_hour y) (t_minute y) (t_second y) (t_frac y) (t_offset y)))
  | _, _ => false
  end.
Definition dt_instant (x : xdatetime) : Z :=
  instant_ns (dt_year x) (dt_month x) (dt_day x) (dt_hour x) (dt_minute x) (dt_second x) (dt_frac x) (dt_offset x).
Definition oracle_datetime_order (c : list (option Z) * list (option Z) * (list bool * float * float)) : bool :=
  let '(a, b, (obs, _, _)) := c in
  match of_datetime_tuple a, of_datetime_tuple b with
  | Some x, Some y =>
      negb (valid_datetime_value x && valid_datetime_value y)
      || lb_eqb obs (cmp6Z (dt_instant x) (dt_instant y))
  | _, _ => false
  end.

(* conversions to/from datetime.datetime / datetime.time / datetime.date preserve the instant.
   Judged on the implementation's answers: (value, value converted back, microseconds since
   1970-01-01T00:00:00Z of the stdlib object).  The stdlib types hold years 1..9999, hours < 24
   and microseconds: the oracle applies to values in that range whose fraction is a whole
   number of microseconds. *)
Definition epoch_days : Z := days_from_civil 1970 1 1.
Definition std_representable (x : xdatetime) : bool :=
  (1 <=? dt_year x) && (dt_year x <=? 9999) && (dt_hour x <? 24) && (dt_frac x mod 1000 =? 0).
Definition oracle_datetime_std (c : list (option Z) * list (option Z) * Z) : bool :=
  let '(v, back, us) := c in
  match of_datetime_tuple v with
  | Some x =>
      negb (valid_datetime_value x && std_representable x)
      || (loZ_eqb v back && (dt_instant x =? (us + epoch_days * 86400 * 1000000) * 1000))
  | None => false
  end.
Definition oracle_time_std (c : list (option Z) * list (option Z) * list (option Z)) : bool :=
  let '(v, back, t) := c in
  match of_time_tuple v with
  | Some x =>
      negb (valid_time_value x && (t_hour x <? 24) && (t_frac x mod 1000 =? 0))
      || (loZ_eqb v back
          && loZ_eqb t [Some (t_hour x); Some (t_minute x); Some (t_second x); Some (t_frac x / 1000);
                        match t_offset x with Some o => Some (o * 60) | None => None end])
  | None => false
  end.

(* str() of XmlDuration / XmlPeriod: (input text, observed str() or None when the constructor raised) *)
(* for durations the constructor also needs CPython's float() to accept the seconds text (the regex's `.` matches any
   character: 'PT1X2S' passes the pattern and fails in float()); float_ok is observed, as in agree_duration *)
Definition agree_duration_str (c : str * bool * option str) : bool :=
  let '(s, float_ok, obs) := c in
  opt_eqb str_eqb (if float_ok then duration_str s else None) obs.
Definition agree_period_str (c : str * option str) : bool := opt_eqb str_eqb (period_str (fst c)) (snd c).

(* ---- standard-library conversions: model = implementation (Model/DatesStd.v) ---- *)
(* observed: None = the conversion raised; Some (fields of the stdlib object with utcoffset in SECONDS,
   the value converted back) *)
Definition off_secs (o : option Z) : option Z := option_map (fun z => z * 60) o.
Definition pydt_tuple (p : pydatetime) : list (option Z) :=
  [Some (sd_year p); Some (sd_month p); Some (sd_day p); Some (sd_hour p); Some (sd_minute p); Some (sd_second p);
   Some (sd_us p); off_secs (sd_off p)].
Definition pyt_tuple (q : pytime) : list (option Z) :=
  [Some (q_hour q); Some (q_minute q); Some (q_second q); Some (q_us q); off_secs (q_off q)].
Definition agree_datetime_std (c : list (option Z) * option (list (option Z) * list (option Z))) : bool :=
  let '(v, obs) := c in
  match of_datetime_tuple v with
  | Some x =>
      match datetime_to_std x, obs with
      | None, None => true
      | Some p, Some (fields, back) =>
          loZ_eqb (pydt_tuple p) fields && loZ_eqb (datetime_tuple (datetime_from_std p)) back
      | _, _ => false
      end
  | None => false
  end.
Definition agree_time_std (c : list (option Z) * option (list (option Z) * list (option Z))) : bool :=
  let '(v, obs) := c in
  match of_time_tuple v with
  | Some x =>
      match time_to_std x, obs with
      | None, None => true
      | Some q, Some (fields, back) =>
          loZ_eqb (pyt_tuple q) fields && loZ_eqb (time_tuple (time_from_std q)) back
      | _, _ => false
      end
  | None => false
  end.
(* XmlDate: to_date, to_datetime and both ways back *)
Definition agree_date_std (c : list (option Z) * option (list (option Z) * list (option Z) * list (option Z) * list (option Z))) : bool :=
  let '(v, obs) := c in
  match of_date_tuple v with
  | Some x =>
      match date_to_date x, date_to_datetime x, obs with
      | None, _, None | _, None, None => true
      | Some r, Some p, Some (dfields, dtfields, back_d, back_dt) =>
          loZ_eqb [Some (r_year r); Some (r_month r); Some (r_day r)] dfields
          && loZ_eqb (pydt_tuple p) dtfields
          && loZ_eqb (date_tuple (date_from_date r)) back_d
          && loZ_eqb (date_tuple (date_from_datetime p)) back_dt
      | _, _, _ => false
      end
  | None => false
  end.
(* the specification's microsecond timeline is CPython's: (fields with utcoffset seconds, (obj - epoch) in us) *)
Definition oracle_std_instant (c : list (option Z) * Z) : bool :=
  match fst c with
  | [Some y; Some m; Some d; Some h; Some mi; Some s; Some us; o] =>
      instant_us y m d h mi s us (option_map (fun z => z / 60) o) =? snd c + epoch_days * 86400 * 1000000
  | _ => false
  end.
(* XmlTime.now(tz) / utcnow() / XmlDateTime.now(tz): (expected offset, value, wall-clock us-of-day of
   reference readings of datetime.now(tz) taken before and after) *)
Definition oracle_time_now (c : option Z * list (option Z) * Z * Z) : bool :=
  let '(tz, t, lo, hi) := c in
  match of_time_tuple t with
  | Some x =>
      let tod := ((t_hour x * 3600 + t_minute x * 60 + t_second x) * 1000000 + t_frac x / 1000) in
      opt_eqb Z.eqb (t_offset x) tz && ((hi <? lo) || ((lo <=? tod) && (tod <=? hi)))
  | None => false
  end.
Definition oracle_datetime_now (c : option Z * list (option Z) * Z * Z) : bool :=
  let '(tz, t, lo, hi) := c in
  match of_datetime_tuple t with
  | Some x =>
      let tod := ((dt_hour x * 3600 + dt_minute x * 60 + dt_second x) * 1000000 + dt_frac x / 1000) in
      opt_eqb Z.eqb (dt_offset x) tz && ((hi <? lo) || ((lo <=? tod) && (tod <=? hi)))
  | None => false
  end.

(* every xs:duration spelling is accepted with the XSD components (judged on the implementation) *)
Definition oracle_duration_accepts (c : duration_sp * str * option (bool * list (option Z)) * option str) : bool :=
  let '(sp, s, obs, sec_text) := c in
  negb (wf_duration sp && str_eqb s (lex_duration sp))
  || match obs with
     | Some (neg, comps) =>
         Bool.eqb neg (du_sp_neg sp)
         && loZ_eqb comps [val_comp (du_sp_y sp); val_comp (du_sp_mo sp); val_comp (du_sp_d sp); val_comp (du_sp_h sp); val_comp (du_sp_mi sp)]
         && ostr_eqb sec_text (secs_text (du_sp_s sp))
     | None => false
     end.

(* every g* spelling is accepted with the XSD components (judged on the implementation) *)
Definition oracle_period_accepts (c : period_sp * str * option (list (option Z))) : bool :=
  let '(sp, s, obs) := c in
  negb (wf_period sp && str_eqb s (lex_period sp))
  || match obs with
     | Some l => let '(y, m, d, o) := val_period sp in loZ_eqb l [y; m; d; o]
     | None => false
     end.

(* ---- replace: (value, positional keyword arguments, offset argument (None = the sentinel True), observed) ---- *)
Definition off_of (a : option (option Z)) : off_arg := match a with None => OffKeep | Some o => OffSet o end.
Definition agree_date_replace (c : list (option Z) * list (option Z) * option (option Z) * list (option Z)) : bool :=
  let '(v, args, o, obs) := c in
  match of_date_tuple v, args with
  | Some x, [y; m; d] => loZ_eqb (date_tuple (date_replace x y m d (off_of o))) obs
  | _, _ => false end.
Definition agree_time_replace (c : list (option Z) * list (option Z) * option (option Z) * list (option Z)) : bool :=
  let '(v, args, o, obs) := c in
  match of_time_tuple v, args with
  | Some x, [h; mi; s; f] => loZ_eqb (time_tuple (time_replace x h mi s f (off_of o))) obs
  | _, _ => false end.
Definition agree_datetime_replace (c : list (option Z) * list (option Z) * option (option Z) * list (option Z)) : bool :=
  let '(v, args, o, obs) := c in
  match of_datetime_tuple v, args with
  | Some x, [y; m; d; h; mi; s; f] => loZ_eqb (datetime_tuple (datetime_replace x y m d h mi s f (off_of o))) obs
  | _, _ => false end.
