(* Model/Sched.v — concurrent use of one shared XmlContext (C19).

   Every context method is cut into *atomic actions* at the granularity of one
   source line of xsdata/formats/dataclass/context.py that touches shared state:
   one dict membership test / read / store, one attribute read / store.
   Everything else a method does (building metadata in builders.py, walking the
   class hierarchy and filling the *local* index of build_xsi_cache, comparing
   names, reading a list it was handed) is thread-local and happens "inside" the
   next action.  Thread programs are interaction trees over these actions
   (`mscript`), obtained from the call-level scripts of Model/Context.v by `expand`.
   A schedule is a list of thread numbers; after the schedule the remaining
   threads run to completion one after the other.

   Since /repo commit ece294b build_xsi_cache fills a local dict and publishes it
   with one assignment; no action of this alphabet mutates a list object of the
   index in place any more (local_names_match, which does, is outside it), so a
   reference to such a list is modelled by its content.
   No proofs in this file. *)
From Coq Require Import String Ascii NArith List Bool.
From XV Require Import Base.Str Base.Eqb Model.Context.
Import ListNotations.
Open Scope N_scope.

Record sstate := mkS {
  s_cache : list (cid * meta);            (* XmlContext.cache *)
  s_xsi : list (str * list cid);          (* XmlContext.xsi_cache *)
  s_seen : N;                             (* XmlContext.sys_modules *)
  s_unsup : list cid }.                   (* XmlContext.unsupported *)

Definition s0 : sstate := mkS [] [] 0 [].

Inductive act :=
| ACacheHas (c : cid)                (* build:           if clazz not in self.cache: *)
| ACacheSet (c : cid) (m : meta)     (* build:           self.cache[clazz] = builder.build(clazz, parent_ns) *)
| ACacheGet (c : cid)                (* build:           return self.cache[clazz] *)
| ASeenRead                          (* build_xsi_cache: if len(sys.modules) == self.sys_modules: *)
| AXsiPublish (ix : list (str * list cid))   (* build_xsi_cache: self.xsi_cache = index *)
| ASeenWrite                         (* build_xsi_cache: self.sys_modules = len(sys.modules) *)
| AXsiHas (q : str)                  (* find_types:      if qname in self.xsi_cache: *)
| AXsiRef (q : str)                  (* find_types:      return self.xsi_cache[qname] *)
| AStoreFail (c : cid)               (* build: the same store line, builder.build raised *)
| ASeenReadAll                       (* find_type_by_fields: the currency check of its build_xsi_cache, when the
                                        index is current; `self.xsi_cache.values()` is taken before the thread
                                        reaches another marked line *)
| ASeenWriteAll                      (* the same with the last line of a rebuild *)
| AUnsupHas (c : cid)                (* local_names_match: if clazz in self.unsupported: *)
| AUnsupAdd (c : cid)                (* local_names_match: self.unsupported.add(clazz) *)
| ACacheGetDiff (c : cid)            (* find_type_by_fields.get_field_diff: meta = self.cache[clazz] *)
| ACacheHasRec (c : cid).            (* build_recursive: if clazz not in self.cache: *)

Inductive aans :=
| RBool (b : bool) | RMeta (o : option meta) | RNum (n : N) | RClss (l : list cid) | RUnit
| RNumIx (n : N) (ix : list (str * list cid)) | RIx (ix : list (str * list cid)).

Fixpoint cache_set (l : list (cid * meta)) (c : cid) (m : meta) : list (cid * meta) :=
  match l with
  | [] => [(c, m)]
  | (k, v) :: r => if N.eqb k c then (k, m) :: r else (k, v) :: cache_set r c m
  end.

Definition do_act (w : world) (st : sstate) (a : act) : sstate * aans :=
  match a with
  | ACacheHas c => (st, RBool (match cache_get (s_cache st) c with Some _ => true | None => false end))
  | ACacheSet c m => (mkS (cache_set (s_cache st) c m) (s_xsi st) (s_seen st) (s_unsup st), RUnit)
  | ACacheGet c => (st, RMeta (cache_get (s_cache st) c))
  | ASeenRead => (st, RNum (s_seen st))
  | AXsiPublish ix => (mkS (s_cache st) ix (s_seen st) (s_unsup st), RUnit)
  | ASeenWrite => (mkS (s_cache st) (s_xsi st) (w_modules w) (s_unsup st), RUnit)
  | AXsiHas q => (st, RBool (match index_get (s_xsi st) q with Some _ => true | None => false end))
  | AXsiRef q =>
      (* a defaultdict: a missing key is inserted with a new empty list *)
      match index_get (s_xsi st) q with
      | Some l => (st, RClss l)
      | None => (mkS (s_cache st) (s_xsi st ++ [(q, [])]) (s_seen st) (s_unsup st), RClss [])
      end
  | AStoreFail _ => (st, RUnit)
  | ASeenReadAll => (st, RNumIx (s_seen st) (s_xsi st))
  | ASeenWriteAll => (mkS (s_cache st) (s_xsi st) (w_modules w) (s_unsup st), RIx (s_xsi st))
  | AUnsupHas c => (st, RBool (memN c (s_unsup st)))
  | AUnsupAdd c => (mkS (s_cache st) (s_xsi st) (s_seen st) (if memN c (s_unsup st) then s_unsup st else s_unsup st ++ [c]), RUnit)
  | ACacheGetDiff c => (st, RMeta (cache_get (s_cache st) c))
  | ACacheHasRec c => (st, RBool (match cache_get (s_cache st) c with Some _ => true | None => false end))
  end.

(* label of an action: which marked source line it is (for the replay on the
   implementation: harness/c19.py maps the numbers to (function, line text)) *)
Definition act_label (a : act) : nat :=
  match a with
  | ACacheHas _ => 1 | ACacheSet _ _ => 2 | ACacheGet _ => 3 | ASeenRead => 4 | AXsiPublish _ => 5
  | ASeenWrite => 7 | AXsiHas _ => 8 | AXsiRef _ => 9 | AStoreFail _ => 2
  | ASeenReadAll => 4 | ASeenWriteAll => 7 | AUnsupHas _ => 12 | AUnsupAdd _ => 13 | ACacheGetDiff _ => 14
  | ACacheHasRec _ => 15
  end%nat.

Inductive mscript :=
| MRet (r : res)
| MAct (a : act) (k : aans -> mscript).

Definition e_key : str := lit "KeyError".
Definition e_internal : str := lit "MODEL-TYPE-ERROR".
Definition e_conc_unsupported : str := lit "UNSUPPORTED-CONCURRENT".
Definition mbad : mscript := MRet (RErr e_internal []).

(* XmlContext.build *)
Definition m_get (c : cid) (k : option meta -> mscript) : mscript :=
  MAct (ACacheGet c) (fun a => match a with
                               | RMeta (Some m) => k (Some m)
                               | RMeta None => MRet (RErr e_key [])
                               | _ => mbad
                               end).
Definition m_build (w : world) (c : cid) (pns : ostr) (k : option meta -> mscript) : mscript :=
  MAct (ACacheHas c) (fun a =>
    match a with
    | RBool true => m_get c k
    | RBool false =>
        match ideal_build w c pns with
        | Some m => MAct (ACacheSet c m) (fun _ => m_get c k)
        | None => MAct (AStoreFail c) (fun _ => k None)
        end
    | _ => mbad
    end).

(* XmlContext.build_xsi_cache: the new index is filled locally, then published *)
Definition m_build_xsi (w : world) (k : mscript) : mscript :=
  MAct ASeenRead (fun a =>
    match a with
    | RNum n =>
        if N.eqb (w_modules w) n then k
        else MAct (AXsiPublish (ideal_index w)) (fun _ => MAct ASeenWrite (fun _ => k))
    | _ => mbad
    end).

(* XmlContext.find_types *)
Definition m_find_types (w : world) (q : str) (k : list cid -> mscript) : mscript :=
  if is_datatype_qname q then k []
  else m_build_xsi w (MAct (AXsiHas q) (fun a =>
         match a with
         | RBool true => MAct (AXsiRef q) (fun a' => match a' with RClss l => k l | _ => mbad end)
         | RBool false => k []
         | _ => mbad
         end)).

(* XmlContext.find_type, find_subclass: they read the list they were handed *)
Definition m_find_type (w : world) (q : str) (k : option cid -> mscript) : mscript :=
  m_find_types w q (fun l => k (last (map Some l) None)).
Definition m_find_subclass (w : world) (c : cid) (q : str) (k : option cid -> mscript) : mscript :=
  m_find_types w q (fun l => k (find (subclass_candidate w c) l)).

(* XmlContext.fetch *)
Definition m_fetch (w : world) (c : cid) (pns xt : ostr) (k : option meta -> mscript) : mscript :=
  m_build w c pns (fun om =>
    match om with
    | None => k None
    | Some m =>
        match truthy xt with
        | Some q =>
            if ostr_eqb (m_tq m) (Some q) then k (Some m)
            else m_find_subclass w c q (fun sub =>
                   match sub with
                   | Some s => m_build w s pns k
                   | None => k (Some m)
                   end)
        | None => k (Some m)
        end
    end).

(* XmlContext.local_names_match *)
Definition m_names_match (w : world) (names : list str) (c : cid) (k : bool -> mscript) : mscript :=
  MAct (AUnsupHas c) (fun a =>
    match a with
    | RBool true => k false
    | RBool false =>
        m_build w c None (fun om =>
          match om with
          | Some m => k (subset_str names (local_names m))
          | None => match find_class w c with
                    | Some _ => MAct (AUnsupAdd c) (fun _ => k false)
                    | None => k false
                    end
          end)
    | _ => mbad
    end).

(* the comprehension of find_type_by_fields over the classes of the captured index:
   local_names_match, then get_field_diff for the classes that match *)
Fixpoint m_scan (w : world) (names : list str) (l : list cid) (acc : list (cid * (nat * str)))
  (k : list (cid * (nat * str)) -> mscript) : mscript :=
  match l with
  | [] => k acc
  | c :: r =>
      m_names_match w names c (fun ok =>
        if ok then
          MAct (ACacheGetDiff c) (fun a =>
            match a with
            | RMeta (Some m) => m_scan w names r (acc ++ [(c, (field_diff names m, class_name w c))]) k
            | RMeta None => MRet (RErr e_key [])
            | _ => mbad
            end)
        else m_scan w names r acc k)
  end.

(* XmlContext.find_type_by_fields *)
Definition m_find_by_fields (w : world) (names : list str) (k : option cid -> mscript) : mscript :=
  let go := fun ix => m_scan w names (flat_map snd ix) [] (fun scored => k (min_by scored None)) in
  MAct ASeenReadAll (fun a =>
    match a with
    | RNumIx n ix =>
        if N.eqb (w_modules w) n then go ix
        else MAct (AXsiPublish (ideal_index w)) (fun _ =>
               MAct ASeenWriteAll (fun a' => match a' with RIx ix' => go ix' | _ => mbad end))
    | _ => mbad
    end).

(* XmlContext.build_recursive; the answer is false when XmlContextError escaped *)
Fixpoint m_build_rec (fuel : nat) (w : world) (c : cid) (pns : ostr) (k : bool -> mscript) : mscript :=
  match fuel with
  | O => k true
  | S f =>
      MAct (ACacheHasRec c) (fun a =>
        match a with
        | RBool true => k true
        | RBool false =>
            m_build w c pns (fun om =>
              match om with
              | None => k false
              | Some m =>
                  (fix loop (vars : list var) : mscript :=
                     match vars with
                     | [] => k true
                     | v :: r =>
                         match v_type v with
                         | TCls t => m_build_rec f w t (m_ns m) (fun ok => if ok then loop r else k false)
                         | _ => loop r
                         end
                     end) (m_vars m)
              end)
        | _ => mbad
        end)
  end.
Definition rec_fuel (w : world) : nat := S (List.length (w_classes w)).

(* a call-level script as a thread program.  Calls whose concurrent behaviour is
   not cut into actions end the program with a marker (never agreement). *)
Fixpoint expand (w : world) (s : script) : mscript :=
  match s with
  | Ret r => MRet r
  | Call c k =>
      match c with
      | CBuild c pns => m_build w c pns (fun om => expand w (k (ans_of_ometa om)))
      | CFetch c pns xt => m_fetch w c pns xt (fun om => expand w (k (ans_of_ometa om)))
      | CFindType q => m_find_type w q (fun oc => expand w (k (ACls oc)))
      | CFindTypes q => m_find_types w q (fun l => expand w (k (AClss l)))
      | CFindSubclass c q => m_find_subclass w c q (fun oc => expand w (k (ACls oc)))
      | CFindByFields names => m_find_by_fields w names (fun oc => expand w (k (ACls oc)))
      | CLocalNamesMatch names c => m_names_match w names c (fun b => expand w (k (ABool b)))
      | CBuildRecursive c pns => m_build_rec (rec_fuel w) w c pns (fun ok =>
                                   expand w (k (if ok then AUnit else AErr e_context)))
      | CRegister _ _ => expand w (k AUnit)          (* the parser's own recorder: write-only (C14) *)
      | _ => MRet (RErr e_conc_unsupported [])
      end
  end.

(* the call-level reference semantics restricted in the same way, answering lookups
   from a given index E *)
Definition supported (c : call) : bool :=
  match c with
  | CBuild _ _ | CFetch _ _ _ | CFindType _ | CFindTypes _ | CFindSubclass _ _ | CRegister _ _
  | CFindByFields _ | CLocalNamesMatch _ _ | CBuildRecursive _ _ => true
  | _ => false
  end.
Definition ref_lookup (E : list (str * list cid)) (q : str) : list cid :=
  if is_datatype_qname q then []
  else match index_get E q with Some l => l | None => [] end.
Definition ref_fetch (w : world) (E : list (str * list cid)) (c : cid) (pns xt : ostr) : option meta :=
  match ideal_build w c pns with
  | None => None
  | Some m =>
      match truthy xt with
      | Some q =>
          if ostr_eqb (m_tq m) (Some q) then Some m
          else match find (subclass_candidate w c) (ref_lookup E q) with
               | Some s => ideal_build w s pns
               | None => Some m
               end
      | None => Some m
      end
  end.
Definition ref_candidates (w : world) (E : list (str * list cid)) (names : list str) : list cid :=
  filter (ideal_names_match w names) (flat_map snd E).
Definition ref_by_fields (w : world) (E : list (str * list cid)) (names : list str) : option cid :=
  min_by (map (fun c => (c, (match ideal_build w c None with
                             | Some m => field_diff names m
                             | None => O
                             end, class_name w c))) (ref_candidates w E names)) None.
Definition ref_call (w : world) (E : list (str * list cid)) (c : call) : ans :=
  match c with
  | CBuild c pns => ans_of_ometa (ideal_build w c pns)
  | CFetch c pns xt => ans_of_ometa (ref_fetch w E c pns xt)
  | CFindType q => ACls (last (map Some (ref_lookup E q)) None)
  | CFindTypes q => AClss (ref_lookup E q)
  | CFindSubclass c q => ACls (find (subclass_candidate w c) (ref_lookup E q))
  | CFindByFields names => ACls (ref_by_fields w E names)
  | CLocalNamesMatch names c => ABool (ideal_names_match w names c)
  | CBuildRecursive c pns => match ideal_build w c pns with Some _ => AUnit | None => AErr e_context end
  | _ => AUnit
  end.
Fixpoint ref_run (w : world) (E : list (str * list cid)) (s : script) : res :=
  match s with
  | Ret r => r
  | Call c k => if supported c then ref_run w E (k (ref_call w E c)) else RErr e_conc_unsupported []
  end.

(* ------------------------------------------------------------ running threads *)
Fixpoint solo (w : world) (st : sstate) (m : mscript) : sstate * res :=
  match m with
  | MRet r => (st, r)
  | MAct a k => let '(st1, ans) := do_act w st a in solo w st1 (k ans)
  end.

Fixpoint set_nth {A} (l : list A) (i : nat) (x : A) : list A :=
  match l, i with
  | [], _ => []
  | _ :: r, O => x :: r
  | y :: r, S n => y :: set_nth r n x
  end.

(* one scheduling decision: thread i performs its next action (nothing if it has finished) *)
Definition sched_step (w : world) (cfg : sstate * list mscript * list (nat * nat)) (i : nat)
  : sstate * list mscript * list (nat * nat) :=
  let '(st, ts, log) := cfg in
  match nth_error ts i with
  | Some (MAct a k) => let '(st1, ans) := do_act w st a in
                       (st1, set_nth ts i (k ans), log ++ [(i, act_label a)])
  | _ => cfg
  end.
Definition interleave (w : world) (st : sstate) (ts : list mscript) (sched : list nat)
  : sstate * list mscript * list (nat * nat) :=
  fold_left (sched_step w) sched (st, ts, []).

(* after the schedule: every thread runs to completion, in thread order *)
Fixpoint drain (w : world) (st : sstate) (ts : list mscript) : sstate * list res :=
  match ts with
  | [] => (st, [])
  | m :: r => let '(st1, res1) := solo w st m in
              let '(st2, rs) := drain w st1 r in (st2, res1 :: rs)
  end.

Definition conc_run (w : world) (st : sstate) (progs : list script) (sched : list nat) : list res :=
  let '(st1, ts, _) := interleave w st (map (expand w) progs) sched in
  snd (drain w st1 ts).
Definition solo_run (w : world) (st : sstate) (s : script) : res := snd (solo w st (expand w s)).

(* the labels of all actions in execution order, including the drain phase *)
Fixpoint solo_labels (w : world) (st : sstate) (i : nat) (m : mscript) : sstate * list (nat * nat) :=
  match m with
  | MRet _ => (st, [])
  | MAct a k => let '(st1, ans) := do_act w st a in
                let '(st2, l) := solo_labels w st1 i (k ans) in (st2, (i, act_label a) :: l)
  end.
Fixpoint drain_labels (w : world) (st : sstate) (i : nat) (ts : list mscript) : list (nat * nat) :=
  match ts with
  | [] => []
  | m :: r => let '(st1, l) := solo_labels w st i m in l ++ drain_labels w st1 (S i) r
  end.
Definition conc_labels (w : world) (st : sstate) (progs : list script) (sched : list nat) : list (nat * nat) :=
  let '(st1, ts, log) := interleave w st (map (expand w) progs) sched in
  log ++ drain_labels w st1 O ts.

(* ------------------------------------------------------------ reference index, guard *)
(* the index every lookup of a run answers from: the one the state holds if it
   counts as current (build_xsi_cache returns at its first line), else the one any
   thread will build *)
Definition eff_index (w : world) (st : sstate) : list (str * list cid) :=
  if N.eqb (s_seen st) (w_modules w) then s_xsi st else ideal_index w.

(* a state in which build_xsi_cache has run for the current world *)
Definition warm_state (w : world) (cache : list (cid * meta)) : sstate :=
  mkS cache (ideal_index w) (w_modules w) [].
Definition index_eqb (a b : list (str * list cid)) : bool :=
  list_eqb (fun x y : str * list cid => str_eqb (fst x) (fst y) && lcid_eqb (snd x) (snd y)) a b.
Definition warm_b (w : world) (st : sstate) : bool :=
  N.eqb (s_seen st) (w_modules w) && index_eqb (s_xsi st) (ideal_index w).

(* build_recursive from a class, ignoring the cache (the recursion stops at cached classes, so
   it visits a subset of this): the requests, and whether every class below the root can be built *)
Fixpoint rec_reqs (fuel : nat) (w : world) (c : cid) (pns : ostr) : list (cid * meta) :=
  match fuel with
  | O => []
  | S f =>
      match ideal_build w c pns with
      | None => []
      | Some m => (c, m) :: flat_map (fun v => match v_type v with
                                               | TCls t => rec_reqs f w t (m_ns m)
                                               | _ => []
                                               end) (m_vars m)
      end
  end.
Fixpoint rec_closed (fuel : nat) (w : world) (c : cid) (pns : ostr) : bool :=
  match fuel with
  | O => true
  | S f =>
      match ideal_build w c pns with
      | None => true
      | Some m => forallb (fun v => match v_type v with
                                    | TCls t => rec_closed f w t (m_ns m)
                                                && match f, ideal_build w t (m_ns m) with
                                                   | S _, None => false
                                                   | _, _ => true
                                                   end
                                    | _ => true
                                    end) (m_vars m)
      end
  end.

(* the build requests a script makes when every answer is the reference one *)
Definition call_reqs (w : world) (E : list (str * list cid)) (c : call) : list (cid * meta) :=
  let one := fun c p => match ideal_build w c p with Some m => [(c, m)] | None => [] end in
  match c with
  | CBuild c p => one c p
  | CFetch c p xt =>
      one c p ++
      match ideal_build w c p, truthy xt with
      | Some m, Some q =>
          if ostr_eqb (m_tq m) (Some q) then []
          else match find (subclass_candidate w c) (ref_lookup E q) with
               | Some s => one s p
               | None => []
               end
      | _, _ => []
      end
  | CFindByFields _ => flat_map (fun c => one c None) (flat_map snd E)
  | CLocalNamesMatch _ c => one c None
  | CBuildRecursive c p => rec_reqs (rec_fuel w) w c p
  | _ => []
  end.
(* (d) no build_recursive of any thread meets an unbuildable class below its argument *)
Fixpoint ref_rec_closed (w : world) (E : list (str * list cid)) (s : script) : bool :=
  match s with
  | Ret _ => true
  | Call c k =>
      if supported c then
        match c with CBuildRecursive c p => rec_closed (rec_fuel w) w c p | _ => true end
        && ref_rec_closed w E (k (ref_call w E c))
      else true
  end.
Fixpoint ref_reqs (w : world) (E : list (str * list cid)) (s : script) : list (cid * meta) :=
  match s with
  | Ret _ => []
  | Call c k => if supported c then call_reqs w E c ++ ref_reqs w E (k (ref_call w E c)) else []
  end.

(* guard of context_safe: every class is requested (by any thread, or already
   cached) under parent namespaces that give one and the same metadata, and cached
   classes exist and can be built *)
Definition cache_known (w : world) (cache : list (cid * meta)) : bool :=
  forallb (fun e => match find_class w (fst e) with Some cd => c_ok cd | None => false end) cache.
Definition unsup_ok (w : world) (st : sstate) : bool :=
  forallb (fun c => match ideal_build w c None with Some _ => false | None => true end) (s_unsup st).
Definition conc_guard (w : world) (st : sstate) (progs : list script) : bool :=
  world_ok w && cache_known w (s_cache st) && unsup_ok w st
  && forallb (ref_rec_closed w (eff_index w st)) progs
  && consistent (s_cache st ++ flat_map (ref_reqs w (eff_index w st)) progs).
