(* Model/ConvDataType.v — DataType.from_value (xsdata/models/enums.py): the XSD
   datatype chosen for a Python value when an xsi:type has to be written:
   __DataTypeInferIndex__ (int_datatype, float_datatype, period_datatype), otherwise
   __DataTypeIndex__.get(type(value), STRING).  Datatypes are DataType member names.
   No proofs here. *)
From Coq Require Import NArith ZArith List Bool String PrimFloat.
From XV Require Import Base.Str Gen.ConvTables Model.ConvInt Model.ConvFactory.
Import ListNotations.
Open Scope N_scope.

(* truthiness of an `int | None` component *)
Definition truthy_z (o : option Z) : bool := match o with Some z => negb (Z.eqb z 0) | None => false end.

(* period_datatype(value: XmlPeriod) on (year, month, day) *)
Definition period_datatype (y m d : option Z) : str :=
  match y with
  | Some _ => if truthy_z m then lit "G_YEAR_MONTH" else lit "G_YEAR"
  | None =>
      if truthy_z m then (if truthy_z d then lit "G_MONTH_DAY" else lit "G_MONTH")
      else lit "G_DAY"
  end.

(* float_datatype: first row lo <= value <= hi (false for NaN) *)
Definition float_datatype (f : float) : str :=
  match find (fun r => PrimFloat.leb (fst (fst r)) f && PrimFloat.leb f (snd (fst r))) float_datatype_rows with
  | Some r => snd r
  | None => float_datatype_default
  end.

(* what from_value looks at: the exact class of the value, and the value where an
   inference function exists *)
Inductive fv_input :=
| FvInt (z : Z)
| FvFloat (f : float)
| FvPeriod (y m d : option Z)
| FvOther (type_name : str).

Definition fv_type (v : fv_input) : str :=
  match v with
  | FvInt _ => lit "int" | FvFloat _ => lit "float" | FvPeriod _ _ _ => lit "XmlPeriod" | FvOther n => n
  end.

Definition from_type (tname : str) : str :=
  match assoc tname datatype_index with Some d => d | None => datatype_default end.

Definition from_value (v : fv_input) : str :=
  match assoc (fv_type v) datatype_infer, v with
  | Some fn, FvInt z => if str_eqb fn (lit "int_datatype") then int_datatype z else from_type (fv_type v)
  | Some fn, FvFloat f => if str_eqb fn (lit "float_datatype") then float_datatype f else from_type (fv_type v)
  | Some fn, FvPeriod y m d => if str_eqb fn (lit "period_datatype") then period_datatype y m d else from_type (fv_type v)
  | _, _ => from_type (fv_type v)
  end.
