(* Model/WriterCorr.v — agreement and oracle predicates for the C03 case files. *)
From Coq Require Import NArith List Bool.
From XV Require Import Base.Str Base.Eqb Spec.XmlNs Model.Writer.
Import ListNotations.
Open Scope N_scope.

(* what the harness saw from one real writer *)
Inductive obs :=
| ObsErr (exc : str)                               (* exception class name *)
| ObsOut (text : str) (parsed : option inode).     (* output text; the infoset both parsers read back *)

Record wcase := {
  c_cfg : wconfig;
  c_user : nsmap;              (* the raw user map handed to XmlSerializer *)
  c_evs : list wevent;
  c_native : obs;
  c_lxml : obs
}.

Definition lit (l : list N) : str := l.
Definition perr_name (e : perr) : str :=
  match e with
  | PyXmlWriterError => [88;109;108;87;114;105;116;101;114;69;114;114;111;114]
  | PyIndexError => [73;110;100;101;120;69;114;114;111;114]
  | PyKeyError => [75;101;121;69;114;114;111;114]
  | PyAttributeError => [65;116;116;114;105;98;117;116;101;69;114;114;111;114]
  | PyTypeError => [84;121;112;101;69;114;114;111;114]
  | PySaxError => [83;97;120;69;114;114;111;114]
  | SinkUnmodelled => [63]
  end.
Definition s_serializer_error : str := [83;101;114;105;97;108;105;122;101;114;69;114;114;111;114].

(* -------- correspondence: native writer, exact text *)
Definition agree_native (c : wcase) : bool :=
  match run_native (c_cfg c) (c_user c) (c_evs c), c_native c with
  | inl d, ObsOut text _ => str_eqb (native_text (c_cfg c) d) text
  | inr e, ObsErr n => str_eqb (perr_name e) n
  | _, _ => false
  end.

(* structural equality of infoset trees *)
Definition decl_eqb (a b : option str * str) := ostr_eqb (fst a) (fst b) && str_eqb (snd a) (snd b).
Definition iattr_eqb (a b : qname * str) := qname_eqb (fst a) (fst b) && str_eqb (snd a) (snd b).
Fixpoint inode_eqb (a b : inode) : bool :=
  match a, b with
  | IText s, IText t => str_eqb s t
  | IElem q ds ats ks, IElem q' ds' ats' ks' =>
      qname_eqb q q' && list_eqb decl_eqb ds ds' && list_eqb iattr_eqb ats ats'
      && (fix go (x y : list inode) : bool :=
            match x, y with
            | [], [] => true
            | k :: x', k' :: y' => inode_eqb k k' && go x' y'
            | _, _ => false
            end) ks ks'
  | _, _ => false
  end.

Definition says_opt (cfg : wconfig) (evs : list wevent) (t : inode) : bool :=
  match expected cfg evs with Some e => doc_says e t | None => true end.

(* -------- correspondence: lxml writer, as infoset (names, attributes in order, text) and
   the verdict of `says` (which depends on the in-scope declarations) *)
Definition agree_lxml (c : wcase) : bool :=
  match run_lxml (c_cfg c) (c_user c) (c_evs c), c_lxml c with
  | inr SinkUnmodelled, _ => true                               (* the sink model abstains *)
  | inl t, ObsOut _ (Some p) =>
      inode_eqb (erase_ns t) (erase_ns p) && Bool.eqb (says_opt (c_cfg c) (c_evs c) t) (says_opt (c_cfg c) (c_evs c) p)
  | inr e, ObsErr n => str_eqb (perr_name e) n
  | _, _ => false
  end.
Definition lxml_abstains (c : wcase) : bool :=
  match run_lxml (c_cfg c) (c_user c) (c_evs c) with inr SinkUnmodelled => true | _ => false end.

(* the model's native document resolves to what the two parsers read back *)
Definition agree_resolve (c : wcase) : bool :=
  match run_native (c_cfg c) (c_user c) (c_evs c), c_native c with
  | inl d, ObsOut _ p =>
      match resolve d, p with
      | Some t, Some t' => inode_eqb (erase_ns t) (erase_ns t')
                           && Bool.eqb (says_opt (c_cfg c) (c_evs c) t) (says_opt (c_cfg c) (c_evs c) t')
      | None, None => true
      (* the specification's reader refuses an attribute written as `xmlns`/`xmlns:p` in
         attribute position (real parsers read it as a declaration); only reachable with
         names outside the guard *)
      | None, Some _ => negb (names_ok (c_evs c))
      | _, _ => false
      end
  | _, _ => true
  end.

(* -------- oracle: the property, judged on what the implementation produced *)
Definition sanctioned (n : str) : bool :=
  str_eqb n (perr_name PyXmlWriterError) || str_eqb n s_serializer_error.
Definition oracle_obs (cfg : wconfig) (evs : list wevent) (o : obs) : bool :=
  match expected cfg evs with
  | None => true                                   (* not an event list of the grammar: no claim *)
  | Some e =>
      match o with
      | ObsErr n => sanctioned n
      | ObsOut _ None => false                     (* not well-formed / not namespace-well-formed *)
      | ObsOut _ (Some t) => doc_says e t
      end
  end.
Definition oracle_native (c : wcase) : bool := oracle_obs (c_cfg c) (c_evs c) (c_native c).
Definition oracle_lxml (c : wcase) : bool := oracle_obs (c_cfg c) (c_evs c) (c_lxml c).
(* both writers say the same (half of C08) *)
Definition oracle_sinks_agree (c : wcase) : bool :=
  match c_native c, c_lxml c with
  | ObsOut _ (Some a), ObsOut _ (Some b) => inode_eqb (erase_ns a) (erase_ns b)
  | _, _ => true
  end.

Definition all_good (c : wcase) : bool :=
  agree_native c && agree_lxml c && agree_resolve c && oracle_native c && oracle_lxml c && oracle_sinks_agree c.

(* -------- guard clauses, evaluated on failing cases to name the class *)
Definition cl_wf (c : wcase) := match itree_of_events (c_evs c) with Some _ => true | None => false end.
Definition cl_user_prefixes (c : wcase) := user_prefixes_legal (c_user c).
Definition cl_default_qname (c : wcase) := default_qname_ok (c_user c) (c_evs c).
Definition cl_uris (c : wcase) := uris_ok (c_evs c).
Definition cl_names (c : wcase) := names_ok (c_evs c).
Definition cl_texts (c : wcase) := texts_ok (c_cfg c) (c_evs c).
Definition cl_late_qname (c : wcase) := no_late_qname_data (c_evs c).
Definition cl_nil (c : wcase) := nil_content_ok (c_evs c).
Definition cl_clark (c : wcase) := no_clark_datatype_text (c_evs c).
Definition cl_guard (c : wcase) := writer_guard (c_cfg c) (c_user c) (c_evs c).
Definition cl_lxml_domain (c : wcase) := lxml_domain (c_cfg c) (c_user c) (c_evs c).
(* inside the guard and the lxml domain the sink model must not abstain (writer_sound_lxml) *)
Definition lxml_covered (c : wcase) : bool :=
  negb (cl_guard c && cl_lxml_domain c) || negb (lxml_abstains c).
Definition in_lxml_theorem (c : wcase) : bool := cl_guard c && cl_lxml_domain c.
