(* Model/ConvInt.v — IntConverter: int(str) and str(int) of CPython, including the
   int<->str digit limit (sys.get_int_max_str_digits()), and DataType.from_value's
   int_datatype dispatch (xsdata/models/enums.py). *)
From Coq Require Import NArith ZArith List Bool.
From XV Require Import Base.Str Base.Dec Base.PyInt Gen.ConvTables.
Import ListNotations.
Open Scope Z_scope.

(* IntConverter.deserialize: int(value); ValueError -> ConverterError (None) *)
Definition int_deser (s : str) : option Z := py_int s.

Definition int_ndigits (z : Z) : N := N.of_nat (length (to_dec (Z.abs_N z))).

(* IntConverter.serialize: str(value).  CPython raises ValueError (which the
   converter does not catch) when the decimal text has more than
   int_max_str_digits digits: None *)
Definition int_ser (z : Z) : option str :=
  if (int_max_str_digits <? int_ndigits z)%N then None else Some (py_str_of_Z z).

(* int_datatype: first row whose closed interval contains the value *)
Definition int_datatype (z : Z) : str :=
  match find (fun r => (fst (fst r) <=? z) && (z <=? snd (fst r))) int_datatype_rows with
  | Some r => snd r
  | None => int_datatype_default
  end.
