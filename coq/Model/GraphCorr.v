(* Model/GraphCorr.v — agreement predicates (model vs observed implementation output)
   and oracles used by the generated case files of the C12 check. *)
From Coq Require Import NArith List Bool Arith.
From XV Require Import Base.Str Base.Eqb Model.Graph.
Import ListNotations.
Close Scope N_scope.
Open Scope nat_scope.

Definition s_memb := memb str_eqb.
Definition set_eqb (a b : list str) : bool :=
  Nat.eqb (length a) (length b) && forallb (fun x => s_memb x b) a && forallb (fun x => s_memb x a) b.
Definition lstr_eqb := list_eqb str_eqb.

(* observed exceptions: 0 = KeyError, 1 = IndexError, 2 = CircularDependencyError *)
Definition exc_code (e : pyexc) : nat :=
  match e with KeyError => 0 | IndexError => 1 | CircularDependencyError => 2 end.

Definition agree_result {T} (eq : T -> T -> bool) (m : result T) (obs : T + nat) : bool :=
  match m, obs with
  | Ok x, inl y => eq x y
  | Raise e, inr n => Nat.eqb (exc_code e) n
  | _, _ => false
  end.

(* ---- strongly_connected_components: (iteration order of set(edges), edges, observed) ----
   observed components in yield order, each one a set *)
Definition agree_scc (c : list str * list (str * list str) * (list (list str) + nat)) : bool :=
  let '(vorder, E, obs) := c in
  agree_result (list_eqb set_eqb) (s_scc_run vorder E) obs.

(* the specification, through the verified checker, on the implementation's own output *)
Definition oracle_scc (c : list (str * list str) * list (list str)) : bool :=
  s_scc_check (fst c) (snd c).

(* same set of components in two observations *)
Definition partition_eqb (p q : list (list str)) : bool :=
  forallb (fun c => existsb (set_eqb c) q) p && forallb (fun c => existsb (set_eqb c) p) q.
Definition oracle_scc_same (c : list (list str) * list (list str)) : bool := partition_eqb (fst c) (snd c).

(* ---- toposort_flatten ---- *)
Definition agree_topo (c : list (str * list str) * (list str + nat)) : bool :=
  agree_result lstr_eqb (s_toposort_flatten (fst c)) (snd c).

(* the model evaluated on two presentations of the same dict of sets gives the same list *)
Definition res_eqb (a b : result (list str)) : bool :=
  match a, b with
  | Ok x, Ok y => lstr_eqb x y
  | Raise e, Raise e' => Nat.eqb (exc_code e) (exc_code e')
  | _, _ => false
  end.
Definition model_topo_same (c : list (str * list str) * list (str * list str)) : bool :=
  res_eqb (s_toposort_flatten (fst c)) (s_toposort_flatten (snd c)).

(* ---- sort_classes(group) with the dependency dict D ---- *)
Definition agree_sort_classes (c : list (str * list str) * list str * (list str + nat)) : bool :=
  let '(D, g, obs) := c in agree_result lstr_eqb (s_sort_classes D g) obs.

(* ---- native_types: (declared python types, observed attr.native_types) ---- *)
Definition agree_native (c : list str * list str) : bool := lstr_eqb (native_types (fst c)) (snd c).
(* ---- sort_types: (argument order, observed sorted) ---- *)
Definition agree_types (c : list str * list str) : bool := lstr_eqb (sort_types (fst c)) (snd c).
Definition guard_types (c : list str * list str) : bool := native_guard (fst c).

(* ---- ResetAttributeSequenceNumbers: (base sequences, attr sequences, observed) ---- *)
Definition oN_eqb := opt_eqb N.eqb.
Definition agree_reset (c : list (option N) * list (option N) * list (option N)) : bool :=
  let '(base, attrs, obs) := c in list_eqb oN_eqb (reset_sequence_numbers base attrs) obs.

(* ---- sorted_imports: imports as (qname, name) ---- *)
Definition pair_str_eqb (a b : str * str) : bool := str_eqb (fst a) (fst b) && str_eqb (snd a) (snd b).
Definition agree_imports (c : list (str * str) * list (str * str)) : bool :=
  list_eqb pair_str_eqb (sorted_imports (fst c)) (snd c).

(* ---- resolver.create_class_list + import_classes ---- *)
Definition agree_class_list (c : list (str * list str) * list str * (list str + nat)) : bool :=
  let '(D, classes, obs) := c in agree_result lstr_eqb (s_create_class_list D classes) obs.

(* ---- DependenciesResolver.process on one module: create_class_list, import_classes, sorted_imports ----
   D: dependencies() of the module's classes; classes: the module's classes (class_map keys);
   names: qname -> local name; observed: sorted_imports() as (qname, name) *)
Fixpoint assoc_str0 (t : list (str * str)) (k : str) : str :=
  match t with [] => k | (k', v) :: r => if str_eqb k k' then v else assoc_str0 r k end.
Definition model_resolver (D : list (str * list str)) (classes : list str) (names : list (str * str))
  : result (list (str * str)) :=
  rmap (fun cl => sorted_imports (map (fun q => (q, assoc_str0 names q)) (import_classes str_eqb cl classes)))
       (s_create_class_list D classes).
Definition agree_resolver
  (c : list (str * list str) * list str * list (str * str) * (list (str * str) + nat)) : bool :=
  let '(D, classes, names, obs) := c in
  agree_result (list_eqb pair_str_eqb) (model_resolver D classes names) obs.

(* ---- group_by_strong_components end to end ----
   vorder: order of set(edges); E: obj.qname -> list(set(dependencies(True)));
   D: obj.qname -> list(dependencies()); names: qname -> local name;
   observed: module assigned to every class (container order) *)
Fixpoint assoc_str (t : list (str * str)) (k : str) : str :=
  match t with [] => k | (k', v) :: r => if str_eqb k k' then v else assoc_str r k end.

Definition model_cluster_modules (vorder : list str) (E D : list (str * list str)) (names : list (str * str))
  : result (list (str * option str)) :=
  match s_scc_run vorder E with
  | Ok comps =>
    match cluster_plan str_eqb str_leb (assoc_str names) (get_or_nil str_eqb D) comps with
    | Ok plan => Ok (map (fun kv => (fst kv, assign_all str_eqb plan (fun _ => None) (fst kv))) E)
    | Raise e => Raise e
    | OutOfFuel => OutOfFuel
    end
  | Raise e => Raise e
  | OutOfFuel => OutOfFuel
  end.

Definition agree_clusters
  (c : list str * list (str * list str) * list (str * list str) * list (str * str) * (list (str * option str) + nat)) : bool :=
  let '(vorder, E, D, names, obs) := c in
  agree_result (list_eqb (pair_eqb str_eqb (opt_eqb str_eqb))) (model_cluster_modules vorder E D names) obs.
