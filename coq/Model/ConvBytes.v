(* Model/ConvBytes.v — BytesConverter: re.sub(r"\s+", "", value), then
   binascii.unhexlify / base64.b64decode(validate=True) (= binascii.a2b_base64 in
   strict mode, CPython 3.12), and base64.b16encode / b64encode. Bytes = list N (< 256). *)
From Coq Require Import NArith ZArith List Bool.
From XV Require Import Base.Str Base.PyInt Gen.ConvTables.
Import ListNotations.
Open Scope N_scope.

(* re.sub(r"\s+", "", value): every Unicode whitespace character goes
   (gen_conv.py checks that re's \s and str.isspace coincide) *)
Definition remove_ws (s : str) : str := filter (fun c => negb (py_isspace c)) s.

(* ---- base16 ---------------------------------------------------------- *)
Definition hex_val (c : N) : option N :=
  if is_ascii_digit c then Some (c - 48)
  else if (97 <=? c) && (c <=? 102) then Some (c - 87)
  else if (65 <=? c) && (c <=? 70) then Some (c - 55)
  else None.

(* binascii.unhexlify on a str: non-ASCII -> ValueError, odd length / non-hex -> binascii.Error *)
Fixpoint unhexlify (s : str) : option (list N) :=
  match s with
  | [] => Some []
  | a :: b :: r =>
      match hex_val a, hex_val b, unhexlify r with
      | Some x, Some y, Some l => Some (x * 16 + y :: l)
      | _, _, _ => None
      end
  | [_] => None
  end.

Definition hex_upper_digits : str := [48;49;50;51;52;53;54;55;56;57;65;66;67;68;69;70].
Definition hex_digit (n : N) : N := nth (N.to_nat n) hex_upper_digits 48.

(* base64.b16encode(value).decode() *)
Fixpoint b16encode (b : list N) : str :=
  match b with
  | [] => []
  | x :: r => hex_digit (x / 16) :: hex_digit (x mod 16) :: b16encode r
  end.

(* ---- base64 ---------------------------------------------------------- *)
Fixpoint index_of (c : N) (l : list N) (i : N) : option N :=
  match l with
  | [] => None
  | x :: r => if N.eqb x c then Some i else index_of c r (i + 1)
  end.

(* table_a2b_base64 *)
Definition a2b_char (c : N) : option N := index_of c b64_alphabet 0.

(* the decoding loop of binascii_a2b_base64_impl with strict_mode = 1.
   qp = quad_pos, left = leftchar, pads, started = padding_started; bytes are
   emitted in order; any error discards everything *)
Fixpoint a2b_loop (s : str) (qp left pads : N) (started : bool) : option (list N) :=
  match s with
  | [] => if qp =? 0 then Some [] else None
  | c :: r =>
      if c =? 61 then
        if (2 <=? qp) && (4 <=? qp + (pads + 1)) then
          match r with [] => Some [] | _ :: _ => None end      (* excess data after padding *)
        else a2b_loop r qp left (if 2 <=? qp then pads + 1 else pads) true
      else
        match a2b_char c with
        | None => None                                           (* only base64 data is allowed *)
        | Some k =>
            if started then None                                 (* discontinuous padding *)
            else if qp =? 0 then a2b_loop r 1 k 0 false
            else if qp =? 1 then option_map (cons (left * 4 + k / 16)) (a2b_loop r 2 (k mod 16) 0 false)
            else if qp =? 2 then option_map (cons (left * 16 + k / 4)) (a2b_loop r 3 (k mod 4) 0 false)
            else option_map (cons (left * 64 + k)) (a2b_loop r 0 0 0 false)
        end
  end.

Definition b64decode (s : str) : option (list N) :=
  match s with
  | 61 :: _ => None                                              (* leading padding *)
  | _ => a2b_loop s 0 0 0 false
  end.

Definition b2a (k : N) : N := nth (N.to_nat k) b64_alphabet 0.

(* base64.b64encode(value).decode() *)
Fixpoint b64encode (b : list N) : str :=
  match b with
  | [] => []
  | [x] => [b2a (x / 4); b2a ((x mod 4) * 16); 61; 61]
  | [x; y] => [b2a (x / 4); b2a ((x mod 4) * 16 + y / 16); b2a ((y mod 16) * 4); 61]
  | x :: y :: z :: r =>
      b2a (x / 4) :: b2a ((x mod 4) * 16 + y / 16) :: b2a ((y mod 16) * 4 + z / 64) :: b2a (z mod 64)
      :: b64encode r
  end.

(* ---- the converter --------------------------------------------------- *)
Definition fmt_is (fmt : option str) (name : str) : bool :=
  match fmt with Some f => str_eqb f name | None => false end.

(* BytesConverter.deserialize(value, format=fmt) *)
Definition bytes_deser (fmt : option str) (s : str) : option (list N) :=
  let v := remove_ws s in
  if fmt_is fmt bytes_fmt_base16 then unhexlify v
  else if fmt_is fmt bytes_fmt_base64 then b64decode v
  else None.

(* the Python class of the value: bytes, XmlHexBinary, XmlBase64Binary *)
Inductive bytes_kind := BPlain | BHex | BB64.

(* BytesConverter.serialize(value, format=fmt); None = ConverterError *)
Definition bytes_ser (k : bytes_kind) (fmt : option str) (b : list N) : option str :=
  if (match k with BHex => true | _ => false end) || fmt_is fmt bytes_fmt_base16 then Some (b16encode b)
  else if (match k with BB64 => true | _ => false end) || fmt_is fmt bytes_fmt_base64 then Some (b64encode b)
  else None.
