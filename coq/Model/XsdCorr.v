(* Model/XsdCorr.v — predicates evaluated by the generated C02 case files.
   A program = the schema as the independent reader presents it (Spec/XsdCm.v), the binding
   metadata of every generated class as the real XmlContext built it, and the PROPOSED pairing
   of schema types with classes (proposed by the harness, CHECKED here: `pair_flags`, `pairs_closed`).
   Per document: typed validity (against lxml), the binding abstract against the real parser,
   the canonical-infoset comparison of input and output, order, re-validation. *)
From Coq Require Import NArith ZArith List Bool Arith.
From XV Require Import Base.Str Base.Eqb Spec.Cm Spec.XsdVal Spec.XsdCm.
Import ListNotations.
Local Close Scope N_scope.
Local Open Scope nat_scope.

(* ---------------------------------------------------------------- field types *)
Record ftype := mk_ftype {
  ft_types : list str;                 (* python type names in XmlVar.types order: "int", "str", "XmlDate", ...; "enum" for an Enum class *)
  ft_format : option str;              (* "base16" / "base64" *)
  ft_tokens : bool;                    (* a tokens (xs:list) field *)
  ft_enum : option (list str)          (* Enum-typed: the member values in lexical form *)
}.

Inductive ftarget := TClass (c : nat) | TPrim (t : ftype) | TAnyType.

Record xclass := mk_xclass {
  xk_meta : xmeta;
  xk_targets : list (list (name * ftarget));      (* per element field: what each routed name is bound to *)
  xk_afields : list afield;
  xk_atypes : list (name * ftype);
  xk_anyattr : option fns;
  xk_text : option ftype;
  xk_xsi : list (name * nat);                     (* XmlContext.find_subclass(this class, qname) *)
  xk_nillable : bool;
  xk_bases : list nat;                            (* dataclass ancestors *)
  xk_nillables : list name                        (* element names whose var (or choice) is declared nillable *)
}.
Definition empty_class : xclass := mk_xclass (mk_xmeta [] false false) [] [] [] None None [] false [] [].

(* ---------------------------------------------------------------- not retyped: schema simple type against field types *)
Definition py_str : str := [115;116;114]%N.
Definition py_int : str := [105;110;116]%N.
Definition py_bool : str := [98;111;111;108]%N.
Definition py_float : str := [102;108;111;97;116]%N.
Definition py_Decimal : str := [68;101;99;105;109;97;108]%N.
Definition py_bytes : str := [98;121;116;101;115]%N.
Definition py_QName : str := [81;78;97;109;101]%N.
Definition py_XmlDate : str := [88;109;108;68;97;116;101]%N.
Definition py_XmlDateTime : str := [88;109;108;68;97;116;101;84;105;109;101]%N.
Definition py_XmlTime : str := [88;109;108;84;105;109;101]%N.
Definition py_XmlDuration : str := [88;109;108;68;117;114;97;116;105;111;110]%N.
Definition py_XmlPeriod : str := [88;109;108;80;101;114;105;111;100]%N.
Definition py_enum : str := [101;110;117;109]%N.
Definition fmt_base16 : str := [98;97;115;101;49;54]%N.
Definition fmt_base64 : str := [98;97;115;101;54;52]%N.

(* the Python type a builtin is bound to, and the `format` it needs *)
Definition expected_py (b : str) : option (str * option str) :=
  match vkind_of b with
  | VText => Some (py_str, None)
  | VBoolean => Some (py_bool, None)
  | VDecimal => if str_eqb b B_decimal then Some (py_Decimal, None) else Some (py_int, None)
  | VFloat => Some (py_float, None)
  | VDateLike =>
      if str_eqb b B_date then Some (py_XmlDate, None)
      else if str_eqb b B_dateTime then Some (py_XmlDateTime, None)
      else if str_eqb b B_time then Some (py_XmlTime, None)
      else Some (py_XmlPeriod, None)
  | VDuration => Some (py_XmlDuration, None)
  | VHex => Some (py_bytes, Some fmt_base16)
  | VBase64 => Some (py_bytes, Some fmt_base64)
  | VQName => Some (py_QName, None)
  | VUnknown => None
  end.

Definition same_values (t : stype) (a b : list str) : bool :=
  forallb (fun x => existsb (value_eqb t x) b) a && forallb (fun y => existsb (value_eqb t y) a) b.

(* atomic type against a field: exactly the expected Python type (so that converter priority has
   nothing to choose), the right format, an Enum with exactly the schema's values *)
Definition atom_compat (b : str) (en : option (list str)) (ws : wsmode) (f : ftype) : bool :=
  match expected_py b with
  | None => false
  | Some (py, fmt) =>
      match en with
      | None =>
          list_eqb str_eqb (ft_types f) [py] && opt_eqb str_eqb (ft_format f) fmt
          && match ft_enum f with None => true | Some _ => false end
      | Some vals =>
          list_eqb str_eqb (ft_types f) [py_enum]
          && match ft_enum f with Some fv => same_values (STAtom b None ws) vals fv | None => false end
      end
  end.

Fixpoint member_pys (t : stype) : list str :=
  match t with
  | STAtom b None _ => match expected_py b with Some (py, _) => [py] | None => [] end
  | STAtom _ (Some _) _ => [py_enum]
  | STList i => member_pys i
  | STUnion ms => concat (map member_pys ms)
  end.

Definition subset_str (a b : list str) : bool := forallb (fun x => existsb (str_eqb x) b) a.

Definition type_compat (t : stype) (f : ftype) : bool :=
  match t with
  | STAtom b en ws => negb (ft_tokens f) && atom_compat b en ws f
  | STList (STAtom b en ws) => ft_tokens f && atom_compat b en ws (mk_ftype (ft_types f) (ft_format f) false (ft_enum f))
  | STList i => ft_tokens f && subset_str (member_pys i) (ft_types f) && subset_str (ft_types f) (member_pys i)
  | STUnion ms =>
      negb (ft_tokens f)
      && (list_eqb str_eqb (ft_types f) [py_str]            (* kept as text: nothing is reinterpreted *)
          || (existsb (str_eqb py_str) (ft_types f) && subset_str (ft_types f) (member_pys t))
                                                            (* str among the members: what no other type takes stays text *)
          || (subset_str (member_pys t) (ft_types f) && subset_str (ft_types f) (member_pys t)))
  end.

(* the union is read by converter priority, not by member order: is the first member that accepts every
   value also the first Python type tried?  (a sufficient syntactic condition: one Python type only) *)
Definition union_order_safe (t : stype) : bool :=
  match t with
  | STUnion ms => match member_pys t with [] => true | p :: r => forallb (str_eqb p) r end
  | _ => true
  end.

(* ---------------------------------------------------------------- programs *)
Record program := mk_program {
  p_schema : schema;
  p_classes : list xclass;
  p_pairs : list (nat * nat);          (* (type, class) proposed by the harness *)
  p_root : name * nat * nat;           (* root element, its type, its class *)
  p_root_nillable : bool;
  p_compound : bool
}.
Definition get_class (p : program) (c : nat) : xclass := nth c (p_classes p) empty_class.
Definition pair_mem (p : program) (t c : nat) : bool := existsb (fun x => (fst x =? t) && (snd x =? c)) (p_pairs p).

Definition is_simple_type (d : tdef) : option stype :=
  match td_content d, td_attrs d, td_anyattr d with
  | XCSimple st, [], None => Some st
  | _, _, _ => None
  end.

Definition to_attr_decl (x : xattr) : attr_decl :=
  mk_attr_decl (xa_name x) (xa_use x)
               (match xa_type x with STAtom _ (Some vals) _ => Some vals | _ => None end).

(* values of defaults and enumerations are compared as values of the attribute's type *)
Definition afield_canon (t : stype) (f : afield) : afield :=
  mk_afield (af_name f) (af_required f) (option_map (canon_or_ws t) (af_default f)) (af_fixed f)
            (option_map (map (canon_or_ws t)) (af_enum f)).
Definition attr_decl_canon (x : xattr) : attr_decl :=
  let t := xa_type x in
  mk_attr_decl (xa_name x)
               (match xa_use x with
                | AFixed v => AFixed (canon_or_ws t v)
                | ADefault v => if is_list_type t && ws_only v then AImplied      (* default = the empty list: as if absent *)
                                else ADefault (canon_or_ws t v)
                | u => u end)
               (match t with STAtom _ (Some vals) _ => Some (map (canon_or_ws t) vals) | _ => None end).

Definition attrs_check (d : tdef) (k : xclass) : bool :=
  let canon_f := fun f => match find_xattr d (af_name f) with Some x => afield_canon (xa_type x) f | None => f end in
  check_attrs (map attr_decl_canon (td_attrs d)) (map canon_f (xk_afields k))
  && match td_anyattr d with
     | None => true
     | Some w => match xk_anyattr k with
                 | None => false
                 | Some c => forallb (fun n => negb (wns_allows w n) || fns_allows c n) (wns_mentions w ++ fns_mentions c)
                             && (negb (wns_fresh w) || fns_fresh c)
                 end
     end.

Definition attr_types_check (d : tdef) (k : xclass) : bool :=
  forallb (fun x => match find (fun p => name_eqb (fst p) (xa_name x)) (xk_atypes k) with
                    | Some p => type_compat (xa_type x) (snd p)
                    | None => false end) (td_attrs d).

Definition xno_required (m : xmeta) : bool :=
  forallb (fun f => negb (xf_required f) || negb (xf_bounded f)) (xm_fields m).

Definition content_check (d : tdef) (k : xclass) : bool :=
  match td_content d with
  | XCEmpty => xno_required (xk_meta k)
  | XCSimple _ => xm_text (xk_meta k) && xno_required (xk_meta k)
  | XCElems c => xcheck_children c (xk_meta k)
  | XCMixed c => xcheck_children c (xk_meta k) && xm_mixed (xk_meta k)
  end.

Definition text_type_check (d : tdef) (k : xclass) : bool :=
  match td_content d with
  | XCSimple st => match xk_text k with Some f => type_compat st f | None => false end
  | _ => true
  end.

(* targets of the fields a child named q can be routed to *)
Definition targets_of (k : xclass) (q : name) : list ftarget :=
  concat (map (fun l => map snd (filter (fun p => name_eqb (fst p) q) l)) (xk_targets k)).

Definition decl_closed (p : program) (k : xclass) (x : xdecl) : bool :=
  let d := get_type (p_schema p) (xd_type x) in
  let ts := targets_of k (xd_name x) in
  (* no typed field for the name: a wildcard field must take it (generic AnyElement binding: lossless, untyped) *)
  (match ts with
   | [] => existsb (fun f => match xf_wild f with Some c => fns_allows c (ns_of (xd_name x)) | None => false end)
                   (xm_fields (xk_meta k))
   | _ => true end) &&

  forallb (fun tg =>
    match is_simple_type d, tg with
    | Some st, TPrim f => type_compat st f
    | Some _, TClass c => pair_mem p (xd_type x) c      (* a wrapper class with a Text var: checked as its own pair *)
    | Some _, TAnyType => false
    | None, TClass c =>
        pair_mem p (xd_type x) c
        && forallb (fun qt => (snd qt =? xd_type x)
                              || match find (fun e => name_eqb (fst e) (fst qt)) (xk_xsi (get_class p c)) with
                                 | Some e => pair_mem p (snd qt) (snd e)
                                 | None => false end) (td_derived d)
    | None, TAnyType =>                                 (* an empty complex type bound to `object`: generic and lossless *)
        match td_content d, td_attrs d, td_anyattr d with XCEmpty, [], None => true | _, _, _ => false end
    | None, TPrim _ => false
    end) ts.

(* a nillable declaration is bound to a nillable var (or to a class that is itself nillable, or generically) *)
Definition decl_nillable_bound (p : program) (k : xclass) (x : xdecl) : bool :=
  let ts := targets_of k (xd_name x) in
  negb (xd_nillable x) || existsb (name_eqb (xd_name x)) (xk_nillables k)
  || match ts with [] => true | _ => false end
  || existsb (fun tg => match tg with TClass c => xk_nillable (get_class p c) | _ => false end) ts.

(* per pair: [content; attributes; attribute types; text type; closure; order_safe; order claimed by the property;
   cm well-formed; nillable declarations bound to nillable fields] *)
Definition pair_flags (p : program) (tc : nat * nat) : list bool :=
  let d := get_type (p_schema p) (fst tc) in
  let k := get_class p (snd tc) in
  [ content_check d k;
    attrs_check d k;
    attr_types_check d k;
    text_type_check d k;
    forallb (decl_closed p k) (td_decls d);
    xorder_safe (tdef_cm d) (xk_meta k);
    xorder_claimed (tdef_cm d);
    cm_wf (to_cm (tdef_cm d));
    forallb (decl_nillable_bound p k) (td_decls d) ].

Definition pair_rejected (p : program) (tc : nat * nat) : option (list name) :=
  let d := get_type (p_schema p) (fst tc) in
  if content_check d (get_class p (snd tc)) then None else
  match td_content d with
  | XCElems c | XCMixed c => xrejected_word c (xk_meta (get_class p (snd tc)))
  | _ => None
  end.

Definition root_paired (p : program) : bool := let '(_, t, c) := p_root p in pair_mem p t c.

Definition pair_unbound_nillables (p : program) (tc : nat * nat) : list name :=
  map xd_name (filter (fun x => negb (decl_nillable_bound p (get_class p (snd tc)) x)) (td_decls (get_type (p_schema p) (fst tc)))).

(* which decls of a pair are not closed (for the report) *)
Definition pair_open_decls (p : program) (tc : nat * nat) : list name :=
  map xd_name (filter (fun x => negb (decl_closed p (get_class p (snd tc)) x)) (td_decls (get_type (p_schema p) (fst tc)))).

(* ---------------------------------------------------------------- documents *)
Record doc := mk_doc {
  d_in : xdoc;
  d_out : option xdoc;            (* None: the real parser or serializer raised *)
  d_out_valid : bool              (* lxml's validator on the output *)
}.
Definition fuel_of (n : xdoc) : nat := S (S (depth n)).

Definition root_type (p : program) : nat := let '(_, t, _) := p_root p in t.
Definition root_class (p : program) : nat := let '(_, _, c) := p_root p in c.

(* 1. the reader's schema and the typed validity of Spec/XsdCm.v agree with lxml on the generated documents *)
Definition doc_in_valid (pd : program * doc) : bool :=
  let (p, d) := pd in svalid (fuel_of (d_in d)) (p_schema p) (root_type p) (p_root_nillable p) None None (d_in d).

Definition doc_out_valid_agrees (pd : program * doc) : bool :=
  let (p, d) := pd in
  match d_out d with
  | None => true
  | Some o =>
      (* lxml refusing what the typed validity accepts would be a defect of the reader or of Spec/XsdCm.v; the other
         direction is libxml2's known laxity (bounded / nested repetitions, wildcards inside repeated sequences) *)
      implb (svalid (fuel_of o) (p_schema p) (root_type p) (p_root_nillable p) None None o) (d_out_valid d)
  end.

(* 2. the binding abstract: which instances does the metadata refuse?  (type id, code):
      1 a child has no slot / a required field stays empty; 2 attribute without field / required attribute
      missing; 4 xsi:type names no class *)
Definition battrs_accept (k : xclass) (attrs : list (name * str)) : bool :=
  forallb (fun kv => is_xsi (fst kv)
                     || match find_afield (xk_afields k) (fst kv) with
                        | Some _ => true
                        | None => match xk_anyattr k with Some c => fns_allows c (ns_of (fst kv)) | None => false end
                        end) attrs
  && forallb (fun f => negb (af_required f) || existsb (fun kv => name_eqb (fst kv) (af_name f)) attrs) (xk_afields k).

Fixpoint brejecting (fuel : nat) (p : program) (c : nat) (n : xdoc) : list (nat * nat) :=
  match fuel with
  | O => []
  | S f =>
      match n with
      | DText _ => []
      | DElem q attrs kids =>
          let c' := match attr_get attrs XSI_type with
                    | None => Some c
                    | Some qn => match find (fun e => name_eqb (fst e) (ws_collapse qn)) (xk_xsi (get_class p c)) with
                                 | Some e => Some (snd e)
                                 | None => Some c
                                 end
                    end in
          match c' with
          | None => [(c, 4)]
          | Some c' =>
              let k := get_class p c' in
              if is_nil attrs then (if battrs_accept k attrs then [] else [(c', 2)]) else
              (if negb (xaccepts_word (xk_meta k) (child_names kids)) then [(c', 1)] else [])
              ++ (if negb (battrs_accept k attrs) then [(c', 2)] else [])
              ++ concat (map (fun kid => match kid with
                                         | DText _ => []
                                         | DElem cq _ _ =>
                                             match targets_of k cq with
                                             | TClass c2 :: _ => brejecting f p c2 kid
                                             | _ => []
                                             end
                                         end) kids)
          end
      end
  end.

Definition doc_brejecting (pd : program * doc) : list (nat * nat) :=
  let (p, d) := pd in brejecting (fuel_of (d_in d)) p (root_class p) (d_in d).

(* the abstract refuses => the real parser must have failed (the converse is not claimed: values are not modelled) *)
Definition doc_abstract_sound (pd : program * doc) : bool :=
  let (p, d) := pd in
  match doc_brejecting pd with [] => true | _ => match d_out d with None => true | Some _ => false end end.

(* 3. same elements, attributes and typed values (defaults applied) *)
Definition class_of_type (p : program) (t : nat) : option nat :=
  option_map snd (find (fun x => fst x =? t) (p_pairs p)).

(* order is claimed for the children of an element of type t when the proved condition holds for its pair,
   or when the property's side condition holds and compound fields are on *)
Definition type_ordered (p : program) (ty : option nat) : bool :=
  match ty with
  | None => false
  | Some t =>
      let d := get_type (p_schema p) t in
      match class_of_type p t with
      | Some c => xorder_safe (tdef_cm d) (xk_meta (get_class p c)) || (p_compound p && xorder_claimed (tdef_cm d))
      | None => false
      end
  end.

Definition norm_doc_q (qk : quirks) (p : program) (n : xdoc) : ndoc := norm qk (fuel_of n) (p_schema p) (root_type p) None n.
Definition norm_doc := norm_doc_q no_quirks.

(* the smallest sets of known deviations that explain the difference between input and output
   (order ignored): [] = none needed, [9] = not explained by any combination *)
(* names that share a compound field with other primitive-typed choices, per schema type (through its pair) *)
Definition alias_of (p : program) (t : nat) (q : name) : bool :=
  match class_of_type p t with
  | None => false
  | Some c =>
      let related := fun a b => (a =? b) || existsb (Nat.eqb b) (xk_bases (get_class p a))
                                 || existsb (Nat.eqb a) (xk_bases (get_class p b)) in
      existsb (fun l => let prims := filter (fun e => match snd e with TPrim _ | TAnyType => true | _ => false end) l in
                        ((2 <=? length prims) && existsb (fun e => name_eqb (fst e) q) prims)
                        || ((2 <=? length l)
                            && existsb (fun e => name_eqb (fst e) q && match snd e with TPrim f => ft_tokens f | _ => false end) l)
                        || existsb (fun e => name_eqb (fst e) q
                                             && match snd e with
                                                | TClass a => existsb (fun e' => negb (name_eqb (fst e') q)
                                                                                 && match snd e' with TClass b => related a b | _ => false end) l
                                                | _ => false end) l)
              (xk_targets (get_class p c))
  end.

(* `input`: which side of the comparison is being normalised (q_edef excuses lost input instances only) *)
Definition quirk_of (p : program) (ids : list nat) (input : bool) : quirks :=
  mk_quirks (existsb (Nat.eqb 1) ids) (existsb (Nat.eqb 2) ids) (existsb (Nat.eqb 3) ids)
            (if existsb (Nat.eqb 4) ids then alias_of p else no_alias)
            (input && existsb (Nat.eqb 5) ids) (existsb (Nat.eqb 6) ids).

(* subsets of {1 nil, 2 empty, 3 union, 4 alias, 5 empty-with-default lost}, smallest first *)
Definition subsets_of_size (k : nat) : list (list nat) :=
  filter (fun l => length l =? k)
         (fold_right (fun x acc => map (cons x) acc ++ acc) [[]] [1; 2; 3; 4; 5; 6]).
Definition quirk_sets : list (list nat) := concat (map subsets_of_size [0; 1; 2; 3; 4; 5; 6]).

Definition docs_equal_under (p : program) (ids : list nat) (a b : xdoc) : bool :=
  ndoc_eqb (S (fuel_of a)) (p_schema p) (fun _ => false)
           (norm_doc_q (quirk_of p ids true) p a) (norm_doc_q (quirk_of p ids false) p b).

Definition doc_quirks (pd : program * doc) : list nat :=
  let (p, d) := pd in
  match d_out d with
  | None => []
  | Some o =>
      match find (fun ids => docs_equal_under p ids (d_in d) o) quirk_sets with
      | Some ids => ids
      | None => [9]
      end
  end.

(* two outputs of one document under two option sets: the same canonical typed infoset, in the same order *)
Definition matrix_equal (pab : program * (xdoc * xdoc)) : bool :=
  let '(p, (a, b)) := pab in
  ndoc_eqb (S (fuel_of a)) (p_schema p) (fun _ => true) (norm_doc p a) (norm_doc p b).

(* which deviations have instances in the input document at all *)
Definition doc_active (pd : program * doc) : list nat :=
  let (p, d) := pd in
  filter (fun i => negb (ndoc_eqb (S (fuel_of (d_in d))) (p_schema p) (fun _ => true)
                                   (norm_doc p (d_in d)) (norm_doc_q (quirk_of p [i] true) p (d_in d)))) [1; 2; 3; 4; 5; 6].

(* 3. same elements, attributes and typed values (defaults applied); order where it is claimed *)
Definition doc_infoset_ok (pd : program * doc) : bool :=
  let (p, d) := pd in
  match d_out d with
  | None => true
  | Some o => ndoc_eqb (S (fuel_of (d_in d))) (p_schema p) (type_ordered p) (norm_doc p (d_in d)) (norm_doc p o)
  end.

(* the same, not claiming order below xs:all groups (any order is valid there, the serializer uses field order) *)
Fixpoint xhas_all (c : xcm) : bool :=
  match c with
  | XAll _ => true
  | XSeq l | XChoice l => existsb xhas_all l
  | XOcc _ _ c => xhas_all c
  | _ => false
  end.
Fixpoint has_dup (l : list name) : bool :=
  match l with [] => false | x :: r => existsb (name_eqb x) r || has_dup r end.

Definition doc_infoset_ok_excl (excl : xcm -> bool) (pd : program * doc) : bool :=
  let (p, d) := pd in
  match d_out d with
  | None => true
  | Some o => ndoc_eqb (S (fuel_of (d_in d))) (p_schema p)
                       (fun ty => type_ordered p ty
                                  && negb (match ty with Some t => excl (tdef_cm (get_type (p_schema p) t)) | None => false end))
                       (norm_doc p (d_in d)) (norm_doc p o)
  end.
Definition doc_infoset_ok_noall := doc_infoset_ok_excl xhas_all.
(* ... nor where an element name occurs at two places of the content model (one field holds both) *)
Definition doc_infoset_ok_nodup := doc_infoset_ok_excl (fun c => xhas_all c || has_dup (xalphabet c)).

(* the same, order ignored everywhere: separates "something lost / invented / retyped" from "order changed" *)
Definition doc_infoset_unordered_ok (pd : program * doc) : bool :=
  let (p, d) := pd in
  match d_out d with
  | None => true
  | Some o => ndoc_eqb (S (fuel_of (d_in d))) (p_schema p) (fun _ => false) (norm_doc p (d_in d)) (norm_doc p o)
  end.

(* every element type met in the document *)
Fixpoint ndoc_types (fuel : nat) (n : ndoc) : list (option nat) :=
  match fuel with
  | O => []
  | S f => match n with NElem _ ty _ kids => ty :: concat (map (ndoc_types f) kids) | _ => [] end
  end.

(* 4. where order is claimed for every element of the document the output is schema-valid again *)
Definition doc_revalid_ok (pd : program * doc) : bool :=
  let (p, d) := pd in
  match d_out d with
  | None => true
  | Some _ => negb (forallb (type_ordered p) (ndoc_types (fuel_of (d_in d)) (norm_doc p (d_in d)))) || d_out_valid d
  end.

(* two outputs of the same document under two option sets: the same infoset, in the same order *)
Definition outputs_equal (ab : xdoc * xdoc) : bool := let (a, b) := ab in xdoc_eqb (fuel_of a) a b.

(* ---------------------------------------------------------------- features of a document that known defects hang on *)
(* an element instance of simple type with empty content (a default may apply; "" for a string) *)
Fixpoint doc_has (fuel : nat) (pr : tdef -> option xdecl -> list (name * str) -> list xdoc -> bool)
         (s : schema) (t : nat) (x : option xdecl) (n : xdoc) : bool :=
  match fuel with
  | O => false
  | S f =>
      match n with
      | DText _ => false
      | DElem q attrs kids =>
          match instance_type s t attrs with
          | None => false
          | Some t' =>
              let d := get_type s t' in
              pr d x attrs kids
              || existsb (fun k => match k with
                                   | DElem cq _ _ => match find_decl d cq with
                                                     | Some y => doc_has f pr s (xd_type y) (Some y) k
                                                     | None => false end
                                   | _ => false end) kids
          end
      end
  end.

Definition pr_empty_simple (d : tdef) (x : option xdecl) (attrs : list (name * str)) (kids : list xdoc) : bool :=
  match td_content d with XCSimple _ => negb (is_nil attrs) && (length (text_of kids) =? 0) | _ => false end.
Definition pr_nil (d : tdef) (x : option xdecl) (attrs : list (name * str)) (kids : list xdoc) : bool := is_nil attrs.
Definition pr_xsi_type (d : tdef) (x : option xdecl) (attrs : list (name * str)) (kids : list xdoc) : bool :=
  match attr_get attrs XSI_type with Some _ => true | None => false end.
Definition pr_mixed_ws (d : tdef) (x : option xdecl) (attrs : list (name * str)) (kids : list xdoc) : bool :=
  match td_content d with
  | XCMixed _ => existsb (fun k => match k with DText t => ws_only t | _ => false end) kids
  | _ => false end.

Definition is_binary_type (d : tdef) : bool :=
  match td_content d with
  | XCSimple (STAtom b _ _) => match vkind_of b with VHex | VBase64 => true | _ => false end
  | _ => false end.
Definition pr_mixed_binary (s : schema) (d : tdef) (x : option xdecl) (attrs : list (name * str)) (kids : list xdoc) : bool :=
  match td_content d with
  | XCMixed _ => existsb (fun k => match k with
                                   | DElem cq _ _ => match find_decl d cq with
                                                     | Some y => is_binary_type (get_type s (xd_type y))
                                                     | None => false end
                                   | _ => false end) kids
  | _ => false end.

Definition doc_feature (pr : tdef -> option xdecl -> list (name * str) -> list xdoc -> bool) (pd : program * doc) : bool :=
  let (p, d) := pd in doc_has (fuel_of (d_in d)) pr (p_schema p) (root_type p) None (d_in d).

(* ---------------------------------------------------------------- diagnostics: where two canonical infosets differ *)
Definition ndoc_name (n : ndoc) : name :=
  match n with NElem q _ _ _ => q | NText _ => [35%N] | NRaw (DElem q _ _) => 42%N :: q | NRaw _ => [42%N] end.

Fixpoint ndoc_diff (fuel : nat) (s : schema) (a b : ndoc) : list name :=
  match fuel with
  | O => []
  | S f =>
      if ndoc_eqb (S f) s (fun _ => false) a b then [] else
      match a, b with
      | NElem q ty xs ks, NElem q' ty' ys ks' =>
          if negb (name_eqb q q') then [q; [33%N]; q']
          else
            let attrs_same := match ty with
                              | Some t => perm_eqb (typed_attr_eqb false (get_type s t)) xs ys
                              | None => perm_eqb attr_pair_eqb xs ys end in
            if negb attrs_same then [q; [64%N]]
            else
              let lonely := filter (fun k => negb (existsb (ndoc_eqb f s (fun _ => false) k) ks')) ks in
              let lonely' := filter (fun k => negb (existsb (fun x => ndoc_eqb f s (fun _ => false) x k) ks)) ks' in
              match lonely, lonely' with
              | k :: _, _ =>
                  match find (fun k' => name_eqb (ndoc_name k) (ndoc_name k')) lonely' with
                  | Some k' => q :: ndoc_diff f s k k'
                  | None => [q; [45%N]; ndoc_name k]            (* lost *)
                  end
              | [], k' :: _ => [q; [43%N]; ndoc_name k']        (* invented *)
              | [], [] => [q; [61%N]]                            (* multiplicities / text *)
              end
      | _, _ => [ndoc_name a; [33%N]; ndoc_name b]
      end
  end.

(* where the difference is; when no set of known deviations explains it, where what remains under all of them is *)
Definition doc_diff (pd : program * doc) : list name :=
  let (p, d) := pd in
  match d_out d with
  | None => []
  | Some o =>
      let ids := match doc_quirks pd with [9] => [1; 2; 3; 4; 5; 6] | _ => [] end in
      ndoc_diff (S (fuel_of (d_in d))) (p_schema p) (norm_doc_q (quirk_of p ids true) p (d_in d))
                (norm_doc_q (quirk_of p ids false) p o)
  end.

(* ---------------------------------------------------------------- the same schema under two option sets *)
Definition afield_eqb (a b : afield) : bool :=
  name_eqb (af_name a) (af_name b) && Bool.eqb (af_required a) (af_required b)
  && opt_eqb str_eqb (af_default a) (af_default b) && Bool.eqb (af_fixed a) (af_fixed b)
  && opt_eqb (list_eqb str_eqb) (af_enum a) (af_enum b).

Definition opt_same {A} (a b : option A) : bool :=
  match a, b with Some _, Some _ | None, None => true | _, _ => false end.

(* equal up to collection factories and class nesting (neither is part of the abstract) *)
(* the part of the metadata that matters for a type: fields restricted to the element names of its content model
   (a class may carry extra, never used fields under one option set), ranks replaced by their relative order *)
Fixpoint insert_rank (f : xfield) (l : list xfield) : list xfield :=
  match l with [] => [f] | g :: r => if xf_rank f <=? xf_rank g then f :: l else g :: insert_rank f r end.
Definition relevant_meta (c : xcm) (m : xmeta) : xmeta :=
  let fs := concat (map (fun f => let ns := filter (fun q => existsb (name_eqb q) (xalphabet c)) (xf_names f) in
                                  match ns, xf_wild f with
                                  | [], None => []
                                  | _, _ => [mk_xfield ns (xf_wild f) (xf_bounded f) (xf_required f) (xf_rank f)]
                                  end) (xm_fields m)) in
  let order := map xf_names (fold_right insert_rank [] fs) in
  mk_xmeta (map (fun f => mk_xfield (xf_names f) (xf_wild f) (xf_bounded f) (xf_required f)
                                    (length (filter (fun ns => negb (list_eqb name_eqb ns (xf_names f))) (firstn 0 order)))) fs
            ++ map (fun ns => mk_xfield ns None false false 0) order)
           (xm_text m) (xm_mixed m).

Definition class_equiv_for (d : tdef) (a b : xclass) : bool :=
  meta_equiv (relevant_meta (tdef_cm d) (xk_meta a)) (relevant_meta (tdef_cm d) (xk_meta b))
  && list_eqb afield_eqb (filter (fun f => match find_xattr d (af_name f) with Some _ => true | None => false end) (xk_afields a))
                         (filter (fun f => match find_xattr d (af_name f) with Some _ => true | None => false end) (xk_afields b))
  && opt_same (xk_anyattr a) (xk_anyattr b) && opt_same (xk_text a) (xk_text b).

Definition class_equiv (a b : xclass) : bool :=
  meta_equiv (xk_meta a) (xk_meta b) && list_eqb afield_eqb (xk_afields a) (xk_afields b)
  && opt_same (xk_anyattr a) (xk_anyattr b) && opt_same (xk_text a) (xk_text b).

(* schema types whose classes under the two option sets are not equivalent *)
(* an empty complex type without attributes may be bound to `object` (no class at all) under one option set and to
   an empty class under another: both hold exactly the empty element *)
Definition trivial_type (d : tdef) : bool :=
  match td_content d, td_attrs d, td_anyattr d with XCEmpty, [], None => true | _, _, _ => false end.

Definition program_inequiv (a b : program) : list nat :=
  concat (map (fun tc => if trivial_type (get_type (p_schema a) (fst tc)) then [] else
                         match class_of_type b (fst tc) with
                         | Some c' => if class_equiv_for (get_type (p_schema a) (fst tc)) (get_class a (snd tc)) (get_class b c')
                                      then [] else [fst tc]
                         | None => [fst tc]
                         end) (p_pairs a)).

(* ---------------------------------------------------------------- one pass per document (the case files use these) *)
(* [unordered equal; order as claimed; ... not claiming order below xs:all; ... nor for repeated element names] *)
Definition doc_order_verdict (pd : program * doc) : list bool :=
  let (p, d) := pd in
  match d_out d with
  | None => [true; true; true; true]
  | Some o =>
      let a := norm_doc p (d_in d) in
      let b := norm_doc p o in
      let eq := fun ord => ndoc_eqb (S (fuel_of (d_in d))) (p_schema p) ord a b in
      let excl := fun (ex : xcm -> bool) (ty : option nat) =>
                    type_ordered p ty
                    && negb (match ty with Some t => ex (tdef_cm (get_type (p_schema p) t)) | None => false end) in
      if negb (eq (fun _ => false)) then [false; false; false; false]
      else if eq (type_ordered p) then [true; true; true; true]
      else [true; false; eq (excl xhas_all); eq (excl (fun c => xhas_all c || has_dup (xalphabet c)))]
  end.

(* the deviations with instances in the input: only needed for documents the real code refuses *)
Definition doc_active_if_failed (pd : program * doc) : list nat :=
  match d_out (snd pd) with None => doc_active pd | Some _ => [] end.
