(* Model/ConvAll.v — the registered converters put together: values, keyword
   arguments, dispatch from the registry (Gen.ConvTables.registered_converters)
   to the per-type models, ConverterFactory.deserialize / serialize.

   float: the value carried is the exact decimal reading of the text (fsyn); the
   binary rounding is CPython's and is outside the model (Model/ConvFloat.v). *)
From Coq Require Import NArith ZArith List Bool String.
From XV Require Import Base.Str Gen.ConvTables Model.ConvBool Model.ConvInt Model.ConvBytes
  Model.ConvDecimal Model.ConvQName Model.ConvFloat Model.ConvEnum Model.ConvFactory.
Import ListNotations.
Open Scope N_scope.

Inductive value :=
| VInt (z : Z)
| VBool (b : bool)
| VStr (s : str)
| VBytes (k : bytes_kind) (b : list N)
| VDec (d : pydec)
| VQName (text : str)
| VFloat (f : fsyn)
| VEnum (k : nat) (member : nat).

(* **kwargs *)
Record kwargs := mk_kwargs { kw_format : option str; kw_ns_map : option nsmap }.

(* the enumeration classes in scope: TEnum k is the k-th *)
Definition enum_env := list enum_def.

(* the converter object a registration expression evaluates to, run on a str *)
Definition run_converter (kw : kwargs) (env : enum_env) (t : pytype) (expr : str) (s : str) : option value :=
  if str_eqb expr (lit "IntConverter()") then option_map VInt (int_deser s)
  else if str_eqb expr (lit "BoolConverter()") then option_map VBool (bool_deser s)
  else if str_eqb expr (lit "StringConverter()") || str_eqb expr (lit "converter.type_converter(str)")
  then option_map VStr (string_deser s)
  else if str_eqb expr (lit "BytesConverter()") then option_map (VBytes BPlain) (bytes_deser (kw_format kw) s)
  else if str_eqb expr (lit "DecimalConverter()") then option_map VDec (dec_deser s)
  else if str_eqb expr (lit "QNameConverter()") then option_map VQName (qname_deser s (kw_ns_map kw))
  else if str_eqb expr (lit "FloatConverter()") then option_map VFloat (float_syntax s)
  else if str_eqb expr (lit "EnumConverter()") then
    match t with
    | TEnum k => match nth_error env k with
                 | Some d => option_map (VEnum k) (enum_deser (kw_ns_map kw) d s)
                 | None => None
                 end
    | _ => None                                (* data_type is not an EnumMeta *)
    end
  else None.

Definition conv (kw : kwargs) (env : enum_env) (t : pytype) (s : str) : option value :=
  match type_converter t with
  | Some e => run_converter kw env t e s
  | None => None
  end.

Definition deserialize (kw : kwargs) (env : enum_env) (s : str) (types : list pytype) : option (pytype * value) :=
  deserialize_gen (conv kw env) s types.
