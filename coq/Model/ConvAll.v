(* Model/ConvAll.v — the registered converters put together: values, keyword
   arguments, dispatch from the registry (Gen.ConvTables.registered_converters)
   to the per-type models, ConverterFactory.deserialize / serialize. *)
From Coq Require Import NArith ZArith List Bool String.
From XV Require Import Base.Str Gen.ConvTables Model.ConvBool Model.ConvInt Model.ConvBytes Model.ConvFactory.
Import ListNotations.
Open Scope N_scope.

Inductive value :=
| VInt (z : Z)
| VBool (b : bool)
| VStr (s : str)
| VBytes (k : bytes_kind) (b : list N).

(* **kwargs *)
Record kwargs := mk_kwargs { kw_format : option str }.

(* the converter object a registration expression evaluates to, run on a str *)
Definition run_converter (kw : kwargs) (expr : str) (s : str) : option value :=
  if str_eqb expr (lit "IntConverter()") then option_map VInt (int_deser s)
  else if str_eqb expr (lit "BoolConverter()") then option_map VBool (bool_deser s)
  else if str_eqb expr (lit "StringConverter()") || str_eqb expr (lit "converter.type_converter(str)")
  then option_map VStr (string_deser s)
  else if str_eqb expr (lit "BytesConverter()") then option_map (VBytes BPlain) (bytes_deser (kw_format kw) s)
  else None.

Definition conv (kw : kwargs) (t : pytype) (s : str) : option value :=
  match type_converter t with
  | Some e => run_converter kw e s
  | None => None
  end.

Definition deserialize (kw : kwargs) (s : str) (types : list pytype) : option (pytype * value) :=
  deserialize_gen (conv kw) s types.

(* ConverterFactory.serialize of a non-list value (value_converter + serialize);
   None = an exception *)
Definition serialize (kw : kwargs) (v : value) : option str :=
  match v with
  | VInt z => int_ser z
  | VBool b => Some (bool_ser b)
  | VStr s => Some (string_ser s)
  | VBytes k b => bytes_ser k (kw_format kw) b
  end.
