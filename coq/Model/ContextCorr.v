(* Model/ContextCorr.v — agreement predicates and oracles used by the generated
   case files of the C14 / C19 correspondence checks. *)
From Coq Require Import String Ascii NArith List Bool.
From XV Require Import Base.Str Base.Eqb Model.Context Model.Sched.
Import ListNotations.
Open Scope N_scope.

Fixpoint tree_eqb (a b : tree) {struct a} : bool :=
  match a, b with
  | Node la ka, Node lb kb =>
      str_eqb la lb &&
      (fix go (x : list tree) (y : list tree) {struct x} : bool :=
         match x, y with
         | [], [] => true
         | t :: x', u :: y' => tree_eqb t u && go x' y'
         | _, _ => false
         end) ka kb
  end.

Definition res_eqb (a b : res) : bool :=
  match a, b with
  | ROk t, ROk u => tree_eqb t u
  | RErr k m, RErr k' m' => str_eqb k k' && str_eqb m m'
  | _, _ => false
  end.

(* what the implementation's tracing subclass of XmlContext logs *)
Inductive otev :=
| OBuild (c : cid) (pns : ostr)
| OLookup (q : str) (got : list cid).

Definition otev_eqb (a b : otev) : bool :=
  match a, b with
  | OBuild c p, OBuild c' p' => N.eqb c c' && ostr_eqb p p'
  | OLookup q l, OLookup q' l' => str_eqb q q' && lcid_eqb l l'
  | _, _ => false
  end.

(* projection of the model's trace to the logged events.  find_types logs after
   the lookup, build before the construction: same order as in the model.
   A lookup of a built-in datatype qname is logged by the implementation (with
   an empty answer) but leaves no event in the model: the harness never asks. *)
Definition observe (t : trace) : list otev :=
  flat_map (fun e => match e with
                     | TBuild c p _ _ => [OBuild c p]
                     | TLookup q _ g _ => [OLookup q g]
                     | _ => []
                     end) t.

(* DictDecoder.bind_best_dataclass iterates a *set* of classes: the order of the
   accesses inside a decode depends on object addresses; such operations are
   compared as multisets *)
Fixpoint remove_otev (e : otev) (l : list otev) : option (list otev) :=
  match l with
  | [] => None
  | x :: r => if otev_eqb e x then Some r
              else match remove_otev e r with Some r' => Some (x :: r') | None => None end
  end.
Fixpoint perm_otev (a b : list otev) : bool :=
  match a with
  | [] => match b with [] => true | _ => false end
  | e :: r => match remove_otev e b with Some b' => perm_otev r b' | None => false end
  end.
Definition trace_agree (ordered : bool) (t : trace) (o : list otev) : bool :=
  if ordered then list_eqb otev_eqb (observe t) o else perm_otev (observe t) o.

(* one step of a case: an environment change, or an operation with what the
   implementation returned on the shared and on fresh instances *)
Inductive step :=
| StEnv (e : envop)
| StOp (o : op) (ordered : bool) (r_shared r_fresh : res) (t_shared t_fresh : list otev)
| StOpq (r_shared r_fresh : res) (t_shared t_fresh : list otev).

(* An operation outside the modelled binding fragment (unions, compound fields,
   tokens, non-str primitives ...) is *opaque*: its script is the replay of the
   context accesses the implementation made on fresh instances in this very step;
   its result is the list of answers it obtained.  The model then predicts
   "differs from fresh" exactly when some answer of the context differs — which
   is all a client that keeps no state of its own can depend on. *)
Definition call_of_otev (e : otev) : call :=
  match e with OBuild c p => CBuild c p | OLookup q _ => CFindTypes q end.
Definition tree_of_ans (a : ans) : tree :=
  match res_of_ans a with ROk t => t | RErr k _ => Node (lit "err:" ++ k) [] end.
Fixpoint opaque_script (l : list otev) (acc : list tree) : script :=
  match l with
  | [] => Ret (ROk (Node (lit "opaque") (rev acc)))
  | e :: r => Call (call_of_otev e) (fun a => opaque_script r (tree_of_ans a :: acc))
  end.

Record sim := mkSim { s_w : world; s_x : ctx; s_t : trace }.

(* per operation step: model = implementation (results and logged accesses, on the
   shared and on fresh instances); the implementation's two answers differ; the
   model's two answers differ; which modelled defects deviate in this very step
   (ns, stale, prune, recfail); the fresh run satisfies the guard clauses *)
Record verdict := mkVerdict {
  v_agree : bool; v_differs : bool; v_model_differs : bool;
  v_ns : bool; v_stale : bool; v_prune : bool; v_rec : bool; v_fresh_guard : bool }.

Definition step_verdict (st : sim) (s : step) : sim * option verdict :=
  match s with
  | StEnv e => (mkSim (env_step (s_w st) e) (s_x st) (s_t st), None)
  | StOp o ord rs rf ts tf =>
      let sc := op_script (s_w st) o in
      let '(x1, r1, t1) := run_script (s_w st) (s_x st) sc in
      let '(_, r2, t2) := run_script (s_w st) ctx0 sc in
      (mkSim (s_w st) x1 (s_t st ++ t1),
       Some (mkVerdict (res_eqb r1 rs && res_eqb r2 rf && trace_agree ord t1 ts && trace_agree ord t2 tf)
                       (negb (res_eqb rs rf)) (negb (res_eqb r1 r2))
                       (dev_ns t1 || dev_ns t2) (dev_stale t1 || dev_stale t2)
                       (dev_prune t1 || dev_prune t2)
                       (negb (Bool.eqb (has_recfail t1) (has_recfail t2)))
                       (ns_closed t2 && quiet t2)))
  | StOpq rs rf ts tf =>
      (* prediction: replay the accesses of the fresh run on the shared state and on a fresh one;
         the operation can only behave differently if some answer differs.  State: the shared
         instance has really made the accesses ts. *)
      let scf := opaque_script tf [] in
      let '(_, r1, t1) := run_script (s_w st) (s_x st) scf in
      let '(_, r2, t2) := run_script (s_w st) ctx0 scf in
      let '(x1, _, t1s) := run_script (s_w st) (s_x st) (opaque_script ts []) in
      let same := res_eqb r1 r2 in
      (mkSim (s_w st) x1 (s_t st ++ t1s),
       Some (mkVerdict (trace_agree true t2 tf && trace_agree true t1s ts
                        && (negb same || list_eqb otev_eqb ts tf))
                       (negb (res_eqb rs rf)) (negb same)
                       (dev_ns t1 || dev_ns t2) (dev_stale t1 || dev_stale t2)
                       (dev_prune t1 || dev_prune t2) false
                       (ns_closed t2 && quiet t2)))
  end.

Fixpoint run_steps (st : sim) (l : list step) : sim * list verdict :=
  match l with
  | [] => (st, [])
  | s :: r => let '(st1, v) := step_verdict st s in
              let '(st2, vs) := run_steps st1 r in
              (st2, match v with Some v => v :: vs | None => vs end)
  end.

Definition case := (world * list step)%type.
Definition run_case (c : case) : sim * list verdict := run_steps (mkSim (fst c) ctx0 []) (snd c).
Definition case_verdicts (c : case) : list verdict := snd (run_case c).

(* correspondence: the model predicts every result and every logged access *)
Definition agree_case (c : case) : bool := forallb v_agree (case_verdicts c).

(* the history seen by the theorems: env changes and the scripts of the operations *)
Fixpoint hops_of (w : world) (l : list step) : list hop :=
  match l with
  | [] => []
  | StEnv e :: r => HEnv e :: hops_of (env_step w e) r
  | StOp o _ _ _ _ _ :: r => HRun (op_script w o) :: hops_of w r
  | StOpq _ _ ts _ :: r => HRun (opaque_script ts []) :: hops_of w r
  end.

(* the guard of C14_history_independent_guarded for *every* call of the case: the
   clauses are monotone in the history (a sub-trace of a consistent, quiet trace is
   consistent and quiet), so it is evaluated once on the whole shared trace, plus the
   fresh run of each call *)
Definition guard_of (c : case) (st : sim) (vs : list verdict) : bool :=
  world_ok (fst c) && modules_stable (hops_of (fst c) (snd c))
  && ns_closed (s_t st) && quiet (s_t st) && forallb v_fresh_guard vs.
Definition case_guard (c : case) : bool := let '(st, vs) := run_case c in guard_of c st vs.

(* oracle 1: under the guard no call may differ from fresh instances *)
Definition oracle_guarded (c : case) : bool :=
  negb (case_guard c) || forallb (fun v => negb (v_differs v)) (case_verdicts c).

(* oracle 2: a call that differs from fresh instances must be explained by a
   modelled defect deviating in that very call *)
Definition explained (v : verdict) : bool :=
  negb (v_differs v) || (v_model_differs v && (v_ns v || v_stale v || v_prune v || v_rec v)).
Definition oracle_explained (c : case) : bool := forallb explained (case_verdicts c).

(* summary bit mask of a case (the model is run once):
   1 agree, 2 oracle_guarded, 4 oracle_explained, 8 some call differs, 16 guard holds,
   32 ns-cache-key, 64 stale-subclass-index, 128 pruned-index, 256 build-recursive
   (the last four: the defect deviates in a call that differs) *)
Definition b2n (b : bool) (n : nat) : nat := if b then n else O.
Definition case_summary (c : case) : nat :=
  let '(st, vs) := run_case c in
  let d := filter v_differs vs in
  let g := guard_of c st vs in
  (b2n (forallb v_agree vs) 1 + b2n (negb g || forallb (fun v => negb (v_differs v)) vs) 2
   + b2n (forallb explained vs) 4
   + b2n (existsb v_differs vs) 8 + b2n g 16
   + b2n (existsb v_ns d) 32 + b2n (existsb v_stale d) 64 + b2n (existsb v_prune d) 128
   + b2n (existsb v_rec d) 256)%nat.

(* index (among the operation steps) of the first call that differs, for replays *)
Fixpoint first_differs (vs : list verdict) (i : nat) : option nat :=
  match vs with
  | [] => None
  | v :: r => if v_differs v then Some i else first_differs r (S i)
  end.

(* diagnostics for replays: per operation step, 0 = agrees, 1 = a result differs,
   2 = only a logged access differs *)
Definition step_diag (st : sim) (s : step) : option nat :=
  match s with
  | StEnv _ => None
  | StOp o ord rs rf ts tf =>
      let sc := op_script (s_w st) o in
      let '(_, r1, t1) := run_script (s_w st) (s_x st) sc in
      let '(_, r2, t2) := run_script (s_w st) ctx0 sc in
      Some (if negb (res_eqb r1 rs && res_eqb r2 rf) then 1%nat
            else if negb (trace_agree ord t1 ts && trace_agree ord t2 tf) then 2%nat else 0%nat)
  | StOpq _ _ _ _ => Some (match step_verdict st s with (_, Some v) => if v_agree v then 0%nat else 2%nat | _ => 0%nat end)
  end.
Fixpoint diag_steps (st : sim) (l : list step) : list nat :=
  match l with
  | [] => []
  | s :: r => let '(st1, _) := step_verdict st s in
              match step_diag st s with Some n => n :: diag_steps st1 r | None => diag_steps st1 r end
  end.
Definition case_diag (c : case) : list nat := diag_steps (mkSim (fst c) ctx0 []) (snd c).

(* ====================================================================== *)
(* C19: several threads through one shared context, under a schedule.
   cc_warm: operations run one after the other before the threads start (empty =
   a cold context); cc_threads: one operation per thread; cc_sched: thread numbers;
   observed: the result of every thread, the result of the same operation run alone
   on an identically prepared context, and the marked source lines in execution
   order as (thread, label). *)
Record ccase := mkCC {
  cc_world : world; cc_warm : list op; cc_threads : list op; cc_sched : list nat;
  cc_results : list res; cc_solo : list res; cc_log : list (nat * nat) }.

Definition warm_up (w : world) (ops : list op) : sstate :=
  fold_left (fun st o => fst (solo w st (expand w (op_script w o)))) ops s0.

Definition lres_eqb := list_eqb res_eqb.
Definition log_eqb := list_eqb (fun a b : nat * nat => Nat.eqb (fst a) (fst b) && Nat.eqb (snd a) (snd b)).

Definition cc_progs (c : ccase) : list script := map (op_script (cc_world c)) (cc_threads c).

(* summary bit mask of a concurrent case:
   1 agree (results, solo results, executed marked lines), 2 inside the guard of
   context_safe no thread differs from its solo run, 4 every difference is explained
   (the model reproduces it and the requests are not ns-closed), 8 some thread
   differs, 16 the guard holds, 32 the context was cold, 64 the requests are not
   ns-closed and a thread differs *)
Definition ccase_summary (c : ccase) : nat :=
  let w := cc_world c in
  let st := warm_up w (cc_warm c) in
  let progs := cc_progs c in
  let mres := conc_run w st progs (cc_sched c) in
  let msolo := map (solo_run w st) progs in
  let mlog := conc_labels w st progs (cc_sched c) in
  let agree := lres_eqb mres (cc_results c) && lres_eqb msolo (cc_solo c) && log_eqb mlog (cc_log c) in
  let differs := negb (lres_eqb (cc_results c) (cc_solo c)) in
  let mdiffers := negb (lres_eqb mres msolo) in
  let g := conc_guard w st progs in
  (b2n agree 1 + b2n (negb g || negb differs) 2
   + b2n (negb differs || (mdiffers && negb g)) 4
   + b2n differs 8 + b2n g 16 + b2n (negb (warm_b w st)) 32 + b2n (differs && negb g) 64
   + b2n (differs && negb (forallb (ref_rec_closed w (eff_index w st)) progs)) 128)%nat.
