(* Model/ContextCorr.v — agreement predicates and oracles used by the generated
   case files of the C14 / C19 correspondence checks. *)
From Coq Require Import String Ascii NArith List Bool.
From XV Require Import Base.Str Base.Eqb Model.Context.
Import ListNotations.
Open Scope N_scope.

Fixpoint tree_eqb (a b : tree) {struct a} : bool :=
  match a, b with
  | Node la ka, Node lb kb =>
      str_eqb la lb &&
      (fix go (x : list tree) (y : list tree) {struct x} : bool :=
         match x, y with
         | [], [] => true
         | t :: x', u :: y' => tree_eqb t u && go x' y'
         | _, _ => false
         end) ka kb
  end.

Definition res_eqb (a b : res) : bool :=
  match a, b with
  | ROk t, ROk u => tree_eqb t u
  | RErr k m, RErr k' m' => str_eqb k k' && str_eqb m m'
  | _, _ => false
  end.

(* what the implementation's tracing subclass of XmlContext logs *)
Inductive otev :=
| OBuild (c : cid) (pns : ostr)
| OLookup (q : str) (got : list cid).

Definition otev_eqb (a b : otev) : bool :=
  match a, b with
  | OBuild c p, OBuild c' p' => N.eqb c c' && ostr_eqb p p'
  | OLookup q l, OLookup q' l' => str_eqb q q' && lcid_eqb l l'
  | _, _ => false
  end.

(* projection of the model's trace to the logged events.  find_types logs after
   the lookup, build before the construction: same order as in the model.
   A lookup of a built-in datatype qname is logged by the implementation (with
   an empty answer) but leaves no event in the model: the harness never asks. *)
Definition observe (t : trace) : list otev :=
  flat_map (fun e => match e with
                     | TBuild c p _ _ => [OBuild c p]
                     | TLookup q _ g _ => [OLookup q g]
                     | _ => []
                     end) t.

Definition trace_agree (t : trace) (o : list otev) : bool := list_eqb otev_eqb (observe t) o.

(* one step of a case: an environment change, or an operation with what the
   implementation returned on the shared and on fresh instances *)
Inductive step :=
| StEnv (e : envop)
| StOp (o : op) (r_shared r_fresh : res) (t_shared t_fresh : list otev).

Record sim := mkSim { s_w : world; s_x : ctx; s_t : trace }.

(* per operation step: model = implementation (results and logged accesses, on the
   shared and on fresh instances); the implementation's two answers differ; the
   model's two answers differ; which modelled defects deviate in this very step
   (ns, stale, prune, recfail); the fresh run satisfies the guard clauses *)
Record verdict := mkVerdict {
  v_agree : bool; v_differs : bool; v_model_differs : bool;
  v_ns : bool; v_stale : bool; v_prune : bool; v_rec : bool; v_fresh_guard : bool }.

Definition step_verdict (st : sim) (s : step) : sim * option verdict :=
  match s with
  | StEnv e => (mkSim (env_step (s_w st) e) (s_x st) (s_t st), None)
  | StOp o rs rf ts tf =>
      let sc := op_script (s_w st) o in
      let '(x1, r1, t1) := run_script (s_w st) (s_x st) sc in
      let '(_, r2, t2) := run_script (s_w st) ctx0 sc in
      (mkSim (s_w st) x1 (s_t st ++ t1),
       Some (mkVerdict (res_eqb r1 rs && res_eqb r2 rf && trace_agree t1 ts && trace_agree t2 tf)
                       (negb (res_eqb rs rf)) (negb (res_eqb r1 r2))
                       (dev_ns t1 || dev_ns t2) (dev_stale t1 || dev_stale t2)
                       (dev_prune t1 || dev_prune t2)
                       (negb (Bool.eqb (has_recfail t1) (has_recfail t2)))
                       (ns_closed t2 && quiet t2)))
  end.

Fixpoint run_steps (st : sim) (l : list step) : sim * list verdict :=
  match l with
  | [] => (st, [])
  | s :: r => let '(st1, v) := step_verdict st s in
              let '(st2, vs) := run_steps st1 r in
              (st2, match v with Some v => v :: vs | None => vs end)
  end.

Definition case := (world * list step)%type.
Definition run_case (c : case) : sim * list verdict := run_steps (mkSim (fst c) ctx0 []) (snd c).
Definition case_verdicts (c : case) : list verdict := snd (run_case c).

(* correspondence: the model predicts every result and every logged access *)
Definition agree_case (c : case) : bool := forallb v_agree (case_verdicts c).

(* the history seen by the theorems: env changes and the scripts of the operations *)
Fixpoint hops_of (w : world) (l : list step) : list hop :=
  match l with
  | [] => []
  | StEnv e :: r => HEnv e :: hops_of (env_step w e) r
  | StOp o _ _ _ _ :: r => HRun (op_script w o) :: hops_of w r
  end.

(* the guard of C14_history_independent_guarded for *every* call of the case: the
   clauses are monotone in the history (a sub-trace of a consistent, quiet trace is
   consistent and quiet), so it is evaluated once on the whole shared trace, plus the
   fresh run of each call *)
Definition case_guard (c : case) : bool :=
  let '(st, vs) := run_case c in
  world_ok (fst c) && modules_stable (hops_of (fst c) (snd c))
  && ns_closed (s_t st) && quiet (s_t st) && forallb v_fresh_guard vs.

(* oracle 1: under the guard no call may differ from fresh instances *)
Definition oracle_guarded (c : case) : bool :=
  negb (case_guard c) || forallb (fun v => negb (v_differs v)) (case_verdicts c).

(* oracle 2: a call that differs from fresh instances must be explained by a
   modelled defect deviating in that very call *)
Definition explained (v : verdict) : bool :=
  negb (v_differs v) || (v_model_differs v && (v_ns v || v_stale v || v_prune v || v_rec v)).
Definition oracle_explained (c : case) : bool := forallb explained (case_verdicts c).

(* summary bit mask of a case:
   1 agree, 2 oracle_guarded, 4 oracle_explained, 8 some call differs, 16 guard holds,
   32 ns-cache-key, 64 stale-subclass-index, 128 pruned-index, 256 build-recursive
   (the last four: the defect deviates in a call that differs) *)
Definition b2n (b : bool) (n : nat) : nat := if b then n else O.
Definition case_summary (c : case) : nat :=
  let vs := case_verdicts c in
  let d := filter v_differs vs in
  (b2n (forallb v_agree vs) 1 + b2n (oracle_guarded c) 2 + b2n (forallb explained vs) 4
   + b2n (existsb v_differs vs) 8 + b2n (case_guard c) 16
   + b2n (existsb v_ns d) 32 + b2n (existsb v_stale d) 64 + b2n (existsb v_prune d) 128
   + b2n (existsb v_rec d) 256)%nat.

(* index (among the operation steps) of the first call that differs, for replays *)
Fixpoint first_differs (vs : list verdict) (i : nat) : option nat :=
  match vs with
  | [] => None
  | v :: r => if v_differs v then Some i else first_differs r (S i)
  end.
