(* Model/Reader.v — executable models of the two XML handlers' event pumps
   (xsdata/formats/dataclass/parsers/handlers/native.py, handlers/lxml.py) over a parsed
   document WITH its namespace declarations.  No proofs here.

   The tokenisers (expat behind xml.etree.iterparse, libxml2 behind lxml.etree.iterparse /
   iterwalk) are third-party code: they are represented by `flatten`, the order in which they
   deliver (start-ns*, start, ..., end) for an element tree whose names are already resolved
   to Clark notation; that order, and lxml's `element.nsmap`, are tied by the correspondence
   of harness/c08.py (documents printed by the harness from the tree, events recorded by the
   REAL handlers through RecordParser), not verified.

   What is modelled, function by function:
   * XmlEventHandler.process_context  = `native_step` / `native_run`: `start-ns` accumulates
     into element_ns_map (a dict: `ns_set`) and is forwarded to register_namespace; `start`
     passes merge_parent_namespaces(element_ns_map); `end` passes element.text / element.tail;
   * XmlEventHandler.merge_parent_namespaces = `merge_parent`: the parent map is
     `self.queue[-1].ns_map`, i.e. it depends on which XmlNode the PARSER pushed for the parent:
     every node keeps the map it was started with, except SkipNode (`{}`) and the children of a
     UnionNode (UnionNode.child returns the union node itself, so the "parent map" stays the
     map of the union ELEMENT and declarations made below it are lost — finding C08-F7).
     The stack of those maps is `n_aux`, one entry per entry of the real queue; `pushed_ns`
     reads the kind of the node the model parser pushed;
   * LxmlEventHandler.process_context = `lxml_pump`: `start` passes element.nsmap (`lxml_nsmap`:
     all declarations in scope, innermost first, first occurrence of a prefix wins; the
     default namespace under the key None, `xmlns=""` as {None: ""});
   * native.iterwalk (ElementTree sources) = `et_flatten`: declarations are gone, a prefix is
     regenerated for the namespace of every ELEMENT name with namespaces.load_prefix over one
     accumulating map (cause of finding C08-F1);
   * PushParser.register_namespace = `register_ns` (first declaration of a prefix wins).

   RecordParser records an event BEFORE handing it to NodeParser: the recorded list ends with
   the event on which the parser raised (`native_events`, `emitted`). *)
From Coq Require Import NArith ZArith List Bool.
From XV Require Import Base.Str Base.Eqb Base.PyInt Model.Bind Model.Parser.
From XV Require Model.ConvQName.
Import ListNotations.
Open Scope N_scope.

(* ---------------------------------------------------------------- prefix maps as dicts *)
(* dict.get *)
Fixpoint ns_get (k : option str) (m : nsmap) : option str :=
  match m with
  | [] => None
  | (k', v) :: r => if ostr_eqb k' k then Some v else ns_get k r
  end.
Definition ns_mem (k : option str) (m : nsmap) : bool :=
  match ns_get k m with Some _ => true | None => false end.
(* d[k] = v : an existing key keeps its position *)
Fixpoint ns_set (k : option str) (v : str) (m : nsmap) : nsmap :=
  match m with
  | [] => [(k, v)]
  | (k', v') :: r => if ostr_eqb k' k then (k', v) :: r else (k', v') :: ns_set k v r
  end.
(* for k, v in d.items(): m[k] = v *)
Definition ns_update (m d : nsmap) : nsmap := fold_left (fun acc kv => ns_set (fst kv) (snd kv) acc) d m.
(* PushParser.register_namespace: `if prefix not in ns_map: ns_map[prefix] = uri` *)
Definition register_ns (rec : nsmap) (p : option str) (u : str) : nsmap :=
  if ns_mem p rec then rec else rec ++ [(p, u)].

(* ---------------------------------------------------------------- documents *)
(* an element as the tokeniser hands it over: Clark names, own xmlns declarations in document
   order (prefix None = default namespace, uri [] = xmlns=""), attributes in document order,
   text before the first child, children, tail *)
Inductive xelem :=
| XE (q : qname) (decls : nsmap) (attrs : list (qname * str)) (text : option str)
     (kids : list xelem) (tail : option str).

Definition x_name (e : xelem) := let 'XE q _ _ _ _ _ := e in q.
Definition x_decls (e : xelem) := let 'XE _ d _ _ _ _ := e in d.
Definition x_kids (e : xelem) := let 'XE _ _ _ _ k _ := e in k.

(* the iterparse / iterwalk event order; `chain` = the declaration lists of the element and
   of its ancestors, innermost first (what libxml2 walks for element.nsmap) *)
Inductive tok :=
| TNs (p : option str) (u : str)
| TStart (q : qname) (attrs : list (qname * str)) (chain : list nsmap)
| TEnd (q : qname) (text tail : option str).

Fixpoint flatten (chain : list nsmap) (e : xelem) : list tok :=
  match e with
  | XE q d a t ks tl =>
      map (fun kv => TNs (fst kv) (snd kv)) d
      ++ TStart q a (d :: chain)
      :: flat_map (flatten (d :: chain)) ks
      ++ [TEnd q t tl]
  end.

Definition doc_tokens (e : xelem) : list tok := flatten [] e.

(* ---------------------------------------------------------------- lxml handler *)
(* _Element.nsmap: walk from the element to the root, every nsDef in order, a prefix already
   seen is not overwritten *)
Definition nsmap_add_new (acc d : nsmap) : nsmap :=
  fold_left (fun a kv => if ns_mem (fst kv) a then a else a ++ [kv]) d acc.
Definition lxml_nsmap (chain : list nsmap) : nsmap := fold_left nsmap_add_new chain [].

Definition lxml_event (t : tok) : pevent :=
  match t with
  | TNs p u => PStartNs p u
  | TStart q a chain => PStart q a (lxml_nsmap chain)
  | TEnd q t tl => PEnd q t tl
  end.
Definition lxml_pump (toks : list tok) : list pevent := map lxml_event toks.

(* ---------------------------------------------------------------- native handler *)
(* merge_parent_namespaces(element_ns_map): `aux` = the ns_map attributes of the queued nodes,
   top first *)
Definition merge_parent (aux : list nsmap) (elem_map : nsmap) : nsmap :=
  match aux with
  | parent :: _ => match elem_map with [] => parent | _ => ns_update parent elem_map end
  | [] => ns_update [] elem_map
  end.

(* the ns_map attribute of the node NodeParser.start pushed, given the map it was started with *)
Definition pushed_ns (queue_after : list node) (ns : nsmap) : nsmap :=
  match queue_after with
  | NSkip :: _ => []                       (* SkipNode.__init__: self.ns_map = {} *)
  | NUnion un :: _ => un_ns un             (* UnionNode.child returns self *)
  | _ => ns
  end.

Record nstate := mk_nstate {
  n_pending : nsmap;                       (* element_ns_map *)
  n_aux : list nsmap;                      (* queue[i].ns_map, top first *)
  n_ps : pstate;                           (* the parser (queue, objects, warnings) *)
  n_rec : nsmap;                           (* the recorder map given to parse(..., ns_map) *)
  n_out : list pevent                      (* events handed to the parser so far, latest first *)
}.
Definition native_init : nstate := mk_nstate [] [] init_state [] [].

Section Native.
  Variable cfg : pconfig.
  Variable c : conv.
  Variable u : universe.
  Variable replay : pconfig -> option cls -> list pevent -> outcome.
  Variable root : option cls.

  (* one iteration of process_context; inr = the exception that ends the loop, with the events
     recorded up to and including the failing one *)
  Definition native_step (s : nstate) (t : tok) : nstate + (errkind * list pevent) :=
    match t with
    | TNs p uri =>
        inl (mk_nstate (ns_set p uri (n_pending s)) (n_aux s) (n_ps s) (register_ns (n_rec s) p uri)
                       (PStartNs p uri :: n_out s))
    | TStart q attrs _ =>
        let ns := merge_parent (n_aux s) (n_pending s) in
        let out := PStart q attrs ns :: n_out s in
        match start cfg c u root (n_ps s) q attrs ns with
        | ROk ps' => inl (mk_nstate [] (pushed_ns (st_queue ps') ns :: n_aux s) ps' (n_rec s) out)
        | RErr k => inr (k, out)
        end
    | TEnd q text tail =>
        let out := PEnd q text tail :: n_out s in
        match pend cfg c replay (n_ps s) q text tail with
        | ROk ps' => inl (mk_nstate (n_pending s) (tl (n_aux s)) ps' (n_rec s) out)
        | RErr k => inr (k, out)
        end
    end.

  Fixpoint native_loop (s : nstate) (toks : list tok) : nstate + (errkind * list pevent) :=
    match toks with
    | [] => inl s
    | t :: r => match native_step s t with
                | inl s' => native_loop s' r
                | inr e => inr e
                end
    end.
End Native.

(* the events the native handler hands to the parser (what RecordParser records) *)
Definition native_events_n (n : nat) (cfg : pconfig) (c : conv) (u : universe) (root : option cls)
           (toks : list tok) : list pevent :=
  match native_loop cfg c u (replay_n n c u) root native_init toks with
  | inl s => rev (n_out s)
  | inr (_, out) => rev out
  end.
(* XmlParser(handler=XmlEventHandler).parse(...) *)
Definition native_parse_n (n : nat) (cfg : pconfig) (c : conv) (u : universe) (root : option cls)
           (toks : list tok) : outcome :=
  match native_loop cfg c u (replay_n n c u) root native_init toks with
  | inl s => finish (ROk (n_ps s))
  | inr (k, _) => Err k
  end.
(* the prefix recorder map after the run *)
Definition native_recorder_n (n : nat) (cfg : pconfig) (c : conv) (u : universe) (root : option cls)
           (toks : list tok) : option nsmap :=
  match native_loop cfg c u (replay_n n c u) root native_init toks with
  | inl s => Some (n_rec s)
  | inr _ => None
  end.

(* one token = one event: the fuel of the union replays is the number of tokens *)
Definition native_events cfg c u root (toks : list tok) := native_events_n (length toks) cfg c u root toks.
Definition native_parse cfg c u root (toks : list tok) := native_parse_n (length toks) cfg c u root toks.

(* the same loop against a parser whose nodes all keep the map they were started with (no
   SkipNode, no UnionNode): a pure function of the document, used to state the agreement of the
   two pumps for EVERY document (C08_pumps_agree_plain) *)
Fixpoint plain_loop (pending : nsmap) (stack : list nsmap) (toks : list tok) : list pevent :=
  match toks with
  | [] => []
  | TNs p uri :: r => PStartNs p uri :: plain_loop (ns_set p uri pending) stack r
  | TStart q attrs _ :: r =>
      let ns := merge_parent stack pending in
      PStart q attrs ns :: plain_loop [] (ns :: stack) r
  | TEnd q text tail :: r => PEnd q text tail :: plain_loop pending (tl stack) r
  end.
Definition native_pump_plain (toks : list tok) : list pevent := plain_loop [] [] toks.

(* ---------------------------------------------------------------- lxml handler, whole run *)
(* the events RecordParser holds when the parser raises in the middle: up to the failing one *)
Section Emitted.
  Variable cfg : pconfig.
  Variable c : conv.
  Variable u : universe.
  Variable replay : pconfig -> option cls -> list pevent -> outcome.
  Variable root : option cls.
  Fixpoint emitted (st : pstate) (evs : list pevent) : list pevent :=
    match evs with
    | [] => []
    | ev :: r => ev :: match step cfg c u replay root st ev with
                       | ROk st' => emitted st' r
                       | RErr _ => []
                       end
    end.
End Emitted.

Definition lxml_events cfg c u root (toks : list tok) : list pevent :=
  let evs := lxml_pump toks in
  emitted cfg c u (replay_n (length evs) c u) root init_state evs.
Definition lxml_parse cfg c u root (toks : list tok) : outcome := parse cfg c u root (lxml_pump toks).

Fixpoint recorder_of (rec : nsmap) (evs : list pevent) : nsmap :=
  match evs with
  | [] => rec
  | PStartNs p uri :: r => recorder_of (register_ns rec p uri) r
  | _ :: r => recorder_of rec r
  end.

(* ---------------------------------------------------------------- ElementTree sources *)
(* handlers/native.py iterwalk(element, ns_map): xml.etree keeps no prefixes; one is regenerated
   for the namespace of every element NAME (not for attribute names, not for QName content) *)
Fixpoint et_flatten (m : nsmap) (e : xelem) {struct e} : list tok * nsmap :=
  match e with
  | XE q _ a t ks tl =>
      let '(pre, m1) :=
        match target_uri q with
        | Some uri => let '(p, m') := ConvQName.load_prefix uri m in
                      ([TNs (match p with Some [] => None | _ => p end) uri], m')
        | None => ([], m)
        end in
      let '(mid, m2) :=
        (fix go (ks : list xelem) (m : nsmap) : list tok * nsmap :=
           match ks with
           | [] => ([], m)
           | k :: r => let '(a1, ma) := et_flatten m k in
                       let '(a2, mb) := go r ma in (a1 ++ a2, mb)
           end) ks m1 in
      (pre ++ TStart q a [] :: mid ++ [TEnd q t tl], m2)
  end.
Definition et_tokens (e : xelem) : list tok := fst (et_flatten [] e).

(* ---------------------------------------------------------------- lookup-equivalence *)
(* how the parser and the converters read a prefix map: `ns_map.get(prefix)` for a prefix taken
   from a lexical QName; the default namespace (key None) only through its truth value
   (`{None: ""}` = xmlns="" reads like an absent key) *)
Definition norm_uri (o : option str) : option str :=
  match o with Some [] => None | _ => o end.
Definition ns_read (k : option str) (m : nsmap) : option str :=
  match k with
  | None => norm_uri (ns_get None m)
  | Some _ => ns_get k m
  end.
Definition ns_equiv (a b : nsmap) : Prop := forall k, ns_read k a = ns_read k b.

(* computable on the prefixes that occur in either map *)
Definition ns_equivb (a b : nsmap) : bool :=
  forallb (fun k => opt_eqb str_eqb (ns_read k a) (ns_read k b)) (None :: map fst a ++ map fst b).

Definition pevent_equiv (x y : pevent) : Prop :=
  match x, y with
  | PStart q a ns, PStart q' a' ns' => q = q' /\ a = a' /\ ns_equiv ns ns'
  | PEnd q t tl, PEnd q' t' tl' => q = q' /\ t = t' /\ tl = tl'
  | PStartNs p uri, PStartNs p' uri' => p = p' /\ uri = uri'
  | _, _ => False
  end.
