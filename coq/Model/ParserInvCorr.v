(* Model/ParserInvCorr.v — predicates evaluated by the generated case files of harness/c09.py:
   the hypotheses of the C09 theorems computed on pairs of REAL recorded event streams (document,
   rewritten document), and the comparison of the two observed outcomes.  No proofs here. *)
From Coq Require Import NArith ZArith List Bool.
From XV Require Import Base.Str Base.Eqb Base.PyInt Model.Bind Model.Parser Model.ParserCorr Model.Reader Model.ReaderCorr.
Import ListNotations.

Definition c09_case := (pconfig * conv_table * universe * option cls * list pevent * list pevent * outcome * outcome)%type.

(* warnings as multisets of the converter warnings (attribute order decides their order) *)
Fixpoint remove_first (w : warning) (l : list warning) : option (list warning) :=
  match l with
  | [] => None
  | x :: r => if warning_eqb w x then Some r
              else match remove_first w r with Some r' => Some (x :: r') | None => None end
  end.
Fixpoint warnings_permb (a b : list warning) : bool :=
  match a with
  | [] => match b with [] => true | _ => false end
  | w :: r => match remove_first w b with Some b' => warnings_permb r b' | None => false end
  end.

Definition obs_same (x : c09_case) : bool :=
  let '(_, _, u, _, _, _, o1, o2) := x in out_eqb u o1 o2.
(* the model on both streams agrees with what was observed (correspondence on these streams) *)
Definition model_agrees (x : c09_case) : bool :=
  let '(cfg, t, u, root, e1, e2, o1, o2) := x in
  out_eqb u (parse cfg (conv_of_table t) u root e1) o1 && out_eqb u (parse cfg (conv_of_table t) u root e2) o2.
Definition model_same (x : c09_case) : bool :=
  let '(cfg, t, u, root, e1, e2, _, _) := x in
  out_eqb u (parse cfg (conv_of_table t) u root e1) (parse cfg (conv_of_table t) u root e2).

(* start-ns events only feed the prefix recorder: the parser ignores them *)
Definition is_ns_event (ev : pevent) : bool := match ev with PStartNs _ _ => true | _ => false end.
Definition strip_ns (evs : list pevent) : list pevent := filter (fun ev => negb (is_ns_event ev)) evs.

(* (b1): same events up to lookup-equivalent maps *)
Definition maps_guard (x : c09_case) : bool :=
  let '(_, _, _, _, e1, e2, _, _) := x in forallb2_pe (strip_ns e1) (strip_ns e2).

(* (a): same events up to a permutation of each attribute list (names unique) *)
Fixpoint remove_attr (k : qname) (l : list (qname * str)) : option (str * list (qname * str)) :=
  match l with
  | [] => None
  | (k', v) :: r => if str_eqb k k' then Some (v, r)
                    else match remove_attr k r with Some (w, r') => Some (w, (k', v) :: r') | None => None end
  end.
Fixpoint attrs_permb (a b : list (qname * str)) : bool :=
  match a with
  | [] => match b with [] => true | _ => false end
  | (k, v) :: r => match remove_attr k b with Some (w, b') => str_eqb v w && attrs_permb r b' | None => false end
  end.
Fixpoint keys_nodupb (a : list (qname * str)) : bool :=
  match a with [] => true | (k, _) :: r => negb (existsb (fun kv => str_eqb k (fst kv)) r) && keys_nodupb r end.
Definition ev_permb (x y : pevent) : bool :=
  match x, y with
  | PStart q a ns, PStart q' a' ns' => str_eqb q q' && attrs_permb a a' && keys_nodupb a && ns_equivb ns ns'
  | _, _ => pevent_eqb x y
  end.
Fixpoint forallb2 {A} (f : A -> A -> bool) (a b : list A) : bool :=
  match a, b with
  | [], [] => true
  | x :: a', y :: b' => f x y && forallb2 f a' b'
  | _, _ => false
  end.
Definition perm_guard (x : c09_case) : bool :=
  let '(_, _, _, _, e1, e2, _, _) := x in forallb2 ev_permb (strip_ns e1) (strip_ns e2).
