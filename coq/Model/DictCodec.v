(* Model/DictCodec.v — executable model of DictEncoder (serializers/dict.py) and
   DictDecoder (parsers/dict.py) with the ParserUtils.parse_var / parse_value pieces they
   use (parsers/utils.py) and ClassType.score_object (compat.py).  No proofs here.

     encode  gen cfg c u v          : gres jvalue          DictEncoder(dict_factory=...).encode(obj)
     decode  gen c u cls is_list j  : gres value           DictDecoder().decode(data, clazz)

   Modelling decisions
   * a dictionary is an association list in insertion order with Python's update rule
     (a repeated key keeps its first position and takes the last value); JSON text <-> this
     tree is json.dump / json.load (trusted, sampled by the check's oracle);
   * numbers keep the int / float distinction Python's json module makes; floats travel as
     their repr (json.dumps uses float.__repr__);
   * the generic dataclasses AnyElement / DerivedElement are binding models of their own:
     their REAL metadata is part of the universe (class ids `g_any`, `g_derived`), exported
     like any other class;
   * every dataclass field has a default (vdefault DNone = `default=None`): the TypeError
     of a missing required constructor argument is not modelled;
   * DictDecoder.detect_type (clazz=None), ParserConfig other than the defaults
     (fail_on_unknown_properties=True, fail_on_converter_warnings=False, class_factory)
     and `init=False` fields are not modelled (`Err EUnmodelled`);
   * bind_best_dataclass iterates over a Python `set` of classes: when two candidates reach
     the same best score the winner depends on hash order — `Err EAmbiguous`. *)
From Coq Require Import NArith ZArith List Bool.
From XV Require Import Base.Str Base.Eqb Base.PyInt Model.Bind Model.EventGen.
Import ListNotations.
Open Scope N_scope.

(* ---------------------------------------------------------------- JSON-like values *)
Inductive jvalue :=
| JNull
| JBool (b : bool)
| JInt (z : Z)
| JFloat (repr : str)
| JStr (s : str)
| JList (is_tuple : bool) (l : list jvalue)
| JDict (m : list (str * jvalue)).

Fixpoint jvalue_eqb (a b : jvalue) {struct a} : bool :=
  let fix jl (x y : list jvalue) : bool :=
    match x, y with
    | [], [] => true
    | p :: x', q :: y' => jvalue_eqb p q && jl x' y'
    | _, _ => false
    end in
  let fix jd (x y : list (str * jvalue)) : bool :=
    match x, y with
    | [], [] => true
    | (k, p) :: x', (k', q) :: y' => str_eqb k k' && jvalue_eqb p q && jd x' y'
    | _, _ => false
    end in
  match a, b with
  | JNull, JNull => true
  | JBool x, JBool y => Bool.eqb x y
  | JInt x, JInt y => Z.eqb x y
  | JFloat x, JFloat y => str_eqb x y
  | JStr x, JStr y => str_eqb x y
  | JList t x, JList t' y => Bool.eqb t t' && jl x y
  | JDict x, JDict y => jd x y
  | _, _ => false
  end.

(* dict(pairs): a repeated key keeps its first position and takes the last value *)
Fixpoint dict_set {A} (k : str) (v : A) (l : list (str * A)) : list (str * A) :=
  match l with
  | [] => [(k, v)]
  | (k', v') :: r => if str_eqb k k' then (k, v) :: r else (k', v') :: dict_set k v r
  end.
Definition dict_of {A} (pairs : list (str * A)) : list (str * A) :=
  fold_left (fun acc kv => dict_set (fst kv) (snd kv) acc) pairs [].

Record generics := mk_generics { g_any : cls; g_derived : cls }.

(* ---------------------------------------------------------------- shared helpers *)
(* XmlVar.wrapper, recovered from wrapper_qname = build_qname(ns, wrapper) *)
Definition v_wrapper (v : xvar) : option str :=
  match v_wrapper_qname v with
  | Some q => match local_name q with [] => None | w => Some w end
  | None => None
  end.

(* the generic dataclasses seen as instances of their own classes *)
Definition ostr_value (o : option str) : value := match o with Some s => VP (PStr s) | None => VNone end.
Definition Q_QNAME : str := [113;110;97;109;101].
Definition Q_TEXT : str := [116;101;120;116].
Definition Q_TAIL : str := [116;97;105;108].
Definition Q_CHILDREN : str := [99;104;105;108;100;114;101;110].
Definition Q_ATTRIBUTES : str := [97;116;116;114;105;98;117;116;101;115].
Definition Q_VALUE : str := [118;97;108;117;101].
Definition Q_TYPE : str := [116;121;112;101].

Definition as_object (g : generics) (v : value) : option (cls * list (str * value)) :=
  match v with
  | VObj c fs => Some (c, fs)
  | VAny q text tail attrs children =>
      Some (g_any g, [(Q_QNAME, ostr_value q); (Q_TEXT, ostr_value text); (Q_TAIL, ostr_value tail);
                      (Q_CHILDREN, VList false children); (Q_ATTRIBUTES, VMap attrs)])
  | VDerived q x ty =>
      Some (g_derived g, [(Q_QNAME, VP (PStr q)); (Q_VALUE, x); (Q_TYPE, ostr_value ty)])
  | _ => None
  end.

(* ================================================================ DictEncoder *)
Inductive dict_factory := FDict | FFilterNone.

Definition apply_factory (f : dict_factory) (pairs : list (str * jvalue)) : jvalue :=
  match f with
  | FDict => JDict (dict_of pairs)
  | FFilterNone => JDict (dict_of (filter (fun kv => match snd kv with JNull => false | _ => true end) pairs))
  end.

(* the leaf cases of DictEncoder.encode *)
Definition encode_leaf (c : conv) (u : universe) (fmt : option str) (p : prim) : gres jvalue :=
  let leaf := fun p => match p with
                       | PInt z => JInt z
                       | PBool b => JBool b
                       | PFloat r => JFloat r
                       | PStr s => JStr s
                       | _ => JStr (c_ser c fmt p)
                       end in
  match p with
  | PEnum e m => match enum_value u e m with Some x => Ok (leaf x) | None => Err EUnmodelled end
  | _ => Ok (leaf p)
  end.

Inductive ecall :=
| EEncode (v : value) (var : option xvar) (wrapped : bool)
| ENextValue (v : value).

Fixpoint erun (g : generics) (fac : dict_factory) (ign : bool) (c : conv) (u : universe) (fuel : nat) (k : ecall)
  {struct fuel} : gres jvalue :=
  match fuel with
  | O => Err EFuel
  | S f =>
      let rec := erun g fac ign c u f in
      match k with
      | EEncode v var wrapped =>
          match v with
          | VNone => Ok JNull
          | _ =>
              match var with
              | None =>
                  match v with
                  | VList _ l => js <- mapM (fun x => rec (EEncode x None false)) l ;; Ok (JList false js)
                  | _ => rec (ENextValue v)
                  end
              | Some var =>
                  match v_wrapper var, wrapped with
                  | Some _, false =>
                      j <- rec (EEncode v (Some var) true) ;; Ok (apply_factory fac [(v_local_name var, j)])
                  | _, _ =>
                      if is_model v then rec (ENextValue v)
                      else
                        match v with
                        | VList t l => js <- mapM (fun x => rec (EEncode x (Some var) wrapped)) l ;; Ok (JList t js)
                        | VMap m => Ok (JDict (map (fun kv => (fst kv, JStr (snd kv))) m))
                        | VP p => encode_leaf c u (v_format var) p
                        | _ => Err EUnmodelled
                        end
                  end
              end
          end
      | ENextValue v =>
          match as_object g v with
          | None => Err EContext                           (* context.build(obj.__class__) of a non model *)
          | Some (cl, fs) =>
              match u_meta u cl with
              | None => Err EUnmodelled
              | Some meta =>
                  pairs <- concatM (fun var =>
                      x <- getattr (VObj cl fs) (v_name var) ;;
                      skip <- (if v_is KAttribute var && ign then var_is_optional var x else Ok false) ;;
                      if skip then Ok []
                      else j <- rec (EEncode x (Some var) false) ;;
                           Ok [(match v_wrapper var with Some w => w | None => v_local_name var end, j)])
                    (get_all_vars meta) ;;
                  Ok (apply_factory fac pairs)
              end
          end
      end
  end.

Definition encode_fuel (v : value) : nat := 6 * S (vdepth v).

Definition encode (g : generics) (fac : dict_factory) (ign : bool) (c : conv) (u : universe) (v : value) : gres jvalue :=
  erun g fac ign c u (encode_fuel v) (EEncode v None false).

(* ================================================================ DictDecoder *)
Fixpoint jdepth (j : jvalue) : nat :=
  let fix dl (l : list jvalue) : nat := match l with [] => O | x :: r => Nat.max (jdepth x) (dl r) end in
  let fix dd (l : list (str * jvalue)) : nat := match l with [] => O | (_, x) :: r => Nat.max (jdepth x) (dd r) end in
  match j with
  | JList _ l => S (dl l)
  | JDict m => S (dd m)
  | _ => O
  end.

Definition j_is_array (j : jvalue) : bool := match j with JList _ _ => true | _ => false end.
Definition j_is_dict (j : jvalue) : bool := match j with JDict _ => true | _ => false end.

(* a JSON value as the Python object the decoder sees (dicts only matter as "not a primitive") *)
Fixpoint jv_to_value (j : jvalue) : value :=
  match j with
  | JNull => VNone
  | JBool b => VP (PBool b)
  | JInt z => VP (PInt z)
  | JFloat r => VP (PFloat r)
  | JStr s => VP (PStr s)
  | JList t l => VList t (map jv_to_value l)
  | JDict _ => VMap []
  end.

(* set(keys) == {...} *)
Definition keys_are (m : list (str * jvalue)) (ks : list str) : bool :=
  forallb (fun k => existsb (str_eqb k) ks) (map fst m)
  && forallb (fun k => existsb (fun kv => str_eqb (fst kv) k) m) ks.
Definition ANY_KEYS : list str := [Q_QNAME; Q_TEXT; Q_TAIL; Q_CHILDREN; Q_ATTRIBUTES].
Definition DERIVED_KEYS : list str := [Q_QNAME; Q_VALUE; Q_TYPE].

(* DictDecoder.find_var *)
Definition find_var (vars : list xvar) (key : str) (j : jvalue) : option xvar :=
  find (fun var =>
          let var_is_list := v_list_element var || v_tokens var in
          match v_wrapper var with
          | None => str_eqb (v_local_name var) key && Bool.eqb (j_is_array j) var_is_list
          | Some w =>
              (* a wrapped field is matched through its wrapper key only *)
              str_eqb w key
              && match j with
                 | JDict m => match assoc (v_local_name var) m with
                              | Some val => Bool.eqb (j_is_array val) var_is_list
                              | None => false
                              end
                 | _ => false
                 end
          end) vars.

(* converter.serialize(value) of a JSON value (no format) *)
Fixpoint j_serialize (c : conv) (j : jvalue) {struct j} : gres (option str) :=
  let fix parts (l : list jvalue) : gres (list str) :=
    match l with
    | [] => Ok []
    | x :: r =>
        o <- j_serialize c x ;;
        match o with
        | Some s => ps <- parts r ;; Ok (s :: ps)
        | None => Err EType                                  (* " ".join of a None *)
        end
    end in
  match j with
  | JNull => Ok None
  | JStr s => Ok (Some s)
  | JBool b => Ok (Some (c_ser c None (PBool b)))
  | JInt z => Ok (Some (c_ser c None (PInt z)))
  | JFloat r => Ok (Some (c_ser c None (PFloat r)))
  | JList false l => ps <- parts l ;; Ok (Some (join [32] ps))
  | JList true _ => Err EConverter      (* converter.serialize(tuple): "No converter registered for `tuple`" *)
  | JDict _ => Err EUnmodelled
  end.

Definition default_value (var : xvar) : value :=
  match v_default var with
  | DNone => VNone
  | DValue v => v
  | DFactoryList => VList false []
  | DFactoryTuple => VList true []
  | DFactoryDict => VMap []
  end.

Definition factory_tuple (f : factory) : bool := match f with FTuple => true | FList => false end.

(* ParserUtils.parse_var / parse_value after converter.serialize; strict = fail_on_converter_warnings *)
Definition parse_var (c : conv) (strict : bool) (var : xvar) (text : option str) : gres value :=
  match text with
  | None =>
      (* default: a factory is only called for token fields *)
      match v_default var with
      | DNone => Ok VNone
      | DValue v => Ok v
      | _ => match v_tokens_factory var with Some _ => Ok (default_value var) | None => Ok VNone end
      end
  | Some s =>
      let failed := if strict then Err EParser else Ok (VP (PStr s)) in     (* warning: the raw text stays *)
      match v_tokens_factory var with
      | Some tf =>
          let toks := map (fun t => c_deser c (v_types var) (v_format var) [] t) (split_ws py_isspace s) in
          if forallb (fun o => match o with Some _ => true | None => false end) toks
          then Ok (VList (factory_tuple tf) (flat_map (fun o => match o with Some p => [VP p] | None => [] end) toks))
          else failed
      | None =>
          match c_deser c (v_types var) (v_format var) [] s with
          | Some p => Ok (VP p)
          | None => failed
          end
      end
  end.

(* ClassType.score_object in halves: str 2, other non-None 3 *)
Definition score_value (v : value) : N :=
  match v with VNone => 0 | VP (PStr _) => 2 | _ => 3 end.
Definition score_object (v : value) : option N :=       (* None = -1.0 *)
  match v with
  | VObj _ fs => Some (fold_left (fun acc kv => acc + score_value (snd kv)) fs 0)
  | VAny q t tl at_ ch =>
      Some (score_value (ostr_value q) + score_value (ostr_value t) + score_value (ostr_value tl) + 3 + 3)
  | VDerived _ x ty => Some (2 + score_value x + score_value (ostr_value ty))
  | _ => None
  end.

(* all model classes below c (XmlContext.get_subclasses) *)
Definition subclasses_of (u : universe) (c : cls) : list cls :=
  map fst (filter (fun cm => negb (N.eqb (fst cm) c) && existsb (N.eqb c) (snd cm)) (u_mro u)).

Definition class_types (ts : list ptype) : list cls :=
  flat_map (fun t => match t with TClass c => [c] | _ => [] end) ts.

Fixpoint dedupN (l : list N) : list N :=
  match l with [] => [] | x :: r => x :: filter (fun y => negb (N.eqb x y)) (dedupN r) end.

(* XmlContext.local_names_match(keys, clazz) *)
Definition local_names_match (u : universe) (keys : list str) (c : cls) : bool :=
  match u_meta u c with
  | Some meta => forallb (fun k => existsb (fun var => str_eqb (match v_wrapper var with Some w => w | None => v_local_name var end) k)
                                           (get_all_vars meta)) keys
  | None => false
  end.

Inductive dcall :=
| DBindDataclass (data : jvalue) (c : cls)
| DBindValue (meta : xmeta) (var : xvar) (j : jvalue) (recursive : bool)
| DBindText (meta : xmeta) (var : xvar) (j : jvalue)
| DBindComplex (meta : xmeta) (var : xvar) (data : jvalue)
| DBindBest (data : jvalue) (classes : list cls)
| DBindDerivedValue (meta : xmeta) (var : xvar) (data : jvalue).

Definition meta_element_types (meta : xmeta) : list cls :=
  dedupN (class_types (flat_map (fun qv => flat_map v_types (snd qv)) (m_elements meta))).

Definition jstr_opt (j : jvalue) : gres (option str) :=
  match j with JNull => Ok None | JStr s => Ok (Some s) | _ => Err EUnmodelled end.

(* the constructor call clazz( **params ) for the generic classes and for models *)
Definition construct (g : generics) (cl : cls) (meta : xmeta) (params : list (str * value)) : gres value :=
  let get := fun var => match assoc (v_name var) params with Some v => v | None => default_value var end in
  let fields := map (fun var => (v_name var, get var)) (get_all_vars meta) in
  let fld := fun n => match assoc n fields with Some v => v | None => VNone end in
  let ostr := fun v => match v with VNone => Ok None | VP (PStr s) => Ok (Some s) | _ => Err EUnmodelled end in
  if N.eqb cl (g_any g) then
    q <- ostr (fld Q_QNAME) ;; t <- ostr (fld Q_TEXT) ;; tl <- ostr (fld Q_TAIL) ;;
    match fld Q_CHILDREN, fld Q_ATTRIBUTES with
    | VList _ ch, VMap at_ => Ok (VAny q t tl at_ ch)
    | _, _ => Err EUnmodelled
    end
  else if N.eqb cl (g_derived g) then
    ty <- ostr (fld Q_TYPE) ;;
    match fld Q_QNAME with
    | VP (PStr q) => Ok (VDerived q (fld Q_VALUE) ty)
    | _ => Err EUnmodelled
    end
  else Ok (VObj cl fields).

(* the `for key, value in data.items()` loop of bind_dataclass; `rec` = the decoder one call deeper *)
Fixpoint bind_params (rec : dcall -> gres value) (meta : xmeta) (vars : list xvar)
         (items : list (str * jvalue)) (acc : list (str * value)) {struct items} : gres (list (str * value)) :=
  match items with
  | [] => Ok acc
  | (key, j) :: r =>
      match find_var vars key j with
      | None => Err EParser              (* fail_on_unknown_properties *)
      | Some var =>
          if negb (v_init var) then Err EUnmodelled else
          j' <- (match v_wrapper var with
                 | Some _ => match j with
                             | JDict m' => match assoc (v_local_name var) m' with Some x => Ok x | None => Err EKey end
                             | _ => Err EType
                             end
                 | None => Ok j
                 end) ;;
          v <- rec (DBindValue meta var j' false) ;;
          bind_params rec meta vars r (dict_set (v_name var) v acc)
      end
  end.

Fixpoint drun (g : generics) (c : conv) (u : universe) (strict : bool) (fuel : nat) (k : dcall)
  {struct fuel} : gres value :=
  match fuel with
  | O => Err EFuel
  | S f =>
      let rec := drun g c u strict f in
      match k with
      (* ---- bind_dataclass(data, clazz) *)
      | DBindDataclass data cl =>
          match data with
          | JDict m =>
              if keys_are m DERIVED_KEYS then
                (* bind_derived_dataclass *)
                match assoc Q_QNAME m, assoc Q_TYPE m, assoc Q_VALUE m with
                | Some jq, Some jt, Some params =>
                    ty <- jstr_opt jt ;;
                    q <- (match jq with JStr q => Ok q | _ => Err EUnmodelled end) ;;
                    v <- (if N.eqb cl (g_derived g) then
                            match ty with
                            | Some ((_ :: _) as t) =>
                                match (match c_from_qname c t with Some _ => None | None => find_type u t end) with
                                | Some real => rec (DBindDataclass params real)
                                | None => Err EParser
                                end
                            | _ => Err EParser
                            end
                          else rec (DBindDataclass params cl)) ;;
                    Ok (VDerived q v ty)
                | _, _, _ => Err EKey
                end
              else
                match u_meta u cl with
                | None => Err EUnmodelled
                | Some meta =>
                    let vars := get_all_vars meta in
                    params <- bind_params rec meta vars m [] ;;
                    construct g cl meta params
                end
          | _ => Err EParser                                  (* not an object *)
          end
      (* ---- bind_value(meta, var, value, recursive) *)
      | DBindValue meta var j recursive =>
          if v_is KAttributes var then
            match j with
            | JDict m =>
                kv <- mapM (fun e => match snd e with JStr s => Ok (fst e, s) | _ => Err EUnmodelled end) m ;;
                Ok (VMap kv)
            | _ => Err EParser                               (* expected object *)
            end
          else if negb recursive && v_list_element var && (match j with JList _ _ => true | _ => false end) then
            match j, v_factory var with
            | JList _ l, Some fa => vs <- mapM (fun x => rec (DBindValue meta var x true)) l ;; Ok (VList (factory_tuple fa) vs)
            | _, _ => Err EUnmodelled
            end
          else
            match j with
            | JDict m =>
                if keys_are m ANY_KEYS then rec (DBindDataclass j (g_any g))
                else if keys_are m DERIVED_KEYS then rec (DBindDerivedValue meta var j)
                else rec (DBindComplex meta var j)
            | _ => rec (DBindText meta var j)
            end
      (* ---- bind_text(meta, var, value) *)
      | DBindText meta var j =>
          if v_is KElements var then
            ch <- find_value_choice c u var (jv_to_value j) false ;;
            match ch with
            | Some choice => rec (DBindText meta choice j)
            | None => match j with JNull => Ok VNone | _ => Err EParser end
            end
          else if v_any_type var || v_is KWildcard var then
            match j with
            | JDict _ => Err EUnmodelled
            | _ => Ok (jv_to_value j)
            end
          else if (match j with
                   | JList _ l => existsb (fun x => match x with JNull => true | _ => false end) l
                   | _ => false
                   end) then Err EParser                       (* null inside a tokens list *)
          else
            (* a token tuple (in-memory dictionary of an immutable model) is read like a token list *)
            s <- j_serialize c (match j with JList true l => JList false l | _ => j end) ;;
            parse_var c strict var s
      (* ---- bind_complex_type(meta, var, data) *)
      | DBindComplex meta var data =>
          if v_is_clazz_union var then rec (DBindBest data (class_types (v_types var)))
          else if nonempty (v_elements var) then
            rec (DBindBest data (dedupN (class_types (flat_map (fun qe => v_types (snd qe)) (v_elements var)))))
          else if v_any_type var || v_is KWildcard var then rec (DBindBest data (meta_element_types meta))
          else
            match v_clazz var with
            | None => Err EParser                               (* an object where a primitive is expected *)
            | Some cl =>
                match subclasses_of u cl with
                | [] => rec (DBindDataclass data cl)
                | subs => rec (DBindBest data (subs ++ [cl]))
                end
            end
      (* ---- bind_best_dataclass(data, classes): a fresh decoder with fail_on_converter_warnings *)
      | DBindBest data classes =>
          match data with
          | JDict m =>
              let keys := map fst m in
              let scored := flat_map (fun cl =>
                  if local_names_match u keys cl then
                    match drun g c u true f (DBindDataclass data cl) with
                    | Ok cand => match score_object cand with Some s => [(cand, s)] | None => [] end
                    | Err EFuel => [(VNone, 1000000)]             (* poison: reported below *)
                    | Err EAmbiguous => [(VNone, 1000001)]        (* a nested tie: the candidate itself is not determined *)
                    | Err _ => []                                   (* suppress(Exception) *)
                    end
                  else []) classes in
              if existsb (fun cs => N.eqb (snd cs) 1000000) scored then Err EFuel else
              if existsb (fun cs => N.eqb (snd cs) 1000001) scored then Err EAmbiguous else
              let best := fold_left (fun acc cs => N.max acc (snd cs)) scored 0 in
              match filter (fun cs => N.eqb (snd cs) best) scored with
              | [] => Err EParser
              | [(cand, _)] => Ok cand
              | (cand, _) :: others =>
                  (* equal best scores: the first of a SET iteration wins *)
                  if forallb (fun cs => value_eqb (fst cs) cand) others then Ok cand else Err EAmbiguous
              end
          | _ => Err EAttribute
          end
      (* ---- bind_derived_value(meta, var, data) *)
      | DBindDerivedValue meta var data =>
          match data with
          | JDict m =>
              match assoc Q_QNAME m, assoc Q_TYPE m, assoc Q_VALUE m with
              | Some jq, Some jt, Some params =>
                  ty <- jstr_opt jt ;;
                  q <- (match jq with JStr q => Ok q | _ => Err EUnmodelled end) ;;
                  if nonempty (v_elements var) then
                    match find_choice var q with
                    | None => Err EParser
                    | Some choice => rec (DBindDerivedValue meta choice data)
                    end
                  else
                    v <- (if negb (j_is_dict params) then rec (DBindText meta var params)
                          else match ty with
                               | Some ((_ :: _) as t) =>
                                   match (match c_from_qname c t with Some _ => None | None => find_type u t end) with
                                   | Some cl => rec (DBindDataclass params cl)
                                   | None => Err EParser
                                   end
                               | _ =>
                                   match v_clazz var with
                                   | Some _ => rec (DBindComplex meta var params)
                                   | None => rec (DBindBest params (meta_element_types meta))
                                   end
                               end) ;;
                    Ok (VDerived q v ty)
              | _, _, _ => Err EKey
              end
          | _ => Err EUnmodelled
          end
      end
  end.

Definition decode_fuel (j : jvalue) : nat := 8 * S (jdepth j).

(* decode(data, clazz) with clazz a model class (is_list = false) or list[model] (is_list = true) *)
Definition decode (g : generics) (c : conv) (u : universe) (cl : cls) (is_list : bool) (j : jvalue) : gres value :=
  match j, is_list with
  | JList _ l, true => vs <- mapM (fun x => drun g c u false (decode_fuel j) (DBindDataclass x cl)) l ;; Ok (VList false vs)
  | JList _ _, false => Err EParser                       (* Document is array, expected object *)
  | _, true => Err EParser                                (* Document is object, expected array *)
  | _, false => drun g c u false (decode_fuel j) (DBindDataclass j cl)
  end.

(* ---------------------------------------------------------------- what the property speaks about *)
(* absent keys decode to the field defaults (the None-filtering factory) *)
Fixpoint fill_defaults (g : generics) (u : universe) (fuel : nat) (v : value) {struct fuel} : value :=
  match fuel with
  | O => v
  | S f =>
      match v with
      | VObj cl fs =>
          match u_meta u cl with
          | Some meta =>
              VObj cl (map (fun kv =>
                 match snd kv with
                 | VNone => (fst kv, match find (fun var => str_eqb (v_name var) (fst kv)) (get_all_vars meta) with
                                     | Some var => match v_default var with DValue d => d | _ => VNone end
                                     | None => VNone
                                     end)
                 | x => (fst kv, fill_defaults g u f x)
                 end) fs)
          | None => v
          end
      | VList t l => VList t (map (fill_defaults g u f) l)
      | VDerived q x ty => VDerived q (fill_defaults g u f x) ty
      | _ => v
      end
  end.

Fixpoint json_native (j : jvalue) : bool :=
  let fix jl (l : list jvalue) : bool := match l with [] => true | x :: r => json_native x && jl r end in
  let fix jd (l : list (str * jvalue)) : bool := match l with [] => true | (_, x) :: r => json_native x && jd r end in
  match j with
  | JList _ l => jl l
  | JDict m => jd m
  | _ => true
  end.
