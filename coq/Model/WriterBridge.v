(* Model/WriterBridge.v — from the shared binding model's writer events (Model/Bind.v,
   produced by Model/EventGen.v) to the event type of Spec/XmlNs.v consumed by
   Model/Writer.v, so that  sink (run m (map (of_wevent c) evs))  composes.

   * qualified names: Clark strings are split with Bind.split_qname (= the writer's
     split_qname; `split_qname_agree` in Proofs/WriterBridge is not needed: the same text
     is split by the same algorithm, see Model/Writer.v split_qname);
   * values: str stays text, QName stays a QName (rendered by the writer with an in-scope
     prefix), every other primitive is what EventHandler.encode_data makes of it:
     converter.serialize(value) without format;
   * lists are flattened; an empty inner list contributes the empty token (" ".join of
     nested lists gives the same text).  `None` inside a list makes the real
     converter raise TypeError; it is mapped to the empty token here (EventGenerator
     never produces it: encode_primitive maps every item of a list). *)
From Coq Require Import NArith List Bool.
From XV Require Import Base.Str Spec.XmlNs Model.Bind.
Import ListNotations.

Definition of_qname (q : Bind.qname) : XmlNs.qname := Bind.split_qname q.

Definition of_prim (c : conv) (p : prim) : atom :=
  match p with
  | PStr s => AText s
  | PQName s => AQName (Bind.split_qname s)
  | _ => AText (c_ser c None p)
  end.

Fixpoint flat_wval (c : conv) (v : wval) : list atom :=
  match v with
  | WNone => [AText []]
  | WP p => [of_prim c p]
  | WL [] => [AText []]
  | WL l => (fix go (l : list wval) : list atom :=
               match l with [] => [] | x :: r => flat_wval c x ++ go r end) l
  end.

Definition of_wval (c : conv) (v : wval) : wvalue :=
  match v with
  | WNone => XmlNs.VNone
  | WP p => XmlNs.VAtom (of_prim c p)
  | WL l => XmlNs.VList ((fix go (l : list wval) : list atom :=
                      match l with [] => [] | x :: r => flat_wval c x ++ go r end) l)
  end.

Definition of_wevent (c : conv) (e : Bind.wevent) : XmlNs.wevent :=
  match e with
  | Bind.WStart q => XmlNs.WStart (of_qname q)
  | Bind.WAttr q v => XmlNs.WAttr (of_qname q) (of_wval c v)
  | Bind.WData v => XmlNs.WData (of_wval c v)
  | Bind.WEnd q => XmlNs.WEnd (of_qname q)
  end.
