(* Model/Parser.v — executable model of the PARSER half of xsdata's data binding:
   NodeParser.start / NodeParser.end (xsdata/formats/dataclass/parsers/bases.py) over a
   node stack and the `objects` list, the node classes of parsers/nodes/*.py, and
   ParserUtils (parsers/utils.py).  Consumes the `pevent` stream of Model/Bind.v, i.e.
   exactly what the XML handlers (native / lxml / EventsHandler) feed the parser.

   No proofs here.  Faithful, including the defects: Python exceptions that the code
   does not catch are first-class outcomes (`PyTypeError`, `PyIndexError`, ...).

   Interface (kept small for the composition with EventGen.v in C01):

     parse (cfg : pconfig) (c : conv) (u : universe) (root : option cls)
           (evs : list pevent) : outcome

   = NodeParser(config=cfg, context=ctx, handler=EventsHandler).parse(evs, root)
   where `u` mirrors ctx's metadata (Bind.v) and `c` is the primitive converter.

   Modelling decisions
   * the queue holds values, not shared objects: a WrapperNode finds its parent
     ElementNode directly below itself (always the case, the queue is a stack);
     SkipNode.child returns `self` -> another NSkip; UnionNode.child returns `self`
     -> ONE stack entry with the `level` counter (it stands for level+1 references);
   * `cls( **params)` (config.default_class_factory) needs to know which init fields
     have no default — XmlVar does not record it (`default is None` both for
     `default=None` and for "no default"), so the parser configuration carries
     `cf_nodefault`, the signature part of the default class factory;
   * warnings: ConverterWarning as (class, field); the logger line "Unassigned parsed
     object" as WUnassigned;
   * element / attribute names in events are non-empty (XML names): the model does not
     reproduce the IndexError of `split_qname("")`;
   * a class missing from the universe is `ModelGap` (the real context would build it
     on demand): universes are closed. *)
From Coq Require Import NArith ZArith List Bool.
From XV Require Import Base.Str Base.Eqb Base.PyInt Model.Bind.
Import ListNotations.
Open Scope N_scope.

(* ---------------------------------------------------------------- outcomes *)
(* where an uncaught Python TypeError came from (one constructor per modelled defect; all four
   sites were repaired in /repo -- 24a005e, 32d0281, 8cca284 -- and no model function produces
   them any more; the constructors stay so that the outcome type is unchanged) *)
Inductive tsite :=
| TMissingArg        (* cls( **params): missing required positional argument *)
| TUnexpectedKw      (* cls( **params): unexpected keyword argument (init=False wildcard / attributes field) *)
| TBytesWrapper      (* StandardNode: XmlHexBinary(str) / XmlBase64Binary(None) *)
| TNoneQname.        (* bind_objects on a tail entry: match_namespace(None) -> None[0] *)

Inductive errkind :=
| ParserError | ConverterError | XmlContextError | XmlHandlerError      (* xsdata.exceptions *)
| PyTypeError (s : tsite) | PyIndexError | PyAttributeError | PyKeyError | PyValueError  (* leaked Python exceptions *)
| ModelGap.                                                             (* outside the modelled fragment *)

Inductive warning :=
| WConv (c : cls) (field : str)          (* ConverterWarning "Failed to convert value for `C.f`" *)
| WUnassigned (q : option qname).        (* logger.warning("Unassigned parsed object %s") *)

Inductive outcome := Ok (v : value) (ws : list warning) | Err (k : errkind).

Inductive res (A : Type) := ROk (a : A) | RErr (k : errkind).
Arguments ROk {A} a.
Arguments RErr {A} k.

Definition rbind {A B} (r : res A) (f : A -> res B) : res B :=
  match r with ROk a => f a | RErr k => RErr k end.
Notation "'do' x <- e ; f" := (rbind e (fun x => f)) (at level 200, x name, e at level 100, f at level 200).

Fixpoint map_res {A B} (f : A -> res B) (l : list A) : res (list B) :=
  match l with
  | [] => ROk []
  | x :: r => do y <- f x; do ys <- map_res f r; ROk (y :: ys)
  end.

(* ---------------------------------------------------------------- configuration *)
Record pconfig := mk_pconfig {
  fail_unknown_props : bool;                 (* fail_on_unknown_properties, default True *)
  fail_unknown_attrs : bool;                 (* fail_on_unknown_attributes, default False *)
  fail_conv_warnings : bool;                 (* fail_on_converter_warnings, default False *)
  cf_nodefault : list (cls * list str)       (* default class_factory: init fields without default, per class *)
}.

Definition default_config : pconfig := mk_pconfig true false false [].

(* ---------------------------------------------------------------- small helpers *)
Definition is_some {A} (o : option A) : bool := match o with Some _ => true | None => false end.
Definition truthy_str (o : option str) : option str :=
  match o with Some ((_ :: _) as s) => Some s | _ => None end.
Definition s_skip : str := [115;107;105;112].           (* "skip" *)
Definition s_true : str := [116;114;117;101].           (* constants.XML_TRUE *)
Definition is_tuple_f (f : option factory) : bool :=
  match f with Some FTuple => true | _ => false end.

Definition ns_lookup (p : str) (ns : nsmap) : option str :=
  match find (fun e => ostr_eqb (fst e) (Some p)) ns with Some (_, u) => Some u | None => None end.

(* ParserUtils.normalize_content *)
Definition normalize_content (o : option str) : option str :=
  match o with
  | Some s => match py_strip s with [] => None | _ => Some s end
  | None => None
  end.

(* ParserUtils.xsi_nil: `xsi_nil.strip() in ("true", "1") if xsi_nil else None` *)
Definition xsi_nil_of (attrs : list (qname * str)) : option bool :=
  match truthy_str (assoc XSI_NIL attrs) with
  | Some s => Some (str_eqb (py_strip s) s_true || str_eqb (py_strip s) [49])
  | None => None
  end.

(* ParserUtils.parse_any_attribute / parse_any_attributes *)
Definition parse_any_attribute (value : str) (ns : nsmap) : str :=
  match text_split 58 value with
  | (Some ((_ :: _) as prefix), suffix) =>
      match ns_lookup prefix ns with
      | Some uri => if startswith [47;47] suffix then value else build_qname (Some uri) suffix
      | None => value
      end
  | _ => value
  end.
Definition parse_any_attributes (attrs : list (qname * str)) (ns : nsmap) : list (qname * str) :=
  map (fun kv => (fst kv, parse_any_attribute (snd kv) ns)) attrs.

(* python truthiness of a bound value (`if obj:`, `if previous:`) *)
Definition zero_mantissa (s : str) : bool :=
  let m := fst (span (fun c => negb (N.eqb c 69 || N.eqb c 101)) s) in
  forallb (fun c => N.eqb c 48 || N.eqb c 46 || N.eqb c 45 || N.eqb c 43) m
  && existsb (N.eqb 48) m.
Definition truthy (v : value) : bool :=
  match v with
  | VNone => false
  | VP (PStr []) => false
  | VP (PBytes []) => false
  | VP (PInt z) => negb (Z.eqb z 0)
  | VP (PBool b) => b
  | VP (PFloat s) => negb (zero_mantissa s)
  | VP (PDecimal s) => negb (zero_mantissa s)
  | VList _ [] => false
  | VMap [] => false
  | _ => true
  end.

Definition is_model_value (v : value) : bool :=
  match v with VObj _ _ | VAny _ _ _ _ _ | VDerived _ _ _ => true | _ => false end.

(* ---------------------------------------------------------------- params (the kwargs dict) *)
Inductive pval :=
| PV (v : value)
| PPend (l : list value) (f : option factory).     (* PendingCollection(initlist, factory) *)
Definition params := list (str * pval).

Definition pget (n : str) (p : params) : option pval := assoc n p.
Definition pmem (n : str) (p : params) : bool := is_some (assoc n p).
Fixpoint pset (n : str) (v : pval) (p : params) : params :=
  match p with
  | [] => [(n, v)]
  | (k, x) :: r => if str_eqb n k then (k, v) :: r else (k, x) :: pset n v r
  end.
Fixpoint mset (q : qname) (v : str) (m : list (qname * str)) : list (qname * str) :=
  match m with
  | [] => [(q, v)]
  | (k, x) :: r => if str_eqb q k then (k, v) :: r else (k, x) :: mset q v r
  end.

Definition evaluate (p : params) : list (str * value) :=
  map (fun kv => (fst kv, match snd kv with PV v => v | PPend l f => VList (is_tuple_f f) l end)) p.

(* items.append(value) / items.insert(0, value) on whatever params.get(name) returned *)
Definition coll_append (n : str) (f : option factory) (x : value) (p : params) : res params :=
  match pget n p with
  | None | Some (PV VNone) => ROk (pset n (PPend [x] f) p)
  | Some (PPend l g) => ROk (pset n (PPend (l ++ [x]) g) p)
  | Some (PV (VList false l)) => ROk (pset n (PV (VList false (l ++ [x]))) p)
  | Some (PV _) => RErr PyAttributeError
  end.
Definition coll_insert0 (n : str) (f : option factory) (x : value) (p : params) : res params :=
  match pget n p with
  | None | Some (PV VNone) => ROk (pset n (PPend [x] f) p)
  | Some (PPend l g) => ROk (pset n (PPend (x :: l) g) p)
  | Some (PV (VList false l)) => ROk (pset n (PV (VList false (x :: l))) p)
  | Some (PV _) => RErr PyAttributeError
  end.

(* ---------------------------------------------------------------- nodes *)
Record enode := mk_enode {
  en_meta : xmeta;
  en_attrs : list (qname * str);
  en_ns : nsmap;
  en_position : nat;
  en_derived : bool;                       (* derived_factory is not None *)
  en_xsi_type : option qname;
  en_xsi_nil : option bool;
  en_assigned : list N;
  en_wrappers : list (qname * list qname)
}.

Record unode := mk_unode {
  un_meta : xmeta;
  un_var : xvar;
  un_attrs : list (qname * str);
  un_ns : nsmap;
  un_position : nat;
  un_level : nat;
  un_candidates : list ptype;
  un_events : list pevent                  (* recorded child events, in order *)
}.

Inductive node :=
| NElement (e : enode)
| NPrimitive (m : xmeta) (v : xvar) (ns : nsmap)
| NStandard (m : xmeta) (v : xvar) (ty : ptype) (fmt : option str) (wrapper : option ptype)
            (ns : nsmap) (nillable derived : bool)
| NWildcard (v : xvar) (attrs : list (qname * str)) (ns : nsmap) (pos : nat)
| NWrapper (q : qname)
| NSkip
| NUnion (un : unode).

Definition objects := list (option qname * value).

Record pstate := mk_pstate {
  st_queue : list node;                    (* top of the stack first *)
  st_objects : objects;                    (* in append order *)
  st_warn : list warning
}.
Definition init_state : pstate := mk_pstate [] [] [].

Definition set_assigned (e : enode) (a : list N) : enode :=
  mk_enode (en_meta e) (en_attrs e) (en_ns e) (en_position e) (en_derived e) (en_xsi_type e)
           (en_xsi_nil e) a (en_wrappers e).
Definition set_wrappers (e : enode) (w : list (qname * list qname)) : enode :=
  mk_enode (en_meta e) (en_attrs e) (en_ns e) (en_position e) (en_derived e) (en_xsi_type e)
           (en_xsi_nil e) (en_assigned e) w.

Fixpoint wrappers_push (q w : qname) (l : list (qname * list qname)) : list (qname * list qname) :=
  match l with
  | [] => [(q, [w])]
  | (k, x) :: r => if str_eqb q k then (k, x ++ [w]) :: r else (k, x) :: wrappers_push q w r
  end.
(* ElementNode.pop_wrapper *)
Fixpoint wrappers_pop (q : qname) (l : list (qname * list qname)) : option qname * list (qname * list qname) :=
  match l with
  | [] => (None, [])
  | (k, x) :: r =>
      if str_eqb q k then match x with w :: x' => (Some w, (k, x') :: r) | [] => (None, l) end
      else let '(o, r') := wrappers_pop q r in (o, (k, x) :: r')
  end.

(* ---------------------------------------------------------------- score_object (doubled: 1.0 -> 2) *)
Definition score_value (v : value) : Z :=
  match v with
  | VNone => 0%Z
  | VP (PStr _) => 2%Z
  | _ => 3%Z
  end.
Definition score_ostr (o : option str) : Z := match o with Some _ => 2%Z | None => 0%Z end.
Definition score_object (v : value) : Z :=
  if negb (truthy v) then (-2)%Z
  else match v with
       | VObj _ fs => fold_left (fun acc kv => (acc + score_value (snd kv))%Z) fs 0%Z
       | VAny q t tl _ _ => (score_ostr q + score_ostr t + score_ostr tl + 3 + 3)%Z
       | VDerived _ x ty => (2 + score_value x + score_ostr ty)%Z
       | _ => score_value v
       end.

Section Parser.
  Variable cfg : pconfig.
  Variable c : conv.
  Variable u : universe.
  (* NodeParser(config, context, EventsHandler).parse(events, candidate) of a UnionNode replay *)
  Variable replay : pconfig -> option cls -> list pevent -> outcome.

  (* -------------------------------------------------------------- context *)
  Definition ctx_find_types (q : qname) : list cls :=
    match c_from_qname c q with Some _ => [] | None => find_types u q end.
  Definition ctx_find_type (q : qname) : option cls := last_error (ctx_find_types q).

  (* XmlContext.find_subclass *)
  Definition find_subclass (clazz : cls) (q : qname) : option cls :=
    find (fun tp => negb (is_subclass u clazz tp)
                    && existsb (fun x => existsb (N.eqb x) (u_mro_of u clazz)) (u_mro_of u tp))
         (ctx_find_types q).

  Definition get_meta (cl : cls) : res xmeta :=
    match u_meta u cl with Some m => ROk m | None => RErr ModelGap end.

  (* XmlContext.fetch *)
  Definition fetch (clazz : cls) (xsi_type : option qname) : res xmeta :=
    do meta <- get_meta clazz;
    match truthy_str xsi_type with
    | Some x =>
        if ostr_eqb (m_target_qname meta) (Some x) then ROk meta
        else match find_subclass clazz x with
             | Some sub => get_meta sub
             | None => ROk meta
             end
    | None => ROk meta
    end.

  (* ParserUtils.xsi_type = QNameConverter.resolve + build_qname; the resolution is the
     converter's (c_deser on [QName]); an unresolvable value raises ConverterError *)
  Definition xsi_type_of (attrs : list (qname * str)) (ns : nsmap) : res (option qname) :=
    match truthy_str (assoc XSI_TYPE attrs) with
    | None => ROk None
    | Some s =>
        match c_deser c [TQName] None ns s with
        | Some (PQName ((_ :: _) as q)) => ROk (Some q)
        | Some (PQName []) => RErr ConverterError
        | Some _ => RErr ModelGap
        | None => RErr ConverterError
        end
    end.

  (* -------------------------------------------------------------- ParserUtils.parse_value / parse_var *)
  Definition default_none (d : vdefault) (tokens : bool) : value :=
    match d with
    | DNone => VNone
    | DValue v => v
    | DFactoryList => if tokens then VList false [] else VNone
    | DFactoryTuple => if tokens then VList true [] else VNone
    | DFactoryDict => if tokens then VMap [] else VNone
    end.

  Definition deser (tys : list ptype) (fmt : option str) (ns : nsmap) (s : str) : res value :=
    match c_deser c tys fmt ns s with Some p => ROk (VP p) | None => RErr ConverterError end.

  Definition parse_value (txt : option str) (tys : list ptype) (d : vdefault) (ns : nsmap)
             (tf : option factory) (fmt : option str) : res value :=
    match txt with
    | None => ROk (default_none d (is_some tf))
    | Some s =>
        match tf with
        | Some f => do l <- map_res (deser tys fmt ns) (split_ws py_isspace s);
                    ROk (VList (is_tuple_f (Some f)) l)
        | None => deser tys fmt ns s
        end
    end.

  Definition raw_value (txt : option str) : value :=
    match txt with Some s => VP (PStr s) | None => VNone end.

  Definition parse_var (failc : bool) (m : xmeta) (var : xvar) (txt : option str) (ns : nsmap)
             (tys : option (list ptype)) (fmt : option str) : res (value * list warning) :=
    let tys' := match tys with Some ((_ :: _) as t) => t | _ => v_types var end in
    let fmt' := match truthy_str fmt with Some f => Some f | None => v_format var end in
    match parse_value txt tys' (v_default var) ns (v_tokens_factory var) fmt' with
    | ROk x => ROk (x, [])
    | RErr ConverterError =>
        if failc then RErr ParserError
        else ROk (raw_value txt, [WConv (m_clazz m) (v_name var)])
    | RErr k => RErr k
    end.

  (* converter.serialize(value, format=...) *)
  Definition ser_prim (fmt : option str) (p : prim) : str :=
    match p with PStr s => s | _ => c_ser c fmt p end.
  Definition serialize_value (fmt : option str) (v : value) : option str :=
    match v with
    | VNone => None
    | VP p => Some (ser_prim fmt p)
    | VList _ l => Some (join [32] (map (fun x => match x with VP p => ser_prim fmt p | _ => [] end) l))
    | _ => None
    end.

  (* ParserUtils.validate_fixed_value *)
  Definition default_call (d : vdefault) : value :=
    match d with
    | DNone => VNone
    | DValue v => v
    | DFactoryList => VList false []
    | DFactoryTuple => VList true []
    | DFactoryDict => VMap []
    end.
  Definition s_nan : str := [110;97;110].
  Definition validate_fixed (var : xvar) (x : value) : res unit :=
    let d := default_call (v_default var) in
    let same :=
      match d, x with
      | VP (PFloat a), VP (PFloat b) => str_eqb a s_nan && str_eqb b s_nan
      | VP (PStr a), VP (PStr b) => str_eqb (py_strip a) (py_strip b)
      | _, _ => false
      end in
    if same then ROk tt
    else
      let d' := match x, d with
                | VP (PStr _), VP (PStr _) => d
                | VP (PStr _), _ => match serialize_value (v_format var) d with Some s => VP (PStr s) | None => VNone end
                | _, _ => d
                end in
      if value_eqb d' x then ROk tt else RErr ParserError.

  (* -------------------------------------------------------------- config.class_factory = cls( **params) *)
  Definition class_factory (m : xmeta) (p : list (str * value)) : res value :=
    let vars := get_all_vars m in
    let nodef := match assocN (m_clazz m) (cf_nodefault cfg) with Some l => l | None => [] end in
    if existsb (fun kv => negb (existsb (fun v => v_init v && str_eqb (v_name v) (fst kv)) vars)) p
    then RErr ParserError        (* unexpected keyword: TypeError wrapped by ElementNode.bind since /repo 24a005e *)
    else
      do fields <- map_res (fun v =>
          match (if v_init v then assoc (v_name v) p else None) with
          | Some x => ROk (v_name v, x)
          | None =>
              if v_init v && existsb (str_eqb (v_name v)) nodef
              then RErr ParserError  (* missing required argument: TypeError wrapped since /repo 24a005e *)
              else ROk (v_name v, default_call (v_default v))
          end) vars;
      ROk (VObj (m_clazz m) fields).

  (* -------------------------------------------------------------- ElementNode.child / build_node *)
  Definition build_element_node (parent : enode) (clazz : cls) (derived nillable : bool)
             (attrs : list (qname * str)) (ns : nsmap) (position : nat) (dfactory : bool)
             (xsi_type : option qname) (xsi_nil : option bool) : res (option node) :=
    do meta <- fetch clazz xsi_type;
    let nillable := nillable || m_nillable meta in
    let mismatch := match xsi_nil with Some b => negb (Bool.eqb nillable b) | None => false end in
    if mismatch then ROk None
    else
      let derived := if is_some (truthy_str xsi_type) && negb derived
                        && negb (is_subclass u (m_clazz meta) clazz) then true else derived in
      ROk (Some (NElement (mk_enode meta attrs ns position (dfactory && derived) xsi_type xsi_nil [] []))).

  (* UnionNode.filter_candidates *)
  Definition filter_fixed_attrs (attrs : list (qname * str)) (cand : ptype) : res bool :=
    match cand with
    | TClass cl =>
        do meta <- get_meta cl;
        ROk (forallb (fun kv =>
               match find_attribute meta (fst kv) with
               | Some var => if v_init var then true
                             else match validate_fixed var (VP (PStr (snd kv))) with ROk _ => true | RErr _ => false end
               | None => true
               end) attrs)
    | _ => ROk (match attrs with [] => true | _ => false end)
    end.
  Fixpoint filter_candidates (attrs : list (qname * str)) (l : list ptype) : res (list ptype) :=
    match l with
    | [] => ROk []
    | t :: r => do b <- filter_fixed_attrs attrs t;
                do r' <- filter_candidates attrs r;
                ROk (if b then t :: r' else r')
    end.

  Definition build_node (parent : enode) (q : qname) (var : xvar) (attrs : list (qname * str))
             (ns : nsmap) (position : nat) : res (option node) :=
    if v_is_clazz_union var then
      do cands <- filter_candidates attrs (v_types var);
      ROk (Some (NUnion (mk_unode (en_meta parent) var attrs ns position 0 cands [])))
    else
      do xt <- xsi_type_of attrs ns;
      let xn := xsi_nil_of attrs in
      match v_clazz var with
      | Some cl => build_element_node parent cl false (v_nillable var) attrs ns position true xt xn
      | None =>
          if negb (v_any_type var) && negb (v_is KWildcard var)
          then ROk (Some (NPrimitive (en_meta parent) var ns))
          else
            let datatype := match xt with Some x => c_from_qname c x | None => None end in
            let derived := v_is KWildcard var in
            match datatype with
            | Some (ty, fmt, wr) =>
                ROk (Some (NStandard (en_meta parent) var ty fmt wr ns (v_nillable var) derived))
            | None =>
                let clazz1 := match xt with Some x => ctx_find_type x | None => None end in
                do node1 <- match clazz1 with
                            | Some cl => build_element_node parent cl derived (v_nillable var) attrs ns position true xt xn
                            | None => ROk None
                            end;
                match node1 with
                | Some n => ROk (Some n)
                | None =>
                    let clazz2 := if negb (str_eqb (v_process_contents var) s_skip)
                                  then ctx_find_type q else clazz1 in
                    do node2 <- match clazz2 with
                                | Some cl => build_element_node parent cl false (v_nillable var) attrs ns position false xt xn
                                | None => ROk None
                                end;
                    match node2 with
                    | Some n => ROk (Some n)
                    | None => ROk (Some (NWildcard var attrs ns position))
                    end
                end
            end
      end.

  Definition wrapper_mismatch (wrapper : option qname) (var : xvar) : bool :=
    match truthy_str wrapper with
    | Some w => negb (ostr_eqb (v_wrapper_qname var) (Some w))
    | None => false
    end.

  Fixpoint child_loop (en : enode) (q : qname) (attrs : list (qname * str)) (ns : nsmap)
           (position : nat) (wrapper : option qname) (vars : list xvar) : res (option (node * enode)) :=
    match vars with
    | [] => ROk None
    | var :: rest =>
        if wrapper_mismatch wrapper var then child_loop en q attrs ns position wrapper rest
        else
          let unique := if v_is KElement var && negb (v_list_element var) then v_index var else 0 in
          if (unique =? 0) || negb (existsb (N.eqb unique) (en_assigned en)) then
            do on <- build_node en q var attrs ns position;
            match on with
            | Some n =>
                let en1 := if unique =? 0 then en else set_assigned en (en_assigned en ++ [unique]) in
                let en2 := match truthy_str wrapper with
                           | Some w => set_wrappers en1 (wrappers_push q w (en_wrappers en1))
                           | None => en1
                           end in
                ROk (Some (n, en2))
            | None => child_loop en q attrs ns position wrapper rest
            end
          else child_loop en q attrs ns position wrapper rest
    end.

  Definition element_child (en : enode) (q : qname) (attrs : list (qname * str)) (ns : nsmap)
             (position : nat) (wrapper : option qname) : res (node * enode) :=
    do r <- child_loop en q attrs ns position wrapper (find_children (en_meta en) q);
    match r with
    | Some x => ROk x
    | None => if fail_unknown_props cfg then RErr ParserError else ROk (NSkip, en)
    end.

  (* -------------------------------------------------------------- ElementNode.bind_* *)
  Definition bind_attr (en : enode) (var : xvar) (sval : str) (p : params) : res (params * list warning) :=
    do r <- parse_var (fail_conv_warnings cfg) (en_meta en) var (Some sval) (en_ns en) None None;
    let '(v, ws) := r in
    if v_init var then ROk (pset (v_name var) (PV v) p, ws)
    else do _x <- validate_fixed var v; ROk (p, ws).

  Definition bind_any_attr (en : enode) (var : xvar) (q : qname) (sval : str) (p : params) : res params :=
    let p1 := if pmem (v_name var) p then p else pset (v_name var) (PV (VMap [])) p in
    match pget (v_name var) p1 with
    | Some (PV (VMap m)) => ROk (pset (v_name var) (PV (VMap (mset q (parse_any_attribute sval (en_ns en)) m))) p1)
    | _ => RErr ModelGap
    end.

  Fixpoint bind_attrs_loop (en : enode) (attrs : list (qname * str)) (p : params) (ws : list warning)
    : res (params * list warning) :=
    match attrs with
    | [] => ROk (p, ws)
    | (q, sval) :: rest =>
        let m := en_meta en in
        let other :=
          match find_any_attributes m q with
          | Some var => do p' <- bind_any_attr en var q sval p; bind_attrs_loop en rest p' ws
          | None =>
              if fail_unknown_attrs cfg && negb (ostr_eqb (target_uri q) (Some XSI_NS))
              then RErr ParserError
              else bind_attrs_loop en rest p ws
          end in
        match find_attribute m q with
        | Some var =>
            if pmem (v_name var) p then other
            else do r <- bind_attr en var sval p;
                 bind_attrs_loop en rest (fst r) (ws ++ snd r)
        | None => other
        end
    end.
  Definition bind_attrs (en : enode) : res (params * list warning) :=
    bind_attrs_loop en (en_attrs en) [] [].

  (* ElementNode.prepare_generic_value *)
  Definition prepare_generic_value (q : option qname) (v : value) : value :=
    match truthy_str q with
    | Some qn => if is_model_value v then v else VAny (Some qn) (serialize_value None v) None [] []
    | None => v
    end.

  (* ElementNode.bind_var *)
  Definition bind_var (var : xvar) (v : value) (p : params) : res (bool * params) :=
    if v_init var then
      if v_list_element var then do p' <- coll_append (v_name var) (v_factory var) v p; ROk (true, p')
      else if pmem (v_name var) p then ROk (false, p)
      else ROk (true, pset (v_name var) (PV v) p)
    else ROk (true, p).

  (* ElementNode.bind_wild_var *)
  Definition bind_wild_var (var : xvar) (q : option qname) (v : value) (p : params) : res params :=
    let v := prepare_generic_value q v in
    if v_list_element var then coll_append (v_name var) (v_factory var) v p
    else match pget (v_name var) p with
         | Some (PV (VAny None t tl at_ ch)) => ROk (pset (v_name var) (PV (VAny None t tl at_ (ch ++ [v]))) p)
         | Some (PV (VAny (Some []) t tl at_ ch)) => ROk (pset (v_name var) (PV (VAny (Some []) t tl at_ (ch ++ [v]))) p)
         | Some (PV prev) => ROk (pset (v_name var) (PV (VAny None None None [] [prev; v])) p)
         | Some (PPend _ _) => RErr ModelGap
         | None => ROk (pset (v_name var) (PV v) p)
         end.

  (* XmlMeta.find_children on the qname of an `objects` entry; a tail entry has qname None:
     bind_object returns False for it (before /repo 8cca284: XmlVar.match_namespace(None) ->
     target_uri(None) -> None[0] -> TypeError when the class has a wildcard) *)
  Definition find_children_opt (m : xmeta) (q : option qname) : res (list xvar) :=
    match q with
    | Some qn => ROk (find_children m qn)
    | None =>
        if existsb (fun ch => match v_wildcards ch with [] => false | _ => true end) (m_choices m)
           || match m_wildcards m with [] => false | _ => true end
        then ROk []                  (* bind_object answers False for a tail entry since /repo 8cca284 *)
        else ROk []
    end.

  Fixpoint bind_object_loop (wrapper : option qname) (q : option qname) (v : value)
           (vars : list xvar) (p : params) : res (bool * params) :=
    match vars with
    | [] => ROk (false, p)
    | var :: rest =>
        if wrapper_mismatch wrapper var then bind_object_loop wrapper q v rest p
        else if v_is KWildcard var then do p' <- bind_wild_var var q v p; ROk (true, p')
        else do r <- bind_var var v p;
             if fst r then ROk (true, snd r) else bind_object_loop wrapper q v rest (snd r)
    end.

  (* ElementNode.bind_objects: the loop over objects[position:] *)
  Fixpoint bind_objects_loop (m : xmeta) (objs : objects) (p : params)
           (wr : list (qname * list qname)) (ws : list warning) : res (params * list warning) :=
    match objs with
    | [] => ROk (p, ws)
    | (q, v) :: rest =>
        let '(wrapper, wr') := match q with Some qn => wrappers_pop qn wr | None => (None, wr) end in
        do vars <- find_children_opt m q;
        do r <- bind_object_loop wrapper q v vars p;
        bind_objects_loop m rest (snd r) wr' (if fst r then ws else ws ++ [WUnassigned q])
    end.

  (* ElementNode.bind_text *)
  Definition xsi_nil_true (en : enode) : bool := match en_xsi_nil en with Some true => true | _ => false end.
  Definition bind_text (en : enode) (p : params) (text : option str) : res (bool * params * list warning) :=
    match m_text (en_meta en) with
    | None => ROk (false, p, [])
    | Some var =>
        if negb (is_some text) && negb (xsi_nil_true en) then ROk (false, p, [])
        else
          do r <- (if xsi_nil_true en && negb (is_some (truthy_str text)) then ROk (VNone, [])
                   else parse_var (fail_conv_warnings cfg) (en_meta en) var text (en_ns en) None None);
          let '(v, ws) := r in
          if v_init var then ROk (true, pset (v_name var) (PV v) p, ws)
          else do _x <- validate_fixed var v; ROk (true, p, ws)
    end.

  (* ElementNode.bind_wild_text; returns the new params and tail_processed *)
  Definition bind_wild_text (en : enode) (var : xvar) (p : params) (text tail : option str) : res (params * bool) :=
    let text := normalize_content text in
    let tail := normalize_content tail in
    match text, tail with
    | None, None => ROk (p, false)
    | _, _ =>
        if v_list_element var then
          do p' <- coll_insert0 (v_name var) (v_factory var) (raw_value text) p; ROk (p', false)
        else
          let attrs := parse_any_attributes (en_attrs en) (en_ns en) in
          match pget (v_name var) p with
          | Some (PPend _ _) => RErr ModelGap
          | Some (PV prev) =>
              ROk (pset (v_name var) (PV (VAny None text tail attrs (if truthy prev then [prev] else []))) p, true)
          | None => ROk (pset (v_name var) (PV (VAny None text tail attrs [])) p, true)
          end
    end.

  (* ElementNode.bind_content: (params, remaining objects, warnings, tail_processed) *)
  Definition bind_content (en : enode) (p : params) (text tail : option str) (objs : objects)
    : res (params * objects * list warning * bool) :=
    let m := en_meta en in
    let pos := en_position en in
    let wild := find_any_wildcard m in
    do r1 <- match wild with
             | Some wv =>
                 if v_mixed wv then
                   ROk (pset (v_name wv)
                          (PV (VList false (map (fun qv => prepare_generic_value (fst qv) (snd qv)) (skipn pos objs)))) p,
                        ([] : list warning), false)
                 else
                   do r <- bind_objects_loop m (skipn pos objs) p (en_wrappers en) [];
                   do t <- bind_text en (fst r) text;
                   let '(bt, p', ws') := t in ROk (p', snd r ++ ws', bt)
             | None =>
                 do r <- bind_objects_loop m (skipn pos objs) p (en_wrappers en) [];
                 do t <- bind_text en (fst r) text;
                 let '(bt, p', ws') := t in ROk (p', snd r ++ ws', bt)
             end;
    let '(p1, ws1, bt) := r1 in
    let objs' := firstn pos objs in
    match wild with
    | Some wv =>
        if bt then ROk (p1, objs', ws1, false)
        else do r2 <- bind_wild_text en wv p1 text tail;
             ROk (fst r2, objs', ws1, snd r2)
    | None => ROk (p1, objs', ws1, false)
    end.

  Definition append_tail (objs : objects) (tail : option str) : objects :=
    match normalize_content tail with
    | Some t => objs ++ [(None, VP (PStr t))]
    | None => objs
    end.

  (* ElementNode.bind *)
  Definition element_bind (en : enode) (q : qname) (text tail : option str) (objs : objects)
    : res (objects * list warning) :=
    let m := en_meta en in
    do r <- (if negb (xsi_nil_true en) || m_nillable m then
               do pa <- bind_attrs en;
               do pc <- bind_content en (fst pa) text tail objs;
               let '(p, objs', ws2, tp) := pc in
               do obj <- class_factory m (evaluate p);
               ROk (obj, objs', snd pa ++ ws2, tp)
             else ROk (VNone, objs, [], false));
    let '(obj, objs', ws, tp) := r in
    let obj := if en_derived en then VDerived q obj (en_xsi_type en) else obj in
    let objs1 := objs' ++ [(Some q, obj)] in
    ROk (if tp then objs1 else append_tail objs1 tail, ws).

  (* PrimitiveNode.bind *)
  Definition primitive_bind (m : xmeta) (var : xvar) (ns : nsmap) (q : qname) (text tail : option str)
             (objs : objects) : res (objects * list warning) :=
    do r <- parse_var (fail_conv_warnings cfg) m var text ns None None;
    let '(obj, ws) := r in
    let obj := match obj with
               | VNone => if v_nillable var then VNone
                          else if existsb (ptype_eqb TBytes) (v_types var) then VP (PBytes []) else VP (PStr [])
               | _ => obj
               end in
    let objs1 := objs ++ [(Some q, obj)] in
    ROk (if m_mixed_content m then append_tail objs1 tail else objs1, ws).

  (* StandardNode.bind; datatype.wrapper (XmlHexBinary / XmlBase64Binary) is applied to bytes
     only: the exported value of a wrapped bytes object is the same PBytes *)
  Definition standard_bind (m : xmeta) (var : xvar) (ty : ptype) (fmt : option str) (wrapper : option ptype)
             (ns : nsmap) (nillable derived : bool) (q : qname) (text : option str) (objs : objects)
    : res (objects * list warning) :=
    do r <- parse_var (fail_conv_warnings cfg) m var text ns (Some [ty]) fmt;
    let '(obj, ws) := r in
    let obj := match obj with VNone => if nillable then VNone else VP (PStr []) | _ => obj end in
    do obj <- match wrapper with
              | Some _ => ROk obj   (* the wrapper class is applied to bytes only since /repo 32d0281 *)
              | None => ROk obj
              end;
    let obj := if derived then VDerived q obj None else obj in
    ROk (objs ++ [(Some q, obj)], ws).

  (* WildcardNode.bind *)
  Definition wildcard_bind (var : xvar) (attrs : list (qname * str)) (ns : nsmap) (pos : nat)
             (q : qname) (text tail : option str) (objs : objects) : objects :=
    let children := map snd (skipn pos objs) in
    let objs' := firstn pos objs in
    let attributes := parse_any_attributes attrs ns in
    let derived := negb (str_eqb q (v_qname var)) in
    let text := match children with [] => text | _ => normalize_content text end in
    let text := match text with None => if v_nillable var then None else Some [] | _ => text end in
    let tail := normalize_content tail in
    let nonempty {A} (l : list A) := match l with [] => false | _ => true end in
    if is_some tail || nonempty attributes || nonempty children || v_is KWildcard var || derived
    then objs' ++ [(Some (v_qname var), VAny (Some q) text tail attributes children)]
    else objs' ++ [(Some (v_qname var), raw_value text)].

  (* UnionNode.bind at level 0 *)
  Definition with_fail_conv (k : pconfig) : pconfig :=
    mk_pconfig (fail_unknown_props k) (fail_unknown_attrs k) true (cf_nodefault k).
  Definition union_bind (un : unode) (q : qname) (text tail : option str) (objs : objects) : res objects :=
    let events := PStart q (un_attrs un) (un_ns un) :: un_events un ++ [PEnd q text tail] in
    let cfg' := with_fail_conv cfg in
    let best :=
      fold_left (fun (acc : value * Z) cand =>
        let result :=
          match cand with
          | TClass cl => match replay cfg' (Some cl) events with Ok v _ => v | Err _ => VNone end
          | ty => match parse_var true (un_meta un) (un_var un) text (un_ns un) (Some [ty]) None with
                  | ROk (v, _) => v
                  | RErr _ => VNone
                  end
          end in
        let score := score_object result in
        if (snd acc <? score)%Z then (result, score) else acc)
      (un_candidates un) (VNone, (-2)%Z) in
    if truthy (fst best) then ROk (objs ++ [(Some (v_qname (un_var un)), fst best)])
    else RErr ParserError.

  (* -------------------------------------------------------------- NodeParser.start *)
  Definition root_node (root : option cls) (q : qname) (attrs : list (qname * str)) (ns : nsmap) : res node :=
    do xt <- xsi_type_of attrs ns;
    let clazz := match root with
                 | Some r => Some r
                 | None => match ctx_find_type q with
                           | Some t => Some t
                           | None => match xt with Some x => ctx_find_type x | None => None end
                           end
                 end in
    match clazz with
    | None => RErr ParserError
    | Some cl =>
        do meta <- fetch cl xt;
        let derived := negb (negb (is_some xt) || str_eqb (m_qname meta) q) in
        ROk (NElement (mk_enode meta attrs ns 0 derived (if derived then xt else None) (xsi_nil_of attrs) [] []))
    end.

  Definition push (n : node) (st : pstate) : pstate :=
    mk_pstate (n :: st_queue st) (st_objects st) (st_warn st).

  Definition start (root : option cls) (st : pstate) (q : qname) (attrs : list (qname * str)) (ns : nsmap)
    : res pstate :=
    let position := length (st_objects st) in
    match st_queue st with
    | [] => do n <- root_node root q attrs ns; ROk (push n st)
    | NElement en :: rest =>
        if is_some (assoc q (m_wrappers (en_meta en))) then ROk (push (NWrapper q) st)
        else do r <- element_child en q attrs ns position None;
             ROk (mk_pstate (fst r :: NElement (snd r) :: rest) (st_objects st) (st_warn st))
    | NWrapper wq :: NElement en :: rest =>
        do r <- element_child en q attrs ns position (Some wq);
        ROk (mk_pstate (fst r :: NWrapper wq :: NElement (snd r) :: rest) (st_objects st) (st_warn st))
    | NWrapper _ :: _ => RErr ModelGap
    | NPrimitive _ _ _ :: _ => RErr XmlContextError
    | NStandard _ _ _ _ _ _ _ _ :: _ => RErr XmlContextError
    | NWildcard v _ _ _ :: _ => ROk (push (NWildcard v attrs ns position) st)
    | NSkip :: _ => ROk (push NSkip st)
    | NUnion un :: rest =>
        let un' := mk_unode (un_meta un) (un_var un) (un_attrs un) (un_ns un) (un_position un)
                            (S (un_level un)) (un_candidates un) (un_events un ++ [PStart q attrs ns]) in
        ROk (mk_pstate (NUnion un' :: rest) (st_objects st) (st_warn st))
    end.

  (* -------------------------------------------------------------- NodeParser.end *)
  Definition finish_end (rest : list node) (st : pstate) (r : res (objects * list warning)) : res pstate :=
    do x <- r; ROk (mk_pstate rest (fst x) (st_warn st ++ snd x)).

  Definition pend (st : pstate) (q : qname) (text tail : option str) : res pstate :=
    match st_queue st with
    | [] => RErr PyIndexError                       (* queue.pop() on an empty list *)
    | n :: rest =>
        let objs := st_objects st in
        match n with
        | NElement en => finish_end rest st (element_bind en q text tail objs)
        | NPrimitive m v ns => finish_end rest st (primitive_bind m v ns q text tail objs)
        | NStandard m v ty fmt wr ns nl dv => finish_end rest st (standard_bind m v ty fmt wr ns nl dv q text objs)
        | NWildcard v attrs ns pos => ROk (mk_pstate rest (wildcard_bind v attrs ns pos q text tail objs) (st_warn st))
        | NWrapper _ => ROk (mk_pstate rest objs (st_warn st))
        | NSkip => ROk (mk_pstate rest objs (st_warn st))
        | NUnion un =>
            match un_level un with
            | S l =>
                let un' := mk_unode (un_meta un) (un_var un) (un_attrs un) (un_ns un) (un_position un)
                                    l (un_candidates un) (un_events un ++ [PEnd q text tail]) in
                ROk (mk_pstate (NUnion un' :: rest) objs (st_warn st))
            | O => do objs' <- union_bind un q text tail objs;
                   ROk (mk_pstate rest objs' (st_warn st))
            end
        end
    end.

  Definition step (root : option cls) (st : pstate) (ev : pevent) : res pstate :=
    match ev with
    | PStart q attrs ns => start root st q attrs ns
    | PEnd q text tail => pend st q text tail
    | PStartNs _ _ => ROk st                       (* register_namespace only feeds parser.ns_map *)
    end.

  Fixpoint run (root : option cls) (st : pstate) (evs : list pevent) : res pstate :=
    match evs with
    | [] => ROk st
    | ev :: rest => do st' <- step root st ev; run root st' rest
    end.

  (* EventsHandler.parse's return value, then NodeParser.parse *)
  Definition finish (r : res pstate) : outcome :=
    match r with
    | RErr k => Err k
    | ROk st =>
        match last_error (st_objects st) with
        | Some (_, VNone) | None => Err ParserError       (* "Failed to create target class" *)
        | Some (_, v) => Ok v (st_warn st)
        end
    end.
End Parser.

(* the union replay re-enters the parser on a strictly shorter recorded stream: fuel =
   recorded length *)
Fixpoint parse_n (n : nat) (cfg : pconfig) (c : conv) (u : universe) (root : option cls)
         (evs : list pevent) : outcome :=
  let replay := match n with
                | O => fun _ _ _ => Err ModelGap
                | S k => fun cfg' root' evs' => parse_n k cfg' c u root' evs'
                end in
  finish (run cfg c u replay root init_state evs).

Definition replay_n (n : nat) (c : conv) (u : universe) : pconfig -> option cls -> list pevent -> outcome :=
  match n with
  | O => fun _ _ _ => Err ModelGap
  | S k => fun cfg' root' evs' => parse_n k cfg' c u root' evs'
  end.

(* the parser state after a prefix of the stream (what the open elements are bound to) *)
Definition run_n (n : nat) (cfg : pconfig) (c : conv) (u : universe) (root : option cls)
           (evs : list pevent) : res pstate :=
  run cfg c u (replay_n n c u) root init_state evs.

Definition parse (cfg : pconfig) (c : conv) (u : universe) (root : option cls) (evs : list pevent) : outcome :=
  parse_n (length evs) cfg c u root evs.
