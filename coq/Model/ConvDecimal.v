(* Model/ConvDecimal.v — DecimalConverter: decimal.Decimal(str) (CPython _decimal /
   libmpdec: numeric_as_ascii + mpd_qset_string with the exact-conversion check of
   PyDecType_FromCStringExact) and the serialize path: str(value).replace("Infinity",
   "INF") for infinities, format(value, "f") otherwise.  No proofs here.

   A Decimal is a sign, a coefficient and an exponent, or a special value
   (as_tuple(): exponent 'F' infinity, 'n' NaN, 'N' sNaN; a NaN payload of 0 is
   the empty digit tuple). *)
From Coq Require Import NArith ZArith List Bool.
From XV Require Import Base.Str Base.Dec Base.PyInt Gen.ConvTables.
Import ListNotations.
Open Scope N_scope.

Inductive pydec :=
| DFin (neg : bool) (coeff : N) (exp : Z)
| DInf (neg : bool)
| DNaN (neg : bool) (signaling : bool) (payload : N).

(* ---- numeric_as_ascii(u, strip_ws=1, ignore_underscores=1) ------------- *)
(* after stripping: '_' is dropped, ASCII 1..127 kept, other whitespace becomes
   ' ', Unicode decimal digits become ASCII digits, anything else is an error *)
Definition dec_map_char (c : N) : option N :=
  if (0 <? c) && (c <=? 127) then Some c
  else if py_isspace c then Some 32
  else match nd_value c with Some d => Some (48 + d) | None => None end.

Fixpoint dec_to_ascii (s : str) : option str :=
  match s with
  | [] => Some []
  | c :: r =>
      if c =? 95 then dec_to_ascii r
      else match dec_map_char c, dec_to_ascii r with
           | Some x, Some l => Some (x :: l)
           | _, _ => None
           end
  end.

(* ---- mpd_qset_string ----------------------------------------------------- *)
(* _mpd_strneq: case-insensitive ASCII prefix test *)
Fixpoint starts_ci (p s : str) : bool :=
  match p, s with
  | [], _ => true
  | x :: p', y :: s' => N.eqb (ascii_lower y) x && starts_ci p' s'
  | _ :: _, [] => false
  end.
Definition eq_ci (p s : str) : bool := starts_ci p s && (length s =? length p)%nat.

Definition nd_coeff (c : N) : Z := Z.of_nat (length (to_dec c)).

(* the exact-conversion requirement: no Inexact/Rounded/Clamped from mpd_qfinalize
   under the maximum context *)
Definition dec_fits (c : N) (e : Z) : bool :=
  (dec_min_etiny <=? e)%Z && (e + nd_coeff c - 1 <=? dec_max_emax)%Z.

Definition dec_finish (neg : bool) (digits : str) (e : Z) : option pydec :=
  let c := str_val digits in
  if dec_fits c e then Some (DFin neg c e) else None.

(* scan_payload: digits only (leading zeros immaterial) up to the end *)
Definition dec_payload (s : str) : option N :=
  if all_digits s then Some (str_val s) else None.

(* scan_dpoint_exp + strtoexp: digits, optional point and digits, optional
   exponent (e or E, optional sign, at least one digit); at least one digit in the
   coefficient *)
(* an optional '.' and the digits after it *)
Definition scan_frac (r1 : str) : str * str :=
  match r1 with
  | 46 :: t => span is_ascii_digit t
  | _ => ([], r1)
  end.

(* an optional sign: (is '-', rest) *)
Definition split_pm (t : str) : bool * str :=
  match t with
  | 43 :: u => (false, u)
  | 45 :: u => (true, u)
  | _ => (false, t)
  end.

Definition scan_number (r : str) : option (str * Z) :=
  let '(ip, r1) := span is_ascii_digit r in
  let '(fp, r2) := scan_frac r1 in
  if (length ip + length fp =? 0)%nat then None
  else match r2 with
       | [] => Some (ip ++ fp, - Z.of_nat (length fp))%Z
       | c :: t =>
           if (c =? 101) || (c =? 69) then
             let '(eneg, ds) := split_pm t in
             if all_digits ds && negb (length ds =? 0)%nat then
               let ev := Z.of_N (str_val ds) in
               Some (ip ++ fp, (if eneg then - ev else ev) - Z.of_nat (length fp))%Z
             else None
           else None
       end.

Definition dec_parse_number (neg : bool) (r : str) : option pydec :=
  match scan_number r with
  | Some (ds, e) => dec_finish neg ds e
  | None => None
  end.

Definition dec_parse_ascii (s : str) : option pydec :=
  let '(neg, r) := split_pm s in
  if starts_ci [110;97;110] r then option_map (DNaN neg false) (dec_payload (skipn 3 r))
  else if starts_ci [115;110;97;110] r then option_map (DNaN neg true) (dec_payload (skipn 4 r))
  else if starts_ci [105;110;102] r then
    let t := skipn 3 r in
    if (length t =? 0)%nat || eq_ci [105;110;105;116;121] t then Some (DInf neg) else None
  else dec_parse_number neg r.

(* DecimalConverter.deserialize: Decimal(value); InvalidOperation -> ConverterError *)
Definition dec_deser (s : str) : option pydec :=
  match dec_to_ascii (py_strip s) with
  | Some a => dec_parse_ascii a
  | None => None
  end.

(* ---- serialize ------------------------------------------------------------- *)
(* str.replace(old, new), old non-empty; fuel = length of the subject *)
Fixpoint replace_fuel (fuel : nat) (old new s : str) : str :=
  match fuel with
  | O => s
  | S k =>
      match s with
      | [] => []
      | c :: r => if startswith old s then new ++ replace_fuel k old new (skipn (length old) s)
                  else c :: replace_fuel k old new r
      end
  end.
Definition str_replace (old new s : str) : str := replace_fuel (length s) old new s.

Definition dec_sign (neg : bool) : str := if neg then [45] else [].

(* format(d, "f") of a finite Decimal: no exponent; a zero coefficient with a
   positive exponent prints as "0" *)
Definition dec_format_f (c : N) (e : Z) : str :=
  let ds := to_dec c in
  if (0 <=? e)%Z then
    if c =? 0 then [48] else ds ++ repeat_chr 48 (Z.to_nat e)
  else
    let k := Z.to_nat (- e) in
    let n := length ds in
    if (k <? n)%nat then firstn (n - k) ds ++ [46] ++ skipn (n - k) ds
    else [48; 46] ++ repeat_chr 48 (k - n) ++ ds.

Definition dec_nan_text (signaling : bool) (payload : N) : str :=
  (if signaling then [115] else []) ++ [78;97;78] ++ (if payload =? 0 then [] else to_dec payload).

(* DecimalConverter.serialize *)
Definition dec_ser (d : pydec) : str :=
  match d with
  | DInf neg => str_replace decimal_inf_from decimal_inf_to (dec_sign neg ++ [73;110;102;105;110;105;116;121])
  | DNaN neg sg p => dec_sign neg ++ dec_nan_text sg p
  | DFin neg c e => dec_sign neg ++ dec_format_f c e
  end.
