(* Model/DictLeak.v — executable model of DictDecoder (xsdata/formats/dataclass/parsers/dict.py:
   decode / verify_type / detect_type / bind_dataclass / bind_derived_dataclass / find_var /
   bind_value / bind_text / bind_complex_type / bind_best_dataclass / known_keys /
   bind_derived_value / verify_derived_names) over ARBITRARY JSON values: any JSON kind at any
   key, not only the dictionaries an encoder writes.  No proofs here.

   What it computes is the OUTCOME of the decoder: the exception class (xsdata's documented
   errors AND the Python exceptions the code does not catch are all constructors of `dkind`) or
   a value.  Values are tracked as far as an outcome depends on them (primitive conversions,
   fixed-value validation, choice selection); a decoded object is `VObj cls params`, its
   defaults are not filled in (Model/DictCodec.v, the round-trip slice, does that).

   Relation to Model/DictCodec.v (eventgen-builder, imported read-only): same `jvalue`,
   `generics`, `find_var`, `keys_are`, `local_names_match`; DictCodec answers `EUnmodelled`
   outside the dictionaries an encoder produces, this model answers everywhere.

   The recursion is structural on the JSON value: `dec j cfg entry` is the decoder started at
   `entry` on `j`; the calls the code makes on the SAME dictionary (bind_value ->
   bind_complex_type -> bind_best_dataclass -> bind_dataclass, bind_derived_value -> ...) are
   composed without recursion from the decoders of the children (`kids`).

   Modelling decisions
   * bind_best_dataclass iterates over candidates in an unspecified (set) order and keeps the
     best score: the OUTCOME only depends on whether some candidate binds; the value returned is
     the first successful candidate in list order;
   * Python's recursion limit is not modelled (a document nested a few hundred levels deep raises
     RecursionError in json.load / DictDecoder: finding C15-F19, fault-enumerated);
   * a class missing from the universe is `KModelGap` (universes are closed);
   * the converter is the `conv` parameter of Bind.v (serialize / deserialize / test). *)
From Coq Require Import NArith ZArith List Bool.
From XV Require Import Base.Str Base.Eqb Base.PyInt Model.Bind Model.DictCodec Model.Parser.
Import ListNotations.
Open Scope N_scope.

(* ---------------------------------------------------------------- outcomes *)
Inductive dkind :=
| KParserError | KConverterError | KXmlContextError | KXmlHandlerError            (* xsdata.exceptions *)
| KTypeError | KAttributeError | KKeyError | KIndexError | KValueError | KAssertionError   (* leaked Python exceptions *)
| KModelGap.

Inductive dres (A : Type) := DOk (a : A) | DErr (k : dkind).
Arguments DOk {A} a.
Arguments DErr {A} k.

Definition dbind {A B} (r : dres A) (f : A -> dres B) : dres B :=
  match r with DOk a => f a | DErr k => DErr k end.
Notation "'dlet' x <- e ; f" := (dbind e (fun x => f)) (at level 200, x name, e at level 100, f at level 200).

Fixpoint dmap {A B} (f : A -> dres B) (l : list A) : dres (list B) :=
  match l with
  | [] => DOk []
  | x :: r => dlet y <- f x; dlet ys <- dmap f r; DOk (y :: ys)
  end.

(* errors of the XML-side helpers reused here (ParserUtils.parse_var, validate_fixed_value) *)
Definition of_errkind (k : errkind) : dkind :=
  match k with
  | ParserError => KParserError
  | ConverterError => KConverterError
  | XmlContextError => KXmlContextError
  | XmlHandlerError => KXmlHandlerError
  | PyTypeError _ => KTypeError
  | PyIndexError => KIndexError
  | PyAttributeError => KAttributeError
  | PyKeyError => KKeyError
  | PyValueError => KValueError
  | ModelGap => KModelGap
  end.
Definition of_res {A} (r : res A) : dres A :=
  match r with ROk a => DOk a | RErr k => DErr (of_errkind k) end.

(* ---------------------------------------------------------------- configuration *)
Record dconfig := mk_dconfig {
  d_fail_unknown : bool;                   (* fail_on_unknown_properties, default True *)
  d_fail_conv : bool;                      (* fail_on_converter_warnings, default False *)
  d_nodefault : list (cls * list str)      (* init fields without default, per class *)
}.
Definition with_fail_conv_d (k : dconfig) : dconfig := mk_dconfig (d_fail_unknown k) true (d_nodefault k).

(* where the decoder is started on a JSON value *)
Inductive entry :=
| EDataclass (cl : cls)                                  (* bind_dataclass(value, clazz) *)
| EValue (m : xmeta) (var : xvar) (recursive : bool)     (* bind_value(meta, var, value, recursive) *)
| EUnwrap (m : xmeta) (var : xvar)                       (* bind_value(meta, var, value[var.local_name]) *)
| EText (m : xmeta) (var : xvar)                         (* bind_text(meta, var, value) *)
| EComplex (m : xmeta) (var : xvar)                      (* bind_complex_type(meta, var, value) *)
| EBest (classes : list cls).                            (* bind_best_dataclass(value, classes) *)

Definition decoder := dconfig -> entry -> dres value.

Section Decoder.
  Variable g : generics.
  Variable c : conv.
  Variable u : universe.

  Definition d_meta (cl : cls) : dres xmeta :=
    match u_meta u cl with Some m => DOk m | None => DErr KModelGap end.

  (* -------------------------------------------------------------- leaves *)
  Definition j_is_null (j : jvalue) : bool := match j with JNull => true | _ => false end.

  (* converter.serialize(value) of one JSON scalar / of a (guarded) list *)
  Definition ser_item (j : jvalue) : dres (option str) :=
    match j with
    | JNull => DOk None
    | JStr s => DOk (Some s)
    | JBool b => DOk (Some (c_ser c None (PBool b)))
    | JInt z => DOk (Some (c_ser c None (PInt z)))
    | JFloat r => DOk (Some (c_ser c None (PFloat r)))
    | JList _ _ => DErr KTypeError                 (* unreachable behind the guard of bind_text *)
    | JDict _ => DErr KConverterError              (* "No converter registered for `dict`" *)
    end.
  Definition j_serialize (j : jvalue) : dres (option str) :=
    match j with
    | JList false l =>
        dlet ps <- dmap (fun x => dlet o <- ser_item x;
                                  match o with Some s => DOk s | None => DErr KTypeError end) l;
        DOk (Some (join [32] ps))
    | JList true _ => DErr KConverterError         (* "No converter registered for `tuple`" (never from JSON) *)
    | _ => ser_item j
    end.

  (* python type of a JSON scalar as a member of XmlVar.types *)
  Definition j_ptype (j : jvalue) : option ptype :=
    match j with
    | JBool _ => Some TBool | JInt _ => Some TInt | JFloat _ => Some TFloat | JStr _ => Some TStr
    | _ => None
    end.
  (* converter.test(value, types): False unless value is a str *)
  Definition j_test (j : jvalue) (tys : list ptype) : bool :=
    match j with JStr s => c_test c (PStr s) tys | _ => false end.

  (* XmlVar.find_value_choice(value, is_class=False) *)
  Definition find_value_choice (var : xvar) (j : jvalue) : option xvar :=
    let is_tokens := j_is_array j in
    let nillable_choice :=
      option_map snd (find (fun qe => v_nillable (snd qe) && Bool.eqb is_tokens (v_tokens (snd qe))) (v_elements var)) in
    match j with
    | JNull => nillable_choice
    | JList _ [] => nillable_choice
    | _ =>
        let tp := match j with JList _ (x :: _) => j_ptype x | _ => j_ptype j end in
        option_map snd
          (find (fun qe =>
                   let el := snd qe in
                   if v_any_type el || is_some (v_clazz el) || negb (Bool.eqb (v_tokens el) is_tokens) then false
                   else match tp with Some t => existsb (ptype_eqb t) (v_types el) | None => false end
                        || (is_tokens && match j with JList _ l => forallb (fun x => j_test x (v_types el)) l | _ => false end)
                        || j_test j (v_types el))
                (v_elements var))
    end.

  (* bind_text for a var that is not a compound field *)
  Definition bind_text_plain (cfg : dconfig) (m : xmeta) (var : xvar) (j : jvalue) : dres value :=
    if v_any_type var || v_is KWildcard var then DOk (jv_to_value j)
    else if match j with
            | JList _ l => existsb (fun x => j_is_null x || j_is_array x) l
            | _ => false
            end
    then DErr KParserError                           (* null or a list inside a tokens list *)
    else
      dlet s <- j_serialize j;
      dlet r <- of_res (Parser.parse_var c (d_fail_conv cfg) m var s [] None None);
      DOk (fst r).

  (* DictDecoder.bind_text *)
  Definition bind_text (cfg : dconfig) (m : xmeta) (var : xvar) (j : jvalue) : dres value :=
    if v_is KElements var then
      match find_value_choice var j with
      | Some choice => bind_text_plain cfg m choice j
      | None => if j_is_null j then DOk VNone else DErr KParserError
      end
    else bind_text_plain cfg m var j.

  (* config.class_factory(clazz, params) inside try/except TypeError -> ParserError *)
  Definition construct (cfg : dconfig) (cl : cls) (meta : xmeta) (params : list (str * value)) : dres value :=
    let nodef := match assocN cl (d_nodefault cfg) with Some l => l | None => [] end in
    if existsb (fun n => negb (is_some (assoc n params))) nodef then DErr KParserError
    else DOk (VObj cl params).

  (* context.find_type *)
  Definition d_find_type (q : qname) : option cls := ctx_find_type c u q.

  (* verify_derived_names: qname a str, type a str or None *)
  Definition derived_names (jq jt : jvalue) : dres (str * option str) :=
    match jq, jt with
    | JStr q, JNull => DOk (q, None)
    | JStr q, JStr t => DOk (q, Some t)
    | _, _ => DErr KParserError
    end.

  (* XmlContext.find_type_by_fields *)
  Definition name_keys (meta : xmeta) : list str :=
    map (fun var => match v_wrapper var with Some w => w | None => v_local_name var end) (get_all_vars meta).
  Fixpoint dedup_str (l : list str) : list str :=
    match l with [] => [] | x :: r => x :: filter (fun y => negb (str_eqb x y)) (dedup_str r) end.
  Fixpoint str_ltb (a b : str) : bool :=
    match a, b with
    | [], [] => false
    | [], _ :: _ => true
    | _ :: _, [] => false
    | x :: a', y :: b' => if x <? y then true else if y <? x then false else str_ltb a' b'
    end.
  Definition class_name (cl : cls) : str := match assocN cl (u_names u) with Some n => n | None => [] end.
  Definition field_diff (keys : list str) (cl : cls) : N :=
    match u_meta u cl with
    | Some meta => N.of_nat (length (filter (fun n => negb (existsb (str_eqb n) keys)) (dedup_str (name_keys meta))))
    | None => 0
    end.
  (* the minimum of (diff, name), first occurrence on ties: a stable sort's first element *)
  Definition better (keys : list str) (a b : cls) : bool :=
    let da := field_diff keys a in let db := field_diff keys b in
    (da <? db) || ((da =? db) && str_ltb (class_name a) (class_name b)).
  Definition find_type_by_fields (keys : list str) : option cls :=
    let choices := filter (local_names_match u keys) (flat_map snd (u_xsi u)) in
    fold_left (fun acc cl => match acc with
                             | None => Some cl
                             | Some best => if better keys cl best then Some cl else Some best
                             end) choices None.

  (* -------------------------------------------------------------- one dictionary, given the decoders of its values *)
  Section Dict.
    Variable m : list (str * jvalue).
    Variable kids : list (str * decoder).

    Definition kid (k : str) : decoder :=
      match assoc k kids with Some d => d | None => fun _ _ => DErr KKeyError end.

    (* the `for key, value in data.items()` loop of bind_dataclass *)
    Fixpoint bind_items (cfg : dconfig) (meta : xmeta) (vars : list xvar) (items : list (str * jvalue))
             (ks : list (str * decoder)) (acc : list (str * value)) : dres (list (str * value)) :=
      match items, ks with
      | (key, j) :: r, (_, d) :: kr =>
          match find_var vars key j with
          | None => if d_fail_unknown cfg then DErr KParserError else bind_items cfg meta vars r kr acc
          | Some var =>
              dlet v <- d cfg (match v_wrapper var with Some _ => EUnwrap meta var | None => EValue meta var false end);
              if v_init var then bind_items cfg meta vars r kr (dict_set (v_name var) v acc)
              else dlet _x <- of_res (validate_fixed c var v); bind_items cfg meta vars r kr acc
          end
      | _, _ => DOk acc
      end.

    (* bind_derived_dataclass(data, clazz) *)
    Definition dict_bind_derived_dataclass (cfg : dconfig) (cl : cls) : dres value :=
      match assoc Q_QNAME m, assoc Q_TYPE m with
      | Some jq, Some jt =>
          dlet qt <- derived_names jq jt;
          let '(q, ty) := qt in
          dlet v <- (if N.eqb cl (g_derived g) then
                       match truthy_str ty with
                       | Some t => match d_find_type t with
                                   | Some real => kid Q_VALUE cfg (EDataclass real)
                                   | None => DErr KParserError
                                   end
                       | None => DErr KParserError
                       end
                     else kid Q_VALUE cfg (EDataclass cl));
          DOk (VDerived q v ty)
      | _, _ => DErr KKeyError
      end.

    (* bind_dataclass(data, clazz) for a dictionary *)
    Definition dict_bind_dataclass (cfg : dconfig) (cl : cls) : dres value :=
      if keys_are m DERIVED_KEYS then dict_bind_derived_dataclass cfg cl
      else
        dlet meta <- d_meta cl;
        dlet params <- bind_items cfg meta (get_all_vars meta) m kids [];
        construct cfg cl meta params.

    (* DictDecoder.known_keys *)
    Definition known_keys (keys : list str) (classes : list cls) : list str :=
      filter (fun k => existsb (fun cl => match u_meta u cl with
                                          | Some meta => existsb (str_eqb k) (name_keys meta)
                                          | None => false
                                          end) classes) keys.

    (* bind_best_dataclass(data, classes): a fresh decoder with fail_on_converter_warnings,
       every exception of a candidate suppressed *)
    Definition dict_bind_best (cfg : dconfig) (classes : list cls) : dres value :=
      let keys0 := map fst m in
      let keys := if d_fail_unknown cfg then keys0 else known_keys keys0 classes in
      let cfg' := with_fail_conv_d cfg in
      match flat_map (fun cl => if local_names_match u keys cl
                                then match dict_bind_dataclass cfg' cl with DOk v => [v] | DErr _ => [] end
                                else []) classes with
      | v :: _ => DOk v
      | [] => DErr KParserError
      end.

    (* bind_complex_type(meta, var, data) *)
    Definition dict_bind_complex (cfg : dconfig) (meta : xmeta) (var : xvar) : dres value :=
      if v_is_clazz_union var then dict_bind_best cfg (class_types (v_types var))
      else if match v_elements var with [] => false | _ => true end then
        dict_bind_best cfg (dedupN (class_types (flat_map (fun qe => v_types (snd qe)) (v_elements var))))
      else if v_any_type var || v_is KWildcard var then dict_bind_best cfg (meta_element_types meta)
      else match v_clazz var with
           | None => DErr KParserError               (* an object where a primitive field expects a scalar *)
           | Some cl => match subclasses_of u cl with
                        | [] => dict_bind_dataclass cfg cl
                        | subs => dict_bind_best cfg (subs ++ [cl])
                        end
           end.

    (* bind_derived_value(meta, var, data) for a var without choices *)
    Definition dict_bind_derived_plain (cfg : dconfig) (meta : xmeta) (var : xvar) (q : str) (ty : option str) : dres value :=
      let params_is_dict := match assoc Q_VALUE m with Some (JDict _) => true | _ => false end in
      dlet v <- (if negb params_is_dict then kid Q_VALUE cfg (EText meta var)
                 else match truthy_str ty with
                      | Some t => match d_find_type t with
                                  | Some cl => kid Q_VALUE cfg (EDataclass cl)
                                  | None => DErr KParserError
                                  end
                      | None => match v_clazz var with
                                | Some _ => kid Q_VALUE cfg (EComplex meta var)
                                | None => kid Q_VALUE cfg (EBest (meta_element_types meta))
                                end
                      end);
      DOk (VDerived q v ty).

    Definition dict_bind_derived_value (cfg : dconfig) (meta : xmeta) (var : xvar) : dres value :=
      match assoc Q_QNAME m, assoc Q_TYPE m with
      | Some jq, Some jt =>
          dlet qt <- derived_names jq jt;
          let '(q, ty) := qt in
          match v_elements var with
          | [] => dict_bind_derived_plain cfg meta var q ty
          | _ => match find_choice var q with
                 | None => DErr KParserError
                 | Some choice =>
                     (* the recursive call re-reads and re-verifies the same names *)
                     match v_elements choice with
                     | [] => dict_bind_derived_plain cfg meta choice q ty
                     | _ => DErr KModelGap           (* a choice with choices of its own does not exist *)
                     end
                 end
          end
      | _, _ => DErr KKeyError
      end.

    (* bind_value(meta, var, value, recursive) for a dictionary *)
    Definition dict_bind_value (cfg : dconfig) (meta : xmeta) (var : xvar) : dres value :=
      if v_is KAttributes var then
        DOk (VMap (map (fun kv => (fst kv, match snd kv with JStr s => s | _ => [] end)) m))
      else if keys_are m ANY_KEYS then dict_bind_dataclass cfg (g_any g)
      else if keys_are m DERIVED_KEYS then dict_bind_derived_value cfg meta var
      else dict_bind_complex cfg meta var.

    Definition run_dict (cfg : dconfig) (e : entry) : dres value :=
      match e with
      | EDataclass cl => dict_bind_dataclass cfg cl
      | EValue meta var _ => dict_bind_value cfg meta var
      | EUnwrap meta var => kid (v_local_name var) cfg (EValue meta var false)
      | EText meta var => bind_text cfg meta var (JDict m)     (* not called by the code on a dict *)
      | EComplex meta var => dict_bind_complex cfg meta var
      | EBest classes => dict_bind_best cfg classes
      end.
  End Dict.

  (* -------------------------------------------------------------- a list, given the decoders of its items *)
  Definition run_list (t : bool) (l : list jvalue) (items : list decoder) (cfg : dconfig) (e : entry) : dres value :=
    match e with
    | EDataclass _ => DErr KParserError              (* "Unable to bind `list` value ..., expected object" *)
    | EValue meta var recursive =>
        if v_is KAttributes var then DErr KParserError
        else if negb recursive && v_list_element var then
          dlet vs <- dmap (fun d : decoder => d cfg (EValue meta var true)) items;
          DOk (VList (is_tuple_f (v_factory var)) vs)
        else bind_text cfg meta var (JList t l)
    | EUnwrap _ _ => DErr KTypeError                 (* unreachable: find_var matched a wrapper dictionary *)
    | EText meta var => bind_text cfg meta var (JList t l)
    | EComplex _ _ | EBest _ => DErr KAttributeError (* unreachable: only called on dictionaries *)
    end.

  (* -------------------------------------------------------------- a scalar or null *)
  Definition run_atom (j : jvalue) (cfg : dconfig) (e : entry) : dres value :=
    match e with
    | EDataclass _ => DErr KParserError
    | EValue meta var _ =>
        if v_is KAttributes var then DErr KParserError else bind_text cfg meta var j
    | EUnwrap _ _ => DErr KTypeError
    | EText meta var => bind_text cfg meta var j
    | EComplex _ _ | EBest _ => DErr KAttributeError
    end.

  (* -------------------------------------------------------------- the decoder of a JSON value *)
  Fixpoint dec (j : jvalue) {struct j} : decoder :=
    match j with
    | JDict m =>
        let kids := (fix kl (l : list (str * jvalue)) : list (str * decoder) :=
                       match l with
                       | [] => []
                       | (k, x) :: r => (k, dec x) :: kl r
                       end) m in
        run_dict m kids
    | JList t l =>
        let items := (fix il (l : list jvalue) : list decoder :=
                        match l with [] => [] | x :: r => dec x :: il r end) l in
        run_list t l items
    | _ => run_atom j
    end.

  (* -------------------------------------------------------------- DictDecoder.decode(data, clazz) *)
  Definition j_falsy (j : jvalue) : bool :=
    match j with
    | JNull | JBool false | JStr [] | JList _ [] | JDict [] => true
    | JInt z => Z.eqb z 0
    | JFloat r => zero_mantissa r
    | _ => false
    end.

  Definition detect_type (j : jvalue) : dres cls :=
    if j_falsy j then DErr KParserError
    else
      let first := match j with JList _ (x :: _) => x | _ => j end in
      match first with
      | JDict m => match find_type_by_fields (map fst m) with
                   | Some cl => DOk cl
                   | None => DErr KParserError
                   end
      | _ => DErr KParserError
      end.

  (* clazz = None | a model class (is_list false) | list[model] (is_list true) *)
  Definition decode (cfg : dconfig) (clazz : option cls) (is_list : bool) (j : jvalue) : dres value :=
    dlet tp <- match clazz with
               | None => detect_type j
               | Some cl => if Bool.eqb is_list (j_is_array j) then DOk cl else DErr KParserError
               end;
    match j with
    | JList _ l => dlet vs <- dmap (fun x => dec x cfg (EDataclass tp)) l; DOk (VList false vs)
    | _ => dec j cfg (EDataclass tp)
    end.
End Decoder.
