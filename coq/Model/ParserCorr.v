(* Model/ParserCorr.v — agreement predicates (model <-> implementation) and the C10 / C15
   oracles evaluated in Coq on the implementation's observed outcomes.  Used by the
   generated case files of harness/c10.py and harness/c15.py. *)
From Coq Require Import NArith ZArith List Bool.
From XV Require Import Base.Str Base.Eqb Base.PyInt Model.Bind Model.Parser Spec.Inject.
Import ListNotations.
Open Scope N_scope.

Definition tsite_eqb (a b : tsite) : bool :=
  match a, b with
  | TMissingArg, TMissingArg | TUnexpectedKw, TUnexpectedKw
  | TBytesWrapper, TBytesWrapper | TNoneQname, TNoneQname => true
  | _, _ => false
  end.

Definition errkind_eqb (a b : errkind) : bool :=
  match a, b with
  | ParserError, ParserError | ConverterError, ConverterError | XmlContextError, XmlContextError
  | XmlHandlerError, XmlHandlerError | PyIndexError, PyIndexError | PyAttributeError, PyAttributeError
  | PyKeyError, PyKeyError | PyValueError, PyValueError | ModelGap, ModelGap => true
  | PyTypeError s, PyTypeError t => tsite_eqb s t
  | _, _ => false
  end.

Definition warning_eqb (a b : warning) : bool :=
  match a, b with
  | WConv c f, WConv c' f' => N.eqb c c' && str_eqb f f'
  | WUnassigned q, WUnassigned q' => ostr_eqb q q'
  | _, _ => false
  end.

(* the implementation's ConverterWarnings and logger lines are captured by two different
   channels: their relative order is not observable; each channel's own order is *)
Definition is_conv_warning (w : warning) : bool := match w with WConv _ _ => true | _ => false end.
Definition warnings_eqb (a b : list warning) : bool :=
  list_eqb warning_eqb (filter is_conv_warning a) (filter is_conv_warning b)
  && list_eqb warning_eqb (filter (fun w => negb (is_conv_warning w)) a) (filter (fun w => negb (is_conv_warning w)) b).

Definition outcome_eqb (a b : outcome) : bool :=
  match a, b with
  | Ok v ws, Ok v' ws' => value_eqb v v' && warnings_eqb ws ws'
  | Err k, Err k' => errkind_eqb k k'
  | _, _ => false
  end.

(* ---------------------------------------------------------------- correspondence *)
Definition corr_case := (pconfig * conv_table * universe * option cls * list pevent * outcome)%type.

(* every XmlVar of a class: fields, compound-field choices and their wildcards *)
Definition deep_vars (m : xmeta) : list xvar :=
  get_all_vars m
  ++ flat_map (fun v => map snd (v_elements v) ++ v_wildcards v) (m_choices m ++ m_wildcards m).
Definition has_union (u : universe) : bool :=
  existsb (fun cm => existsb v_is_clazz_union (deep_vars (snd cm))) (u_metas u).

(* slice F4 limitation: the logger lines emitted inside the replays of a UnionNode (also by
   candidates that fail or lose) are not modelled; for universes with a union field only the
   ConverterWarnings are compared *)
Definition outcome_eqb_nolog (a b : outcome) : bool :=
  match a, b with
  | Ok v ws, Ok v' ws' => value_eqb v v' && list_eqb warning_eqb (filter is_conv_warning ws) (filter is_conv_warning ws')
  | Err k, Err k' => errkind_eqb k k'
  | _, _ => false
  end.

Definition agree_parse (x : corr_case) : bool :=
  let '(cfg, t, u, root, evs, obs) := x in
  (if has_union u then outcome_eqb_nolog else outcome_eqb) (parse cfg (conv_of_table t) u root evs) obs.

(* ---------------------------------------------------------------- C15 oracle *)
Definition documented (k : errkind) : bool :=
  match k with
  | ParserError | ConverterError | XmlContextError | XmlHandlerError => true
  | _ => false
  end.
Definition outcome_documented (o : outcome) : bool :=
  match o with Ok _ _ => true | Err k => documented k end.

(* observed outcome only *)
Definition oracle_documented (x : corr_case) : bool :=
  let '(_, _, _, _, _, obs) := x in outcome_documented obs.

(* narrow classes for undocumented outcomes: which modelled defect the faithful model goes
   through on this very stream *)
Definition model_errkind (x : corr_case) : option errkind :=
  let '(cfg, t, u, root, evs, _) := x in
  match parse cfg (conv_of_table t) u root evs with Err k => Some k | Ok _ _ => None end.
Definition model_fails_with (k : errkind) (x : corr_case) : bool :=
  match model_errkind x with Some k' => errkind_eqb k k' | None => false end.
(* `negb (model_fails_with k x)` is true when the case is NOT explained by k: bad_idx of that
   predicate lists the cases that are *)
Definition not_explained_by (k : errkind) (x : corr_case) : bool := negb (model_fails_with k x).

(* ---------------------------------------------------------------- C10: admissible injections *)
(* the innermost open element after the prefix swallows a child named q: it is bound to a
   class for which q is unknown (directly or inside one of its wrapper elements), or it is
   itself being skipped *)
Definition skips_child (st : pstate) (q : qname) : bool :=
  match st_queue st with
  | NSkip :: _ => true
  | NElement en :: _ => unknown_child (en_meta en) None q
  | NWrapper wq :: NElement en :: _ => unknown_child (en_meta en) (Some wq) q
  | _ => false
  end.

(* a scalar (non-list) wildcard field receives, with the element's text, ALL attributes of
   the element (ElementNode.bind_wild_text): unknown attributes are not dropped there *)
Definition attrs_not_captured (m : xmeta) : bool :=
  match find_any_wildcard m with None => true | Some w => v_list_element w end.

(* the element whose start event was just consumed drops the attribute a *)
Definition drops_attr (cfg : pconfig) (st : pstate) (a : qname) : bool :=
  negb (str_eqb a XSI_TYPE) && negb (str_eqb a XSI_NIL)
  && match st_queue st with
     | NSkip :: _ => true
     | NElement en :: _ =>
         unknown_attr (en_meta en) a && attrs_not_captured (en_meta en)
         && (negb (fail_unknown_attrs cfg) || in_xsi_namespace a)
     | _ => false
     end.

Definition admissible_step (n : nat) (cfg : pconfig) (c : conv) (u : universe) (root : option cls)
           (d' : list pevent) (s : undo) : bool :=
  match s with
  | UndoSub i k =>
      let sub := injected_block d' i k in
      negb (fail_unknown_props cfg) && is_tree sub && (i + k <=? length d')%nat
      && match tree_root sub, run_n n cfg c u root (firstn i d') with
         | Some q, ROk st => skips_child st q
         | _, _ => false
         end
  | UndoAttr i k =>
      match nth_error d' i with
      | Some (PStart _ attrs _) =>
          match nth_error attrs k, run_n n cfg c u root (firstn (S i) d') with
          | Some (a, _), ROk st => drops_attr cfg st a
          | _, _ => false
          end
      | _ => false
      end
  end.

(* ---------------------------------------------------------------- C10 oracle *)
(* injected stream + the list of single injections to undo (last applied first) + outcome
   observed on the injected stream + outcome observed on the plain stream *)
Definition c10_case := (pconfig * conv_table * universe * option cls * list pevent * list undo * outcome * outcome)%type.

(* hypotheses of C10_skip_transparent evaluated with the theorem's own definitions: every
   step is an admissible injection w.r.t. the binding of its prefix *)
Fixpoint undo_admissible (n : nat) (cfg : pconfig) (c : conv) (u : universe) (root : option cls)
         (d' : list pevent) (steps : list undo) : option (list pevent) :=
  match steps with
  | [] => Some d'
  | s :: rest =>
      match undo_step d' s with
      | Some d => if admissible_step n cfg c u root d' s then undo_admissible n cfg c u root d rest else None
      | None => None
      end
  end.

Definition c10_guard (x : c10_case) : bool :=
  let '(cfg, t, u, root, d', steps, _, _) := x in
  match undo_admissible (length d') cfg (conv_of_table t) u root d' steps with Some _ => true | None => false end.
Definition c10_no_guard (x : c10_case) : bool := negb (c10_guard x).

(* conclusion: the two observed outcomes are equal (when the hypotheses hold) *)
Definition oracle_transparent (x : c10_case) : bool :=
  let '(_, _, _, _, _, _, obs_inj, obs_plain) := x in
  if c10_guard x then outcome_eqb obs_inj obs_plain else true.

(* the plain stream recomputed in Coq by undoing the injections parses, in the model, to the
   plain observation: ties the harness's injection bookkeeping to the real streams *)
Definition agree_plain (x : c10_case) : bool :=
  let '(cfg, t, u, root, d', steps, _, obs_plain) := x in
  match undo_admissible (length d') cfg (conv_of_table t) u root d' steps with
  | Some d => outcome_eqb (parse cfg (conv_of_table t) u root d) obs_plain
  | None => true
  end.

(* strict setting: one unknown element at a class-bound position makes parsing fail with a
   parser error *)
Definition strict_position (n : nat) (cfg : pconfig) (c : conv) (u : universe) (root : option cls)
           (d' : list pevent) (i k : nat) : bool :=
  let sub := injected_block d' i k in
  fail_unknown_props cfg && is_tree sub
  && match tree_root sub, run_n n cfg c u root (firstn i d') with
     | Some q, ROk st =>
         match st_queue st with
         | NElement en :: _ => unknown_child (en_meta en) None q
         | NWrapper wq :: NElement en :: _ => unknown_child (en_meta en) (Some wq) q
         | _ => false
         end
     | _, _ => false
     end.
Definition oracle_strict (x : c10_case) : bool :=
  let '(cfg, t, u, root, d', steps, obs_inj, _) := x in
  match steps with
  | [UndoSub i k] =>
      if strict_position (length d') cfg (conv_of_table t) u root d' i k
      then outcome_eqb obs_inj (Err ParserError) else true
  | _ => true
  end.

(* ---------------------------------------------------------------- the FULL statement (refuted) *)
(* C10 as worded: every unknown attribute is dropped -- admissibility without the clause
   `attrs_not_captured`.  Refuted (Properties/C10.v C10_unknown_attribute_dropped_refuted); the
   oracle evaluates it to classify failures that go through exactly that clause *)
Definition drops_attr_full (cfg : pconfig) (st : pstate) (a : qname) : bool :=
  negb (str_eqb a XSI_TYPE) && negb (str_eqb a XSI_NIL)
  && match st_queue st with
     | NSkip :: _ => true
     | NElement en :: _ =>
         unknown_attr (en_meta en) a && (negb (fail_unknown_attrs cfg) || in_xsi_namespace a)
     | _ => false
     end.
Definition admissible_step_full (n : nat) (cfg : pconfig) (c : conv) (u : universe) (root : option cls)
           (d' : list pevent) (s : undo) : bool :=
  match s with
  | UndoSub _ _ => admissible_step n cfg c u root d' s
  | UndoAttr i k =>
      match nth_error d' i with
      | Some (PStart _ attrs _) =>
          match nth_error attrs k, run_n n cfg c u root (firstn (S i) d') with
          | Some (a, _), ROk st => drops_attr_full cfg st a
          | _, _ => false
          end
      | _ => false
      end
  end.
Fixpoint undo_admissible_full (n : nat) (cfg : pconfig) (c : conv) (u : universe) (root : option cls)
         (d' : list pevent) (steps : list undo) : bool :=
  match steps with
  | [] => true
  | s :: rest =>
      match undo_step d' s with
      | Some d => admissible_step_full n cfg c u root d' s && undo_admissible_full n cfg c u root d rest
      | None => false
      end
  end.

(* ---------------------------------------------------------------- one-pass evaluation used by the harness *)
(* bit 0: model and implementation disagree on the injected stream; bit 1: hypotheses of
   C10_skip_transparent hold and the observed outcomes differ; bit 2: the stream obtained by undoing
   the injections does not parse (in the model) to the plain observation; bit 3: strict position and
   the observed outcome is not ParserError; bit 4 (coverage): hypotheses hold; bit 5 (coverage): strict
   position; bit 6: the FULL (refuted) statement's hypotheses hold, the proved one's do not, and
   the observed outcomes differ (the failure goes through the clause attrs_not_captured) *)
Definition c10_code (x : c10_case) : N :=
  let '(cfg, t, u, root, d', steps, obs_inj, obs_plain) := x in
  let c := conv_of_table t in
  let eqb := if has_union u then outcome_eqb_nolog else outcome_eqb in
  let corr := eqb (parse cfg c u root d') obs_inj in
  let adm := undo_admissible (length d') cfg c u root d' steps in
  let guard := match adm with Some _ => true | None => false end in
  let plain_ok := match adm with Some d => eqb (parse cfg c u root d) obs_plain | None => true end in
  let strict := match steps with
                | [UndoSub i k] => strict_position (length d') cfg c u root d' i k
                | _ => false
                end in
  (if corr then 0 else 1)
  + (if guard && negb (eqb obs_inj obs_plain) then 2 else 0)
  + (if plain_ok then 0 else 4)
  + (if strict && negb (outcome_eqb obs_inj (Err ParserError)) then 8 else 0)
  + (if guard then 16 else 0)
  + (if strict then 32 else 0)
  + (if negb guard && undo_admissible_full (length d') cfg c u root d' steps && negb (eqb obs_inj obs_plain)
     then 64 else 0).

(* conversion matrix on observed outcomes: same stream, same unknown-* options, conversion
   warnings not failing / failing *)
Definition has_conv_warning (o : outcome) : bool :=
  match o with Ok _ ws => existsb is_conv_warning ws | Err _ => false end.
Definition oracle_conversion (x : outcome * outcome) : bool :=
  let '(nofail, fail) := x in
  match nofail with
  | Ok _ _ => if has_conv_warning nofail then outcome_eqb fail (Err ParserError) else outcome_eqb fail nofail
  | Err _ => true
  end.
Definition oracle_same (x : outcome * outcome) : bool := outcome_eqb (fst x) (snd x).

(* the same for the dictionary decoder, where "cannot be converted" is the verdict of the real
   converter on the text the decoder derives from the JSON value: an unconvertible value must
   show as a conversion warning (or an error) without fail_on_converter_warnings and as an error
   with it; in both cases the two runs must be consistent *)
Definition oracle_json_conversion (x : bool * outcome * outcome) : bool :=
  let '(unconvertible, nofail, fail) := x in
  oracle_conversion (nofail, fail)
  && (if unconvertible
      then match nofail with Ok _ _ => has_conv_warning nofail | Err _ => true end
           && match fail with Ok _ _ => false | Err _ => true end
      else true).

(* bit 0: model and implementation disagree; bit 1: the observed outcome is not documented
   (the guard bits of the C15 theorem are added by Proofs/ParserDoc.v: c15_code_guarded) *)
Definition c15_code (x : corr_case) : N :=
  let '(_, _, _, _, _, obs) := x in
  (if agree_parse x then 0 else 1) + (if outcome_documented obs then 0 else 2).
