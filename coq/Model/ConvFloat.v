(* Model/ConvFloat.v — FloatConverter.  CPython's binary<->decimal conversions
   (repr / float()) are NOT re-implemented: the model is parametrised by a record
   CPythonFloat of explicit hypotheses about them, and models only the text side:
   the syntax float(str) accepts (PyFloat_FromString: Unicode digits/spaces to
   ASCII, underscore rule, ASCII whitespace strip, _PyOS_ascii_strtod grammar) as
   a function to an exact decimal reading, and the string post-processing of
   FloatConverter.serialize.  No proofs here. *)
From Coq Require Import NArith ZArith List Bool.
From XV Require Import Base.Str Base.Dec Base.PyInt Gen.ConvTables Model.ConvDecimal.
Import ListNotations.
Open Scope N_scope.

(* what a numeric string says, before any rounding *)
Inductive fsyn :=
| FsFin (neg : bool) (coeff : N) (exp : Z)     (* (-1)^neg * coeff * 10^exp *)
| FsInf (neg : bool)
| FsNan (neg : bool).

(* _PyUnicode_TransformDecimalAndSpaceToASCII *)
Definition float_map_char (c : N) : N :=
  if c <=? 127 then c
  else if py_isspace c then 32
  else match nd_value c with Some d => 48 + d | None => 63 end.

(* _Py_string_to_number_with_underscores: '_' only between two digits *)
Fixpoint strip_underscores (prev : N) (s : str) : option str :=
  match s with
  | [] => if prev =? 95 then None else Some []
  | c :: r =>
      if c =? 95 then
        if is_ascii_digit prev then strip_underscores c r else None
      else if (prev =? 95) && negb (is_ascii_digit c) then None
      else option_map (cons c) (strip_underscores c r)
  end.

(* Py_ISSPACE *)
Definition c_isspace (c : N) : bool := ((9 <=? c) && (c <=? 13)) || (c =? 32).

(* _PyOS_ascii_strtod on the whole remaining string *)
Definition float_parse_ascii (s : str) : option fsyn :=
  let '(neg, r) := split_pm s in
  if starts_ci [105;110;102] r then
    let t := skipn 3 r in
    if (length t =? 0)%nat || eq_ci [105;110;105;116;121] t then Some (FsInf neg) else None
  else if eq_ci [110;97;110] r then Some (FsNan neg)
  else match scan_number r with
       | Some (ds, e) => Some (FsFin neg (str_val ds) e)
       | None => None
       end.

(* the reading float(s) gives to s; None = ValueError *)
Definition float_syntax (s : str) : option fsyn :=
  let t := map float_map_char s in
  match (if mem 95 t then strip_underscores 0 t else Some t) with
  | None => None
  | Some u =>
      match strip_by c_isspace u with
      | [] => None
      | v => float_parse_ascii v
      end
  end.

(* str.upper() on the characters repr() can produce *)
Definition str_upper (s : str) : str := map ascii_upper s.

(* how FloatConverter.serialize classifies its argument: math.isnan(x),
   x == float("inf"), x == -float("inf"), otherwise finite *)
Inductive fclass := FcFinite | FcPosInf | FcNegInf | FcNaN.

Section WithCPython.
  (* the part of CPython that is assumed, not modelled; the hypotheses about it
     are the record CPythonFloat of Proofs/ConvFloat.v *)
  Variable F : Type.                       (* binary64 values *)
  Variable fclass_of : F -> fclass.
  Variable frepr : F -> str.               (* repr(x) *)
  Variable fround : fsyn -> F.             (* correctly rounded decimal -> binary64 *)

  (* FloatConverter.deserialize: float(value) *)
  Definition float_deser (s : str) : option F := option_map fround (float_syntax s).

  (* FloatConverter.serialize *)
  Definition float_ser (x : F) : str :=
    match float_ser_consts with
    | [s_nan; s_inf; s_ninf; e_from; e_to] =>
        match fclass_of x with
        | FcNaN => s_nan
        | FcPosInf => s_inf
        | FcNegInf => s_ninf
        | FcFinite => str_replace e_from e_to (str_upper (frepr x))
        end
    | _ => []
    end.
End WithCPython.
