(* Model/ConvFactory.v — ConverterFactory: the registry, sort_types (type priority),
   deserialize over a list of candidate types, serialize. No proofs here.

   Python types are named: TName "int" is the builtin/registered class of that
   name, TEnum k a user Enum subclass (k indexes the enumeration environment),
   TUnreg k a class for which no converter is registered. *)
From Coq Require Import NArith ZArith List Bool String Ascii.
From XV Require Import Base.Str Gen.ConvTables.
Import ListNotations.
Open Scope N_scope.

(* ASCII literal -> str *)
Definition lit (s : string) : str := map N_of_ascii (list_ascii_of_string s).

Inductive pytype := TName (n : str) | TEnum (k : nat) | TUnreg (k : nat).

Definition pytype_eqb (a b : pytype) : bool :=
  match a, b with
  | TName x, TName y => str_eqb x y
  | TEnum x, TEnum y => Nat.eqb x y
  | TUnreg x, TUnreg y => Nat.eqb x y
  | _, _ => false
  end.

Fixpoint assoc {B} (k : str) (l : list (str * B)) : option B :=
  match l with
  | [] => None
  | (k', v) :: r => if str_eqb k' k then Some v else assoc k r
  end.

(* __PYTHON_TYPES_SORTED__.get(x, 0) *)
Definition sort_key (t : pytype) : Z :=
  match t with
  | TName n => match assoc n py_types_sorted with Some k => k | None => sort_default_key end
  | _ => sort_default_key
  end.

(* sorted(types, key=...) : Python's sort is stable; the result is the stable
   sort, computed here by insertion from the right *)
Fixpoint insert_by (t : pytype) (l : list pytype) : list pytype :=
  match l with
  | [] => [t]
  | x :: r => if (sort_key t <=? sort_key x)%Z then t :: l else x :: insert_by t r
  end.

Definition sort_types (l : list pytype) : list pytype :=
  if (List.length l <? 2)%nat then l else fold_right insert_by [] l.

(* ConverterFactory.deserialize: the first type, in the given order, whose
   converter exists and does not raise ConverterError; conv t s = None stands for
   "no converter registered" as well as for ConverterError *)
Section Generic.
  Context {V : Type}.
  Variable conv : pytype -> str -> option V.

  Fixpoint deserialize_gen (s : str) (types : list pytype) : option (pytype * V) :=
    match types with
    | [] => None
    | t :: r => match conv t s with
                | Some v => Some (t, v)
                | None => deserialize_gen s r
                end
    end.
End Generic.

(* type_converter: the registered converter expression for a type.  Enum
   subclasses reach the entry of Enum through their MRO; a class with only
   `object` above it has no converter (object itself is skipped by [1:-1]). *)
Definition type_converter (t : pytype) : option str :=
  match t with
  | TName n => assoc n registered_converters
  | TEnum _ => assoc (lit "Enum") registered_converters
  | TUnreg _ => None
  end.
