(* Model/SampleCorr.v — boolean predicates of property C13, used both by the generated case
   files of harness/c13.py and by the statements of Properties/C13.v:
     * agreement of Model/Sample.v with the real mappers (correspondence),
     * `tree_fits` / `json_fits`: "every part of every sample node has a slot in the merged class"
       (the statement of samples_fit / attrs_fit; also evaluated on the REAL reduce_classes output),
     * the clauses of `regular` (the stated side condition), one per refutation,
     * the per-program validator on the REAL binding metadata (Spec/Cm.v slot assignment per node),
     * the round-trip verdicts (XML infoset via Spec/Infoset.v, JSON modulo key order / nulls).
   No proofs here. *)
From Coq Require Import NArith ZArith List Bool PrimFloat.
From XV Require Import Base.Str Base.Eqb Base.PyInt Gen.SampleTables Model.Sample Spec.Cm Spec.Infoset.
Import ListNotations.
Open Scope N_scope.

(* ------------------------------------------------------------------ correspondence *)
Definition types_eqb := list_eqb atype_eqb.

Definition attr_full_eqb (a b : attr) : bool :=
  attr_eqb a b && types_eqb (a_types a) (a_types b) && N.eqb (a_min a) (a_min b) && N.eqb (a_max a) (a_max b)
  && N.eqb (a_seq a) (a_seq b) && Nat.eqb (a_index a) (a_index b).

Definition fclass_eqb (a b : fclass) : bool :=
  str_eqb (c_qname a) (c_qname b) && ostr_eqb (c_ns a) (c_ns b) && Bool.eqb (c_mixed a) (c_mixed b)
  && Bool.eqb (c_nillable a) (c_nillable b) && list_eqb attr_full_eqb (c_attrs a) (c_attrs b).

Definition classes_eqb := list_eqb fclass_eqb.

(* (recorded converter tests, samples, observed ElementMapper.map per sample, observed reduce_classes) *)
Definition agree_xml_mapped (c : list (str * list bool) * list tree * list (list fclass)) : bool :=
  let '(tbl, samples, obs) := c in
  list_eqb classes_eqb (map (map_tree (sconv_of_table tbl)) samples) obs.

(* reduce_classes run by the model on the OBSERVED mapper output (so that one divergence is reported once) *)
Definition agree_reduced (c : list (list fclass) * list fclass) : bool :=
  let '(mapped, obs) := c in classes_eqb (reduce_classes (concat mapped)) obs.

Definition agree_json_mapped (c : list (str * list bool) * str * list json * list (list fclass)) : bool :=
  let '(tbl, name, samples, obs) := c in
  list_eqb classes_eqb (map (map_json (sconv_of_table tbl) name) samples) obs.

(* ------------------------------------------------------------------ "fits": the statement of samples_fit *)
Definition key_attr (tag name : str) (ns : option str) : attr := mk_attr tag name ns [] 0 0 0 O.

Definition find_class (cs : list fclass) (q : str) : option fclass := find (fun c => str_eqb (c_qname c) q) cs.
Definition find_attr (c : fclass) (k : attr) : option attr := find (fun a => attr_eqb a k) (c_attrs c).

(* the key build_attr gives to a child element / attribute named q of a class whose namespace is cns *)
Definition part_key (tag : str) (cns : option str) (q : str) : attr :=
  let '(ns, name) := split_qname q in key_attr tag name (select_namespace ns cns tag) .

Definition named (k : tree) : bool := match t_qn k with [] => false | _ => true end.

Definition count_key (cns : option str) (key : attr) (kids : list tree) : nat :=
  length (filter (fun k => named k && attr_eqb (part_key tag_ELEMENT cns (t_qn k)) key) kids).

Definition is_list (a : attr) : bool := 1 <? a_max a.

(* the class namespace build_class computes for a node *)
Definition class_ns (parent_ns : option str) (n : tree) : option str :=
  select_namespace (fst (split_qname (t_qn n))) parent_ns tag_ELEMENT.
Definition class_qname (parent_ns : option str) (n : tree) : str :=
  build_qname (class_ns parent_ns n) (snd (split_qname (t_qn n))).

Definition node_mixed (n : tree) : bool :=
  existsb (fun k => named k && truthy (t_tail k)) (t_kids n)
  || (truthy (t_text n) && existsb named (t_kids n)).

Definition xsi_nil_of (n : tree) : option bool :=
  match find (fun kv => str_eqb (fst kv) qn_xsi_nil) (rev (t_atts n)) with
  | Some (_, v) => Some (is_nil_true v)
  | None => None
  end.

(* the parts of node n, as attr keys *)
Definition node_part_keys (cns : option str) (n : tree) : list attr :=
  map (fun kv => part_key tag_ATTRIBUTE cns (fst kv)) (filter (fun kv => negb (str_eqb (fst kv) qn_xsi_nil)) (t_atts n))
  ++ map (fun k => part_key tag_ELEMENT cns (t_qn k)) (filter named (t_kids n))
  ++ (if truthy (t_text n) then [key_attr tag_SIMPLE_TYPE text_attr_name None] else []).

Definition node_fits (cs : list fclass) (parent_ns : option str) (n : tree) : bool :=
  let cns := class_ns parent_ns n in
  match find_class cs (class_qname parent_ns n) with
  | None => false
  | Some c =>
      (* every child element has a slot, repeated children a list slot *)
      forallb (fun k => negb (named k) ||
                 match find_attr c (part_key tag_ELEMENT cns (t_qn k)) with
                 | Some a => (count_key cns a (t_kids n) <=? 1)%nat || is_list a
                 | None => false
                 end) (t_kids n)
      (* every attribute and the text have a slot *)
      && forallb (fun k => match find_attr c k with Some _ => true | None => false end) (node_part_keys cns n)
      (* parts of the class that this node does not have are optional *)
      && forallb (fun a => existsb (attr_eqb a) (node_part_keys cns n) || (a_min a =? 0)) (c_attrs c)
      (* text between / after children needs a mixed class *)
      && (negb (node_mixed n) || c_mixed c)
  end.

(* nodes that get a class: the root and every descendant with attributes or children *)
Fixpoint tree_all (f : option str -> tree -> bool) (parent_ns : option str) (n : tree) : bool :=
  f parent_ns n &&
  (fix go (ks : list tree) : bool :=
     match ks with
     | [] => true
     | k :: r => (if named k && has_content k then tree_all f (class_ns parent_ns n) k else true) && go r
     end) (t_kids n).

Definition root_ns (t : tree) : option str := fst (split_qname (t_qn t)).

Definition tree_fits (cs : list fclass) (t : tree) : bool := tree_all (node_fits cs) (root_ns t) t.

(* --- nillable: the class of a node that says xsi:nil="true" is nillable (holds since fix 359d494: nillable is merged like mixed) *)
Definition node_nil_ok (cs : list fclass) (parent_ns : option str) (n : tree) : bool :=
  match xsi_nil_of n, find_class cs (class_qname parent_ns n) with
  | Some b, Some c => Bool.eqb (c_nillable c) b || negb b
  | Some _, None => false
  | None, _ => true
  end.
Definition tree_nil_ok (cs : list fclass) (t : tree) : bool := tree_all (node_nil_ok cs) (root_ns t) t.

(* ------------------------------------------------------------------ JSON analogue *)
(* build_attr(target, name, ...) splits the JSON key like a qualified name: no namespace for ordinary keys *)
Definition jkey (name : str) : attr := part_key tag_ELEMENT None name.

Definition json_parts (fs : list (str * json)) : list attr := map (fun kv => jkey (fst kv)) fs.

Fixpoint json_fits (cs : list fclass) (name : str) (v : json) {struct v} : bool :=
  match v with
  | JObj fs =>
      match find_class cs name with
      | None => false
      | Some c =>
          forallb (fun a => existsb (attr_eqb a) (json_parts fs) || (a_min a =? 0)) (c_attrs c)
          && (fix fields (fs : list (str * json)) : bool :=
                match fs with
                | [] => true
                | (k, x) :: r =>
                    match find_attr c (jkey k) with
                    | None => false
                    | Some a =>
                        (match x with JList _ => is_list a | JNull => a_min a =? 0 | _ => true end)
                        && json_fits cs k x
                    end && fields r
                end) fs
      end
  | JList l => (fix each (l : list json) : bool := match l with [] => true | x :: r => json_fits cs name x && each r end) l
  | _ => true
  end.

(* ------------------------------------------------------------------ the clauses of `regular` *)
(* reduce_classes without cleanup_class: the types as inferred, before filter_types *)
Definition reduce_group_raw (g : list fclass) : option fclass :=
  match g with
  | [] => None
  | first :: _ => Some (mk_fclass (c_qname first) (group_ns g first) (existsb c_mixed g) (existsb c_nillable g)
                                  (reduce_attributes (map c_attrs g)))
  end.
Definition reduce_classes_raw (cs : list fclass) : list fclass :=
  flat_map (fun g => match reduce_group_raw (snd g) with Some c => [c] | None => [] end) (group_by_qname cs).

Definition is_any_simple (t : atype) : bool := ty_native t && str_eqb (ty_qname t) DT_ANY_SIMPLE_TYPE.

Definition has_class_type (a : attr) : bool := existsb (fun t => negb (ty_native t)) (a_types a).
Definition has_valued_native (a : attr) : bool := existsb (fun t => ty_native t && negb (is_any_simple t)) (a_types a).

(* per class node: the raw merged attr of each named child *)
Definition node_children_ok (raw : list fclass) (p : tree -> attr -> bool) (parent_ns : option str) (n : tree) : bool :=
  let cns := class_ns parent_ns n in
  match find_class raw (class_qname parent_ns n) with
  | None => true
  | Some c => forallb (fun k => negb (named k) ||
                         match find_attr c (part_key tag_ELEMENT cns (t_qn k)) with Some a => p k a | None => true end) (t_kids n)
  end.

(* g_kind_empty: an empty leaf element is not a complex element elsewhere (same field, or any class of that name:
   an anySimpleType field is bound by looking the element name up among all generated classes) *)
Definition doc_kind_empty_ok (raw : list fclass) (t : tree) : bool :=
  tree_all (fun parent_ns n =>
              node_children_ok raw (fun k a => has_content k || truthy (t_text k) ||
                                               (negb (has_class_type a) &&
                                                match find_class raw (class_qname (class_ns parent_ns n) k) with
                                                | Some _ => false | None => true end)) parent_ns n) (root_ns t) t.

(* g_kind_leaf: a valued leaf is not a complex element elsewhere (e.g. a bare xsi:nil) and vice versa *)
Definition doc_kind_leaf_ok (raw : list fclass) (t : tree) : bool :=
  tree_all (node_children_ok raw (fun k a => if has_content k then negb (has_valued_native a)
                                             else negb (truthy (t_text k)) || negb (has_class_type a))) (root_ns t) t.

(* g_nil_present: an element whose class is nillable is present in every node of its parent *)
Definition node_nil_present_ok (cs : list fclass) (parent_ns : option str) (n : tree) : bool :=
  let cns := class_ns parent_ns n in
  match find_class cs (class_qname parent_ns n) with
  | None => true
  | Some c =>
      forallb (fun a =>
        negb (str_eqb (a_tag a) tag_ELEMENT) || existsb (attr_eqb a) (node_part_keys cns n) ||
        negb (existsb (fun t => negb (ty_native t) &&
                        match find_class cs (ty_qname t) with Some k => c_nillable k | None => false end) (a_types a)))
        (c_attrs c)
  end.
Definition doc_nil_present_ok (cs : list fclass) (t : tree) : bool := tree_all (node_nil_present_ok cs) (root_ns t) t.

(* g_ns: the namespace of the merged class is the class namespace build_class computes for the node (None when
   the node and all its ancestors are unqualified, "" for an unqualified node below a qualified one), or the
   merged class is explicitly unqualified ("") where the node would inherit no namespace (None): equally
   unqualified.  Holds since /repo fix 6637729 (before, reduce_classes copied group[0]'s namespace). *)
Definition ns_compat (merged node : option str) : bool :=
  ostr_eqb merged node || match merged, node with Some [], None => true | _, _ => false end.
Definition node_ns_ok (cs : list fclass) (parent_ns : option str) (n : tree) : bool :=
  match find_class cs (class_qname parent_ns n) with
  | None => true
  | Some c => ns_compat (c_ns c) (class_ns parent_ns n)
  end.
Definition doc_ns_ok (cs : list fclass) (t : tree) : bool := tree_all (node_ns_ok cs) (root_ns t) t.

(* g_order: the order in which the serializer will emit the children of a node, predicted from the merged
   class: CalculateAttributePaths turns the path ("s", k, 1, maxsize) into restrictions.sequence = k,
   ResetAttributeSequences keeps k when at least two attrs of the class carry it, and
   EventGenerator.next_value renders the slice from the first to the last field of a sequence number
   round-robin.  Sequence numbers are local to one sample node (sequential_groups numbers them 1, 2, ...
   per element) but survive reduce_classes by VALUE: groups of different nodes get conflated. *)
Definition seq_eff (els : list attr) (a : attr) : option N :=
  if (0 <? a_seq a) && (1 <? length (filter (fun b => N.eqb (a_seq b) (a_seq a)) els))%nat then Some (a_seq a) else None.

Fixpoint last_pos (s : N) (els0 : list attr) (l : list attr) (i best : nat) : nat :=
  match l with
  | [] => best
  | a :: r => last_pos s els0 r (S i) (match seq_eff els0 a with Some s' => if s' =? s then i else best | None => best end)
  end.

Fixpoint rounds (j n : nat) (slice : list attr) (cnt : attr -> nat) : list attr :=
  match n with
  | O => []
  | S n' => filter (fun a => (j <? cnt a)%nat) slice ++ rounds (S j) n' slice cnt
  end.

Fixpoint emit (fuel : nat) (els0 l : list attr) (cnt : attr -> nat) : list attr :=
  match fuel, l with
  | O, _ | _, [] => []
  | S f, a :: r =>
      match seq_eff els0 a with
      | None => repeat a (cnt a) ++ emit f els0 r cnt
      | Some s =>
          let n := last_pos s els0 l 0 0 in
          let slice := firstn (S n) l in
          rounds 0 (fold_right Nat.max 0%nat (map cnt slice)) slice cnt ++ emit f els0 (skipn (S n) l) cnt
      end
  end.

Definition node_order_ok (cs : list fclass) (parent_ns : option str) (n : tree) : bool :=
  let cns := class_ns parent_ns n in
  match find_class cs (class_qname parent_ns n) with
  | None => true
  | Some c =>
      c_mixed c ||
      let els := filter (fun a => str_eqb (a_tag a) tag_ELEMENT) (c_attrs c) in
      let word := map (fun k => part_key tag_ELEMENT cns (t_qn k)) (filter named (t_kids n)) in
      list_eqb attr_eqb (emit (length els) els els (fun a => length (filter (attr_eqb a) word))) word
  end.
Definition doc_order_ok (cs : list fclass) (t : tree) : bool := tree_all (node_order_ok cs) (root_ns t) t.

(* value exactness: the first candidate type (converter order) that accepts the text also passes the strict test *)
Record vtests := mk_vtests { vt_strict : list bool; vt_lax : list bool }.

Fixpoint first_accepting (tps : list str) (strict lax : list bool) (types : list str) : option bool :=
  match tps, strict, lax with
  | tp :: tps', s :: strict', l :: lax' =>
      if existsb (str_eqb (from_explicit_type tp)) types && l then Some s
      else first_accepting tps' strict' lax' types
  | _, _, _ => None
  end.

Definition value_exact (tbl : list (str * vtests)) (types : list atype) (v : str) : bool :=
  match v with
  | [] => existsb (fun t => negb (ty_native t) || str_eqb (ty_qname t) DT_STRING || is_any_simple t) types
  | _ =>
    if existsb (fun t => negb (ty_native t)) types then true            (* class-typed: clause g_kind_* *)
    else match assoc_str v tbl with
         | None => false
         | Some vt =>
             match first_accepting (map fst explicit_type_datatype) (vt_strict vt) (vt_lax vt) (map ty_qname types) with
             | Some s => s && str_eqb (py_strip v) v
             | None => existsb (fun t => str_eqb (ty_qname t) DT_STRING || is_any_simple t) types
             end
         end
  end.

Definition node_values_exact (tbl : list (str * vtests)) (cs : list fclass) (parent_ns : option str) (n : tree) : bool :=
  let cns := class_ns parent_ns n in
  match find_class cs (class_qname parent_ns n) with
  | None => true
  | Some c =>
      let ok key v := match find_attr c key with Some a => value_exact tbl (a_types a) v | None => true end in
      forallb (fun kv => str_eqb (fst kv) qn_xsi_nil || str_eqb (fst kv) qn_xsi_type
                         || ok (part_key tag_ATTRIBUTE cns (fst kv)) (snd kv)) (t_atts n)
      && forallb (fun k => negb (named k) || has_content k ||
                           ok (part_key tag_ELEMENT cns (t_qn k)) (match t_text k with Some v => v | None => [] end)) (t_kids n)
      && (negb (truthy (t_text n)) || existsb named (t_kids n) ||
          ok (key_attr tag_SIMPLE_TYPE text_attr_name None) (match t_text n with Some v => v | None => [] end))
  end.
Definition g_values_exact (tbl : list (str * vtests)) (cs : list fclass) (t : tree) : bool :=
  tree_all (node_values_exact tbl cs) (root_ns t) t.

(* JSON: a string value stays a string (its inferred type is rendered as a JSON string); holds since fix 9a0cfef *)
Definition json_string_types : list str :=
  DT_STRING :: DT_QNAME :: map (fun m => dt_qname m)
    [[84;73;77;69]; [68;65;84;69]; [68;65;84;69;95;84;73;77;69]; [68;85;82;65;84;73;79;78];
     [71;95;89;69;65;82;95;77;79;78;84;72]].   (* TIME DATE DATE_TIME DURATION G_YEAR_MONTH *)

Definition json_str_type (cv : sconv) (s : str) : str := ty_qname (build_attr_type_json cv [] (JStr s)).

Fixpoint g_json_strings (cv : sconv) (v : json) {struct v} : bool :=
  match v with
  | JStr [] => true
  | JStr s => existsb (str_eqb (json_str_type cv s)) json_string_types
  | JList l => (fix each (l : list json) : bool := match l with [] => true | x :: r => g_json_strings cv x && each r end) l
  | JObj fs => (fix fields (fs : list (str * json)) : bool :=
                  match fs with [] => true | (_, x) :: r => g_json_strings cv x && fields r end) fs
  | _ => true
  end.

(* every string leaf has a recorded row of converter tests *)
Fixpoint json_rows_known (cv : sconv) (v : json) {struct v} : bool :=
  match v with
  | JStr [] => true
  | JStr s => match sc_row cv s with Some _ => true | None => false end
  | JList l => (fix each (l : list json) : bool := match l with [] => true | x :: r => json_rows_known cv x && each r end) l
  | JObj fs => (fix fields (fs : list (str * json)) : bool :=
                  match fs with [] => true | (_, x) :: r => json_rows_known cv x && fields r end) fs
  | _ => true
  end.

(* JSON value exactness (string leaves only; numbers and booleans are typed by their JSON type) *)
Fixpoint g_json_exact (tbl : list (str * vtests)) (cs : list fclass) (name : str) (v : json) {struct v} : bool :=
  match v with
  | JObj fs =>
      match find_class cs name with
      | None => true
      | Some c =>
          (fix fields (fs : list (str * json)) : bool :=
             match fs with
             | [] => true
             | (k, x) :: r =>
                 (match find_attr c (jkey k) with
                  | Some a =>
                      (fix leaf (x : json) : bool :=
                         match x with
                         | JStr s => value_exact tbl (a_types a) s
                         | JList l => (fix each (l : list json) : bool :=
                                         match l with [] => true | y :: r => leaf y && each r end) l
                         | _ => true
                         end) x
                  | None => true
                  end) && g_json_exact tbl cs k x && fields r
             end) fs
      end
  | JList l => (fix each (l : list json) : bool := match l with [] => true | x :: r => g_json_exact tbl cs name x && each r end) l
  | _ => true
  end.

(* ------------------------------------------------------------------ validator on the REAL metadata *)
Record gfield := mk_gfield {
  gf_ef : efield;
  gf_local : str;              (* XmlVar.local_name (JSON key) *)
  gf_kind : nat;               (* 0 primitive types only, 1 exactly one dataclass, 2 anything else (union, object) *)
  gf_target : nat;             (* index of that dataclass's metadata in the list *)
  gf_nillable : bool
}.

Record gmeta := mk_gmeta {
  gm_qname : str;
  gm_fields : list gfield;            (* in the order XmlMeta.find_children offers them *)
  gm_attrs : list (str * bool);       (* attribute qname, constructor argument without default *)
  gm_any_attrs : bool;
  gm_text : bool;
  gm_mixed : bool;
  gm_nillable : bool
}.

Definition cm_meta (m : gmeta) : meta := mk_meta (map gf_ef (gm_fields m)) (gm_text m) (gm_mixed m).

Definition first_field (m : gmeta) (q : str) : option gfield := find (fun f => fmatch (gf_ef f) q) (gm_fields m).

Definition is_xsi (k : str) : bool := startswith (rev (skipn 3 (rev qn_xsi_nil))) k.

(* verdict codes: 0 accepted, 1 rejected, 2 inconclusive (a union-typed field is involved) *)
Definition vmax (a b : nat) : nat := if (a =? 1)%nat || (b =? 1)%nat then 1%nat else Nat.max a b.
Definition vbool (b : bool) : nat := if b then 0%nat else 1%nat.

Fixpoint validate (ms : list gmeta) (i : nat) (n : tree) {struct n} : nat :=
  match nth_error ms i with
  | None => 1%nat
  | Some m =>
      let here :=
        vbool (accepts_word (cm_meta m) (map t_qn (t_kids n))
               && forallb (fun kv => is_xsi (fst kv) || gm_any_attrs m || existsb (fun a => str_eqb (fst a) (fst kv)) (gm_attrs m)) (t_atts n)
               && forallb (fun a => negb (snd a) || existsb (fun kv => str_eqb (fst kv) (fst a)) (t_atts n)) (gm_attrs m)
               && (negb (truthy (t_text n)) || gm_text m || gm_mixed m)
               && (negb (existsb (fun k => truthy (t_tail k)) (t_kids n)) || gm_mixed m)) in
      (fix go (ks : list tree) (acc : nat) : nat :=
         match ks with
         | [] => acc
         | k :: r =>
             let v :=
               match first_field m (t_qn k) with
               | None => 1%nat
               | Some f =>
                   if ef_wild (gf_ef f) then 0%nat
                   else match gf_kind f with
                        | O => vbool (match t_kids k with [] => true | _ => false end
                                      && forallb (fun kv => is_xsi (fst kv)) (t_atts k)
                                      && match xsi_nil_of k with Some b => Bool.eqb (gf_nillable f) b | None => true end)
                        | S O =>
                            match nth_error ms (gf_target f), xsi_nil_of k with
                            | Some tm, Some b => if Bool.eqb (gf_nillable f || gm_nillable tm) b then validate ms (gf_target f) k else 1%nat
                            | Some _, None => validate ms (gf_target f) k
                            | None, _ => 1%nat
                            end
                        | _ => 2%nat
                        end
               end in
             go r (vmax acc v)
         end) (t_kids n) here
  end.

(* JSON: keys are matched by local name; a list needs a list field; required fields need their key *)
Definition field_by_local (m : gmeta) (k : str) : option gfield := find (fun f => str_eqb (gf_local f) k) (gm_fields m).

Fixpoint jvalidate (ms : list gmeta) (i : nat) (v : json) {struct v} : nat :=
  match v with
  | JObj fs =>
      match nth_error ms i with
      | None => 1%nat
      | Some m =>
          let here := vbool (forallb (fun f => negb (ef_required (gf_ef f)) || existsb (fun kv => str_eqb (fst kv) (gf_local f)) fs)
                                     (gm_fields m)) in
          (fix fields (fs : list (str * json)) (acc : nat) : nat :=
             match fs with
             | [] => acc
             | (k, x) :: r =>
                 let v :=
                   match field_by_local m k with
                   | None => 1%nat
                   | Some f =>
                       let item := (fix item (x : json) : nat :=
                                      match x with
                                      | JObj _ => match gf_kind f with
                                                  | S O => jvalidate ms (gf_target f) x
                                                  | O => 1%nat
                                                  | _ => 2%nat
                                                  end
                                      | JList _ => 1%nat
                                      | _ => match gf_kind f with S O => match x with JNull => 0%nat | _ => 1%nat end | _ => 0%nat end
                                      end) in
                       match x with
                       | JList l => if ef_bounded (gf_ef f) then 1%nat
                                    else (fix each (l : list json) (acc : nat) : nat :=
                                            match l with [] => acc | y :: r => each r (vmax acc (item y)) end) l 0%nat
                       | _ => item x
                       end
                   end in
                 fields r (vmax acc v)
             end) fs here
      end
  | JList l => (fix each (l : list json) (acc : nat) : nat :=
                  match l with [] => acc | x :: r => each r (vmax acc (jvalidate ms i x)) end) l 0%nat
  | _ => 1%nat
  end.

(* ------------------------------------------------------------------ round-trip verdicts *)
Definition xml_same (a b : itree) : bool := itree_eqb (norm_ws a) (norm_ws b).

Fixpoint json_drop_nulls (v : json) : json :=
  match v with
  | JObj fs => JObj ((fix go (fs : list (str * json)) : list (str * json) :=
                        match fs with
                        | [] => []
                        | (k, JNull) :: r => go r
                        | (k, x) :: r => (k, json_drop_nulls x) :: go r
                        end) fs)
  | JList l => JList (map json_drop_nulls l)
  | _ => v
  end.

Fixpoint json_eqb (a b : json) {struct a} : bool :=
  match a, b with
  | JNull, JNull => true
  | JBool x, JBool y => Bool.eqb x y
  | JInt x, JInt y => Z.eqb x y
  | JFloat x, JFloat y => PrimFloat.eqb x y
  | JStr x, JStr y => str_eqb x y
  | JList x, JList y =>
      (fix each (x y : list json) : bool :=
         match x, y with
         | [], [] => true
         | p :: x', q :: y' => json_eqb p q && each x' y'
         | _, _ => false
         end) x y
  | JObj x, JObj y =>
      Nat.eqb (length x) (length y) &&
      (fix fields (x : list (str * json)) : bool :=
         match x with
         | [] => true
         | (k, p) :: r => match assoc_str k y with Some q => json_eqb p q | None => false end && fields r
         end) x
  | _, _ => false
  end.

Definition json_same (a b : json) : bool := json_eqb (json_drop_nulls a) (json_drop_nulls b).

(* ------------------------------------------------------------------ inferred types are kept *)
(* the type (by qualified name) that build_attr_type / build_class gives to each part of a node *)
Definition node_part_types (cv : sconv) (cns : option str) (n : tree) : list (attr * str) :=
  map (fun kv => (part_key tag_ATTRIBUTE cns (fst kv), ty_qname (build_attr_type_str cv (fst kv) (Some (snd kv)))))
      (filter (fun kv => negb (str_eqb (fst kv) qn_xsi_nil)) (t_atts n))
  ++ map (fun k => (part_key tag_ELEMENT cns (t_qn k),
                    if has_content k then class_qname cns k else ty_qname (build_attr_type_str cv (t_qn k) (t_text k))))
         (filter named (t_kids n))
  ++ (if truthy (t_text n)
      then [(key_attr tag_SIMPLE_TYPE text_attr_name None, ty_qname (build_attr_type_str cv text_attr_name (t_text n)))]
      else []).

(* the datatypes ClassUtils.filter_types may remove: xs:error always, xs:anyType / xs:anySimpleType next to other types *)
Definition removable_qname (q : str) : bool :=
  existsb (fun m => str_eqb q (dt_qname m)) (filter_always ++ filter_when_many).

Definition node_types_ok (cv : sconv) (cs : list fclass) (parent_ns : option str) (n : tree) : bool :=
  let cns := class_ns parent_ns n in
  match find_class cs (class_qname parent_ns n) with
  | None => false
  | Some c =>
      forallb (fun kq => match find_attr c (fst kq) with
                         | Some a => existsb (fun t => str_eqb (ty_qname t) (snd kq)) (a_types a) || removable_qname (snd kq)
                         | None => false
                         end) (node_part_types cv cns n)
  end.
Definition tree_types_ok (cv : sconv) (cs : list fclass) (t : tree) : bool := tree_all (node_types_ok cv cs) (root_ns t) t.

(* ------------------------------------------------------------------ well-formed json.load output *)
(* a Python dict has distinct keys; the top level is an object or an array of objects *)
Fixpoint nodup_keysb (l : list attr) : bool :=
  match l with
  | [] => true
  | a :: r => negb (existsb (attr_eqb a) r) && nodup_keysb r
  end.

Fixpoint json_wf (v : json) {struct v} : bool :=
  match v with
  | JObj fs => nodup_keysb (map (fun kv => jkey (fst kv)) fs)
               && (fix fields (fs : list (str * json)) : bool :=
                     match fs with [] => true | (_, x) :: r => json_wf x && fields r end) fs
  | JList l => (fix each (l : list json) : bool := match l with [] => true | x :: r => json_wf x && each r end) l
  | _ => true
  end.

Definition json_top_wf (v : json) : bool :=
  json_wf v &&
  match v with
  | JObj _ => true
  | JList l => forallb (fun x => match x with JObj _ => true | _ => false end) l
  | _ => false
  end.
