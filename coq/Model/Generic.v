(* Model/Generic.v — executable model of the generic-element slice of xsdata
   (no proofs here):

   parse side   NodeParser.start/end over a node queue and an `objects` list
                (parsers/bases.py), TreeParser.start (parsers/tree.py),
                WildcardNode.child/bind/fetch_any_children (nodes/wildcard.py),
                ParserUtils.normalize_content/parse_any_attribute(s)/xsi_type
                (parsers/utils.py), QNameConverter.resolve (formats/converter.py),
                the wildcard paths of ElementNode: child/build_node for a wildcard
                var, bind_attrs with an ##any Attributes map, bind_objects/
                bind_object/bind_wild_var/bind_mixed_objects/prepare_generic_value/
                bind_wild_text (nodes/element.py), StandardNode.bind for the
                str/int/bool datatypes (nodes/standard.py), XmlVar.match_namespace
                and XmlVarBuilder.resolve_namespaces;
   write side   EventGenerator.convert_dataclass for the holder class,
                convert_value/convert_list/convert_mixed_content/convert_any_type/
                convert_any_element/convert_derived_element/convert_choice for
                generic values (serializers/mixins.py), and EventHandler.write
                (start_tag/add_attribute/set_data/end_tag/flush_start/is_xsi_type/
                encode_data) read at the level of the infoset it produces.

   Faithful including the defects; see Proofs/Generic*.v for what holds. *)
From Coq Require Import NArith ZArith List Bool.
From XV Require Import Base.Str Base.Eqb Base.Dec Base.PyInt Gen.GenericTables Spec.Infoset.
Import ListNotations.
Open Scope N_scope.

(* ------------------------------------------------------------ text helpers *)
(* str.partition on one character: (left, found, right) *)
Fixpoint partition_chr (c : N) (s : str) : str * bool * str :=
  match s with
  | [] => ([], false, [])
  | x :: r => if N.eqb x c then ([], true, r)
              else let '(l, f, rr) := partition_chr c r in (x :: l, f, rr)
  end.

(* xsdata.utils.text.split: (left, right) if right else (None, left) *)
Definition text_split (c : N) (s : str) : option str * str :=
  let '(l, _, r) := partition_chr c s in
  match r with [] => (None, l) | _ => (Some l, r) end.

Definition truthy (o : option str) : bool := match o with Some (_ :: _) => true | _ => false end.

(* namespaces.split_qname (on a non-empty qname) *)
Definition split_qname (q : str) : option str * str :=
  match q with
  | 123 :: rest =>
      match text_split 125 rest with
      | (Some (c :: l), rgt) => (Some (c :: l), rgt)
      | _ => (None, q)
      end
  | _ => (None, q)
  end.
Definition target_uri (q : str) : option str := fst (split_qname q).

(* namespaces.build_qname(uri, tag) with a non-empty tag *)
Definition build_qname (uri : option str) (tag : str) : str :=
  match uri with
  | Some (c :: u) => 123 :: (c :: u) ++ 125 :: tag
  | _ => tag
  end.

(* models.elements.default_namespace *)
Fixpoint default_namespace (nss : list str) : option str :=
  match nss with
  | [] => None
  | ns :: r => match ns with
               | [] => default_namespace r
               | 35 :: _ => default_namespace r
               | _ => Some ns
               end
  end.

(* ParserUtils.normalize_content: `value if value and value.strip() else None` *)
Definition normalize_content (v : option str) : option str :=
  match v with
  | Some s => if forallb py_isspace s then None else Some s
  | None => None
  end.

(* ParserUtils.parse_any_attribute *)
Definition parse_any_attribute (ns : nsmap) (v : str) : str :=
  match text_split 58 v with
  | (Some (c :: p), suffix) =>
      match ns_lookup (Some (c :: p)) ns with
      | Some uri => if startswith [47; 47] suffix then v else build_qname (Some uri) suffix
      | None => v
      end
  | _ => v
  end.
Definition parse_any_attributes (ns : nsmap) (a : attrs) : attrs :=
  map (fun kv => (fst kv, parse_any_attribute ns (snd kv))) a.

Fixpoint attr_get (k : str) (a : attrs) : option str :=
  match a with
  | [] => None
  | (k', v) :: r => if str_eqb k k' then Some v else attr_get k r
  end.
Fixpoint attr_remove (k : str) (a : attrs) : attrs :=
  match a with
  | [] => []
  | (k', v) :: r => if str_eqb k k' then r else (k', v) :: attr_remove k r
  end.

(* ------------------------------------------------------- match_namespace *)
(* XmlVar._match_namespace (the memo in match_namespace is a pure cache) *)
Definition ns_check (uri : option str) (check : str) : bool :=
  (match check, uri with [], None => true | _, _ => false end)
  || opt_eqb str_eqb (Some check) uri
  || str_eqb check any_ns_kw
  || (match check with
      | 33 :: rest => negb (opt_eqb str_eqb (Some rest) uri)
      | _ => false
      end).
Definition match_namespace (nss : list str) (qname : str) : bool :=
  let uri := target_uri qname in
  match nss, uri with
  | [], None => true
  | _, _ => existsb (ns_check uri) nss
  end.

(* XmlVarBuilder.resolve_namespaces for a wildcard (order of the resulting set is
   not modelled; only membership matters to match_namespace) *)
Definition kw_of_token (tok : str) : nskw :=
  if str_eqb tok any_ns_kw then KAny
  else if str_eqb tok other_ns_kw then KOther
  else if str_eqb tok local_ns_kw then KLocal
  else if str_eqb tok target_ns_kw then KTarget
  else KUri tok.
Definition resolve_kw (target : option str) (k : nskw) : str :=
  match k with
  | KAny => any_ns_kw
  | KOther => 33 :: match target with Some t => t | None => [] end
  | KLocal => []
  | KTarget => match target with Some (c :: t) => c :: t | _ => any_ns_kw end
  | KUri u => u
  end.
Definition resolve_namespaces (target : option str) (raw : option str) : list str :=
  let ns := match raw with Some r => Some r | None => target end in
  match ns with
  | Some (c :: r) => map (fun tok => resolve_kw target (kw_of_token tok)) (split_ws py_isspace (c :: r))
  | _ => []
  end.

(* --------------------------------------------------------- generic values *)
Inductive wkind := KSingle | KList | KMixed | KChoice.
Record wcfg := mkCfg {
  c_rq : str;            (* meta.qname of the holder class *)
  c_kind : wkind;
  c_nss : list str;      (* var.namespaces of the wildcard *)
  c_vq : str;            (* var.qname of the wildcard (choice) *)
  c_amap : bool;         (* the class also has an ##any Attributes map *)
  c_typed : list str     (* qnames of the typed choices of a compound field *)
}.
(* the value of a wildcard field: None / one value / a list *)
Inductive wshape := SNone | SOne | SMany.

Inductive gval :=
| GAny (q : option str) (text tail : option str) (kids : list gval) (atts : attrs)   (* AnyElement *)
| GText (s : option str)                                                            (* a str item of a wildcard list *)
| GDerived (q : str) (v : prim)                                                     (* DerivedElement(qname, value, type=None) *)
| GHolder (c : wcfg) (ra : attrs) (sh : wshape) (items : list gval).                (* instance of a holder class found by qname *)

Inductive wval := WNone | WOne (v : gval) | WMany (l : list gval).
Record robj := mkRobj { r_atts : attrs; r_w : wval }.
Definition w_shape (w : wval) : wshape := match w with WNone => SNone | WOne _ => SOne | WMany _ => SMany end.
Definition w_items (w : wval) : list gval := match w with WNone => [] | WOne v => [v] | WMany l => l end.
Definition holder_gval (c : wcfg) (o : robj) : gval := GHolder c (r_atts o) (w_shape (r_w o)) (w_items (r_w o)).

Inductive perr := EParser | EConverter | EContext | ETypeError | EUnsupported.
Inductive res (A : Type) := Ok (a : A) | Err (e : perr).
Arguments Ok {A} a.
Arguments Err {A} e.

(* `reg`: the holder classes the context finds by element qname (find_type) *)
Inductive mode := MTree | MTyped (reg : list wcfg) (c : wcfg).

(* ------------------------------------------------------------ xsi:type *)
Definition is_ascii (c : N) : bool := c <? 128.
Definition ascii_ncname (s : str) : bool :=
  match s with
  | [] => false
  | c :: r => (is_ascii_alpha c || N.eqb c 95)
              && forallb (fun x => is_ascii_alpha x || is_ascii_digit x || N.eqb x 46 || N.eqb x 45 || N.eqb x 95) r
  end.

(* ParserUtils.xsi_type + QNameConverter.resolve.  Ok None = no xsi:type.
   Values starting with "{" and non-ASCII names are outside the modelled slice. *)
Definition xsi_type (a : attrs) (ns : nsmap) : res (option str) :=
  match attr_get xsi_type_q a with
  | None => Ok None
  | Some [] => Ok None
  | Some v =>
      match py_strip v with
      | [] => Err EConverter
      | 123 :: _ => Err EUnsupported
      | v' =>
          let '(prefix, name) := text_split 58 v' in
          let uri := ns_lookup prefix ns in
          if truthy prefix && negb (truthy uri) then Err EConverter
          else if negb (forallb is_ascii name) then Err EUnsupported
          else if negb (ascii_ncname name) then Err EConverter
          else Ok (Some (build_qname uri name))
      end
  end.

Inductive dtkind := DStrK | DIntK | DBoolK.
(* DataType.from_qname restricted to what the model needs: None = not a datatype,
   Some None = a datatype whose python type is not modelled *)
Definition datatype_clark (code : str) : str := 123 :: xs_uri ++ 125 :: code.
Definition datatype_of_qname (q : str) : option (option dtkind) :=
  match find (fun ck => str_eqb (datatype_clark (fst ck)) q) datatype_tbl with
  | Some (_, k) => Some (if N.eqb k 0 then Some DStrK else if N.eqb k 1 then Some DIntK
                         else if N.eqb k 2 then Some DBoolK else None)
  | None => None
  end.
Definition is_datatype_clark (v : str) : bool :=
  match datatype_of_qname v with Some _ => true | None => false end.

Definition s_true : str := [116;114;117;101].
Definition s_false : str := [102;97;108;115;101].

(* ParserUtils.parse_var for a StandardNode (a ConverterError is a warning and the
   text is kept), then `obj = "" if obj is None and not nillable` *)
Definition std_value (k : dtkind) (text : option str) : prim :=
  match text with
  | None => PStr []
  | Some s =>
      match k with
      | DStrK => PStr s
      | DIntK => match py_int s with Some z => PInt z | None => PStr s end
      | DBoolK => let v := py_strip s in
                  if str_eqb v s_true || str_eqb v [49] then PBool true
                  else if str_eqb v s_false || str_eqb v [48] then PBool false
                  else PStr s
      end
  end.

(* DataType.from_value *)
Definition int_datatype (z : Z) : str :=
  match find (fun b => let '(lo, hi, _) := b in (lo <=? z)%Z && (z <=? hi)%Z) int_datatype_bounds with
  | Some (_, _, code) => code
  | None => int_datatype_default
  end.
Definition datatype_of_value (p : prim) : str :=
  datatype_clark (match p with
                  | PStr _ => str_datatype_code
                  | PInt z => int_datatype z
                  | PBool _ => bool_datatype_code
                  end).

(* ------------------------------------------------------------ the parser *)
Inductive node :=
| NWild (vq : str) (a : attrs) (ns : nsmap) (pos : nat)
| NRoot (a : attrs) (ns : nsmap)
| NElem (c : wcfg) (a : attrs) (ns : nsmap) (pos : nat)      (* ElementNode of a holder class found by qname *)
| NStd (k : dtkind) (ns : nsmap).

Definition objects := list (option str * gval).
Record pstate := mkP { p_queue : list node; p_objs : objects; p_done : option robj }.
Definition pinit : pstate := mkP [] [] None.

Definition has_xsi (a : attrs) : bool :=
  match attr_get xsi_type_q a, attr_get xsi_nil_q a with None, None => false | _, _ => true end.

(* `context.find_type(qname)` over the registered holder classes; inheritance of the
   parent namespace (context.fetch(clazz, parent_ns)) and xsi attributes on such an
   element are outside the modelled slice *)
Definition generic_or_class (reg : list wcfg) (c : wcfg) (q : str) (a : attrs) (ns : nsmap) (pos : nat) : res node :=
  match find (fun n => str_eqb (c_rq n) q) reg with
  | Some n =>
      if has_xsi a then Err EUnsupported
      else match target_uri (c_rq c), c_kind n with
           | None, KChoice => Err EUnsupported
           | None, _ => Ok (NElem n a ns pos)
           | Some _, _ => Err EUnsupported
           end
  | None => Ok (NWild (c_vq c) a ns pos)
  end.

(* ElementNode.child + build_node for the holder class *)
Definition child_of_root (reg : list wcfg) (c : wcfg) (q : str) (a : attrs) (ns : nsmap) (pos : nat) : res node :=
  if existsb (str_eqb q) (c_typed c) then Err EUnsupported
  else if negb (match_namespace (c_nss c) q) then Err EParser
  else match xsi_type a ns with
       | Err e => Err e
       | Ok None => generic_or_class reg c q a ns pos
       | Ok (Some t) =>
           match datatype_of_qname t with
           | Some (Some k) => Ok (NStd k ns)
           | Some None => Err EUnsupported
           | None => generic_or_class reg c q a ns pos
           end
       end.

Definition pstart (m : mode) (st : pstate) (q : str) (a : attrs) (ns : nsmap) : res pstate :=
  match p_queue st with
  | [] =>
      match m with
      | MTree =>
          let '(nsu, name) := split_qname q in
          let vq := build_qname (default_namespace (match nsu with Some u => [u] | None => [] end)) name in
          Ok (mkP [NWild vq a ns 0] (p_objs st) (p_done st))
      | MTyped _ c =>
          if has_xsi a then Err EUnsupported
          else Ok (mkP [NRoot a ns] (p_objs st) (p_done st))
      end
  | NWild vq _ _ _ :: _ =>
      Ok (mkP (NWild vq a ns (length (p_objs st)) :: p_queue st) (p_objs st) (p_done st))
  | NRoot _ _ :: _ =>
      match m with
      | MTyped reg c =>
          match child_of_root reg c q a ns (length (p_objs st)) with
          | Ok n => Ok (mkP (n :: p_queue st) (p_objs st) (p_done st))
          | Err e => Err e
          end
      | MTree => Err EUnsupported
      end
  | NElem n _ _ _ :: _ =>
      match m with
      | MTyped reg _ =>
          match child_of_root reg n q a ns (length (p_objs st)) with
          | Ok n' => Ok (mkP (n' :: p_queue st) (p_objs st) (p_done st))
          | Err e => Err e
          end
      | MTree => Err EUnsupported
      end
  | NStd _ _ :: _ => Err EContext
  end.

(* WildcardNode.bind; var.is_wildcard holds and var.nillable does not *)
Definition bind_wild (vq : str) (a : attrs) (ns : nsmap) (pos : nat) (q : str) (text tail : option str)
           (objs : objects) : objects :=
  let children := map snd (skipn pos objs) in
  let text1 := match children with [] => text | _ => normalize_content text end in
  let text2 := match text1 with None => Some [] | t => t end in
  firstn pos objs ++ [(Some vq, GAny (Some q) text2 (normalize_content tail) children (parse_any_attributes ns a))].

(* ElementNode.bind_wild_var *)
Definition bind_wild_var (k : wkind) (w : wval) (v : gval) : wval :=
  match k with
  | KSingle =>
      match w with
      | WNone => WOne v
      | WOne (GAny None t tl kids at_) => WOne (GAny None t tl (kids ++ [v]) at_)
      | WOne prev => WOne (GAny None None None [prev; v] [])
      | WMany l => WMany (l ++ [v])
      end
  | _ =>
      match w with
      | WNone => WMany [v]
      | WMany l => WMany (l ++ [v])
      | WOne p => WMany [p; v]
      end
  end.

(* ElementNode.bind_objects / bind_object: the key of a generic child is the
   wildcard var's own qname, matched again through find_children *)
Definition bind_object (c : wcfg) (w : res wval) (kv : option str * gval) : res wval :=
  match w with
  | Err e => Err e
  | Ok w' =>
      match fst kv with
      | None => Ok w'   (* a tail entry: bind_object answers False, "Unassigned parsed object None", text dropped *)
      | Some key =>
          if existsb (str_eqb key) (c_typed c) then Err EUnsupported
          else if match_namespace (c_nss c) key then Ok (bind_wild_var (c_kind c) w' (snd kv))
          else Ok w'   (* "Unassigned parsed object" warning, value dropped *)
      end
  end.

(* ElementNode.bind_wild_text; returns the new value and tail_processed *)
Definition bind_wild_text (c : wcfg) (a : attrs) (ns : nsmap) (text tail : option str) (w : wval) : wval * bool :=
  let t := normalize_content text in
  let tl := normalize_content tail in
  match t, tl with
  | None, None => (w, false)
  | _, _ =>
      match c_kind c with
      | KSingle =>
          (WOne (GAny None t tl (match w with WOne p => [p] | WMany l => l | WNone => [] end)
                      (parse_any_attributes ns a)), true)
      | _ => (WMany (GText t :: match w with WMany l => l | WOne p => [p] | WNone => [] end), false)
      end
  end.

(* ElementNode.bind_content: the field value and tail_processed *)
Definition bind_core (c : wcfg) (a : attrs) (ns : nsmap) (text tail : option str) (objs : objects) : res (wval * bool) :=
  let w0 : res wval :=
    match c_kind c with
    | KMixed => Ok (WMany (map snd objs))
    | _ => fold_left (bind_object c) objs (Ok WNone)
    end in
  match w0 with
  | Err e => Err e
  | Ok w =>
      Ok (match c_kind c with
          | KChoice => (w, false)
          | _ => bind_wild_text c a ns text tail w
          end)
  end.

(* a list field that received nothing keeps its default factory value *)
Definition finish_w (c : wcfg) (w' : wval) : wval :=
  match c_kind c, w' with
  | KSingle, _ => w'
  | _, WNone => WMany []
  | _, _ => w'
  end.
Definition holder_atts (c : wcfg) (a : attrs) (ns : nsmap) : attrs :=
  if c_amap c then parse_any_attributes ns a else [].

(* ElementNode.bind for the holder element (position 0, no xsi:nil, not derived) *)
Definition bind_root (c : wcfg) (a : attrs) (ns : nsmap) (text tail : option str) (objs : objects) : res robj :=
  match bind_core c a ns text tail objs with
  | Err e => Err e
  | Ok (w', processed) =>
      (* an unprocessed non-blank tail would be appended to `objects` after the
         object and returned instead of it: never the case for a document root *)
      if negb processed && truthy (normalize_content tail) then Err EUnsupported
      else Ok (mkRobj (holder_atts c a ns) (finish_w c w'))
  end.

(* ElementNode.bind for a holder found by qname below another holder: the object,
   then the tail as a separate text object unless bind_wild_text consumed it *)
Definition bind_nested (c : wcfg) (a : attrs) (ns : nsmap) (pos : nat) (q : str) (text tail : option str)
           (objs : objects) : res objects :=
  match bind_core c a ns text tail (skipn pos objs) with
  | Err e => Err e
  | Ok (w', processed) =>
      let o := (Some q, holder_gval c (mkRobj (holder_atts c a ns) (finish_w c w'))) in
      let tl := normalize_content tail in
      Ok (firstn pos objs ++ o :: (if negb processed && truthy tl then [(None, GText tl)] else []))
  end.

Definition pend (m : mode) (st : pstate) (q : str) (text tail : option str) : res pstate :=
  match p_queue st with
  | [] => Err EUnsupported
  | NWild vq a ns pos :: rest => Ok (mkP rest (bind_wild vq a ns pos q text tail (p_objs st)) (p_done st))
  | NStd k ns :: rest => Ok (mkP rest (p_objs st ++ [(Some q, GDerived q (std_value k text))]) (p_done st))
  | NRoot a ns :: rest =>
      match m with
      | MTyped _ c =>
          match bind_root c a ns text tail (p_objs st) with
          | Ok o => Ok (mkP rest [] (Some o))
          | Err e => Err e
          end
      | MTree => Err EUnsupported
      end
  | NElem n a ns pos :: rest =>
      match bind_nested n a ns pos q text tail (p_objs st) with
      | Ok objs' => Ok (mkP rest objs' (p_done st))
      | Err e => Err e
      end
  end.

Definition pstep (m : mode) (st : pstate) (e : pevent) : res pstate :=
  match e with
  | PStart q a ns => pstart m st q a ns
  | PEnd q text tail => pend m st q text tail
  end.

Fixpoint prun (m : mode) (evs : list pevent) (st : pstate) : res pstate :=
  match evs with
  | [] => Ok st
  | e :: r => match pstep m st e with Ok st' => prun m r st' | Err x => Err x end
  end.

(* TreeParser(...).parse: `self.objects[-1][1]` *)
Definition tree_parse (evs : list pevent) : option gval :=
  match prun MTree evs pinit with
  | Ok st => match p_queue st, rev (p_objs st) with
             | [], (_, v) :: _ => Some v
             | _, _ => None
             end
  | Err _ => None
  end.

(* XmlParser(...).parse(source, Holder) *)
Definition wild_parse (reg : list wcfg) (c : wcfg) (evs : list pevent) : res robj :=
  match prun (MTyped reg c) evs pinit with
  | Ok st => match p_queue st, p_done st with
             | [], Some o => Ok o
             | _, _ => Err EUnsupported
             end
  | Err e => Err e
  end.

(* ----------------------------------------------------------- the generator *)
Definition attr_ev (kv : str * str) : wevent := WAttr (fst kv) (AVStr (snd kv)).
Definition opt_ev (o : option wevent) : list wevent := match o with Some e => [e] | None => [] end.

(* convert_any_type on a generic value: convert_any_element / convert_derived_element
   / convert_data *)
Fixpoint gen_val (v : gval) : list wevent :=
  match v with
  | GAny q text tail kids atts =>
      opt_ev (option_map WStart q)
      ++ map attr_ev atts
      ++ [WData (option_map PStr text)]
      ++ flat_map gen_val kids
      ++ opt_ev (option_map WEnd q)
      ++ (if truthy tail then [WData (option_map PStr tail)] else [])
  | GText s => [WData (option_map PStr s)]
  | GDerived q p => [WStart q; WAttr xsi_type_q (AVQName (datatype_of_value p)); WData (Some p); WEnd q]
  | GHolder c ra _ items =>
      (* convert_xsi_type -> convert_dataclass(value, namespace): the class's own element *)
      WStart (c_rq c) :: map attr_ev ra ++ flat_map gen_val items ++ [WEnd (c_rq c)]
  end.

Definition gen_any (v : gval) : list wevent := gen_val v.

(* convert_choice on an item of a compound field *)
Definition gen_choice (c : wcfg) (v : gval) : option (list wevent) :=
  match v with
  | GAny (Some q) _ _ _ _ =>
      if existsb (str_eqb q) (c_typed c) || match_namespace (c_nss c) q then Some (gen_val v) else None
  | GDerived q p =>
      if existsb (str_eqb q) (c_typed c) then None
      else if match_namespace (c_nss c) q then Some [WStart (c_vq c); WData (Some (PStr (prim_text p))); WEnd (c_vq c)]
      else None
  | GHolder n _ _ _ =>
      if existsb (str_eqb (c_rq n)) (c_typed c) then None else Some (gen_val v)
  | _ => None
  end.

Fixpoint opt_concat {A} (l : list (option (list A))) : option (list A) :=
  match l with
  | [] => Some []
  | None :: _ => None
  | Some x :: r => match opt_concat r with Some y => Some (x ++ y) | None => None end
  end.

(* EventGenerator.generate(holder) *)
Definition gen_root (c : wcfg) (o : robj) : option (list wevent) :=
  let content : option (list wevent) :=
    match r_w o with
    | WNone => Some []
    | WOne v => match c_kind c with KChoice => gen_choice c v | _ => Some (gen_val v) end
    | WMany l => match c_kind c with
                 | KChoice => opt_concat (map (gen_choice c) l)
                 | _ => Some (flat_map gen_val l)
                 end
    end in
  match content with
  | Some evs => Some (WStart (c_rq c) :: map attr_ev (r_atts o) ++ evs ++ [WEnd (c_rq c)])
  | None => None
  end.

(* -------------------------------------------------------------- the writer *)
(* EventHandler.write, abstracting the SAX sink to the tree it builds and the
   prefix bookkeeping to the expanded names it denotes. *)
Record wstate := mkW {
  w_pending : option str;
  w_attrs : attrs;
  w_in_tail : bool;
  w_tail : option str;
  w_sink : list frame
}.

Definition encode_data (d : option prim) : option str := option_map prim_text d.

(* add_attribute: is_xsi_type + encode_data, read back as an infoset value *)
Definition encode_attr (k : str) (v : aval) : option str :=
  match v with
  | AVStr s =>
      if startswith [123] s && (str_eqb k xsi_type_q || is_datatype_clark s) then
        if str_eqb k xsi_type_q then Some s
        else match split_qname s with
             | (Some _, tag) => Some (xs_prefix ++ 58 :: tag)
             | (None, tag) => Some tag
             end
      else Some s
  | AVQName c => if str_eqb k xsi_type_q then Some c else None
  end.

Definition sink_chars (stk : list frame) (s : str) : list frame :=
  match stk with f :: r => add_text f s :: r | [] => [] end.

Definition flush_start (is_nil : bool) (st : wstate) : wstate :=
  match w_pending st with
  | None => st
  | Some q =>
      let a := if is_nil then w_attrs st else attr_remove xsi_nil_q (w_attrs st) in
      mkW None [] false (w_tail st) (mkF q a [] [] false :: w_sink st)
  end.

Definition wstep (st : wstate) (e : wevent) : option wstate :=
  match e with
  | WStart q =>
      let st1 := flush_start false st in
      Some (mkW (Some q) (w_attrs st1) (w_in_tail st1) (w_tail st1) (w_sink st1))
  | WAttr k v =>
      match w_pending st, encode_attr k v with
      | Some _, Some s => Some (mkW (w_pending st) (attr_set k s (w_attrs st)) (w_in_tail st) (w_tail st) (w_sink st))
      | _, _ => None
      end
  | WData d =>
      let value := encode_data d in
      let st1 := flush_start (match value with None => true | Some _ => false end) st in
      (* every non-empty data is written inside the current element *)
      if truthy value then
        Some (mkW None (w_attrs st1) true (w_tail st1)
                  (sink_chars (w_sink st1) (match value with Some s => s | None => [] end)))
      else Some (mkW None (w_attrs st1) true (w_tail st1) (w_sink st1))
  | WEnd q =>
      let st1 := flush_start true st in
      match w_sink st1 with
      | f :: g :: s =>
          if str_eqb q (f_name f) then
            let sink1 := add_kid g (frame_tree f) :: s in
            let sink2 := if truthy (w_tail st1)
                         then sink_chars sink1 (match w_tail st1 with Some t => t | None => [] end)
                         else sink1 in
            Some (mkW None (w_attrs st1) false None sink2)
          else None
      | _ => None
      end
  end.

Fixpoint wsteps (evs : list wevent) (st : wstate) : option wstate :=
  match evs with
  | [] => Some st
  | e :: r => match wstep st e with Some st' => wsteps r st' | None => None end
  end.

Definition winit : wstate := mkW None [] false None [bottom].

Definition write_tree (evs : list wevent) : option itree :=
  match wsteps evs winit with
  | Some st =>
      match w_pending st, w_sink st with
      | None, [f] => match f_kids f, f_text f with
                     | [t], [] => Some t
                     | _, _ => None
                     end
      | _, _ => None
      end
  | None => None
  end.

(* ------------------------------------------------------------------ guards *)
(* Computable descriptions of the inputs on which the round trip holds; one
   clause per refutation lemma in Proofs/GenericRefute.v.  `m` = bindings in
   scope outside the element. *)
Fixpoint tree_all (P : nsmap -> itree -> bool) (m : nsmap) (t : itree) : bool :=
  match t with
  | INode n a d x ks l => let m' := d ++ m in P m' t && forallb (tree_all P m') ks
  end.

Definition plain_attr (kv : str * str) : bool := negb (str_eqb (fst kv) xsi_type_q).

(* clause nil: the writer drops xsi:nil from every element it is given text for,
   and generic elements always have text (possibly empty) *)
Definition g_nil_node (m : nsmap) (t : itree) : bool :=
  forallb (fun kv => negb (str_eqb (fst kv) xsi_nil_q)) (i_atts t).
(* clause rewrite: parse_any_attribute expands `p:x` when p is a prefix in scope,
   and nothing turns it back *)
Definition g_rewrite_node (m : nsmap) (t : itree) : bool :=
  forallb (fun kv => negb (plain_attr kv) || str_eqb (parse_any_attribute m (snd kv)) (snd kv)) (i_atts t).
(* clause dtclark: the writer turns a value that is the Clark name of an XSD
   datatype into `xs:code` whatever the attribute *)
Definition g_dtclark_node (m : nsmap) (t : itree) : bool :=
  forallb (fun kv => negb (plain_attr kv) || negb (is_datatype_clark (snd kv))) (i_atts t).
(* clause xsitype: an unprefixed xsi:type is kept as text and re-read without the
   default namespace; unresolvable or padded values are not QNames at all *)
Definition xsi_type_ok (m : nsmap) (v : str) : bool :=
  forallb (fun c => negb (py_isspace c)) v &&
  match split_colon v with
  | (Some (c :: p), l) =>
      match ns_lookup (Some (c :: p)) m with
      | Some (_ :: _) => (match l with [] => false | _ => true end) && negb (startswith [47; 47] l)
      | _ => false
      end
  | (Some [], _) => false
  | (None, l) =>
      (match l with [] => false | 123 :: _ => false | _ => true end) &&
      match ns_lookup None m with None => true | Some [] => true | Some _ => false end
  end.
Definition g_xsitype_node (m : nsmap) (t : itree) : bool :=
  forallb (fun kv => plain_attr kv || xsi_type_ok m (snd kv)) (i_atts t).
(* clause space: str.strip() uses Python's whitespace, XML's is #x20 #x9 #xA #xD *)
Definition ws_consistent (s : str) : bool := all_ws s || negb (forallb py_isspace s).
Definition g_space_node (m : nsmap) (t : itree) : bool :=
  (match i_kids t with [] => true | _ => ws_consistent (i_text t) end) && ws_consistent (i_tail t).

Definition g_nil := tree_all g_nil_node.
Definition g_rewrite := tree_all g_rewrite_node.
Definition g_dtclark := tree_all g_dtclark_node.
Definition g_xsitype := tree_all g_xsitype_node.
Definition g_space := tree_all g_space_node.

Definition guard_any (m : nsmap) (t : itree) : bool :=
  g_rewrite m t && g_xsitype m t && g_space m t.
(* the two further clauses that concern the writer rather than the generator *)
Definition guard_write (m : nsmap) (t : itree) : bool := g_nil m t && g_dtclark m t.

(* clause visible: every text and tail is fully visible at its `end` event *)
Fixpoint g_visible (o : oracle) (p : node_id) (t : itree) : bool :=
  match t with
  | INode n a d x ks l =>
      opt_eqb str_eqb (cut (o_text o p) x) (cut None x) && opt_eqb str_eqb (cut (o_tail o p) l) (cut None l)
      && (fix go (i : nat) (ks : list itree) : bool :=
            match ks with [] => true | k :: r => g_visible o (i :: p) k && go (S i) r end) 0%nat ks
  end.

(* holder class: the first-level children that reach a WildcardNode *)
Definition fl_generic (m : nsmap) (k : itree) : bool :=
  match xsi_type (i_atts k) (i_nsd k ++ m) with
  | Ok None => true
  | Ok (Some t) => match datatype_of_qname t with None => true | Some _ => false end
  | Err _ => false
  end.
Definition g_first_level (m : nsmap) (t : itree) : bool := forallb (fl_generic (i_nsd t ++ m)) (i_kids t).

(* ------------------------------------------------- the composites of C11 *)
(* parse, generate, and read the events back: by the specification of the event
   protocol, and by the faithful model of the writer *)
Definition roundtrip_spec (o : oracle) (m : nsmap) (p : node_id) (t : itree) : option itree :=
  match tree_parse (pump o m p t) with
  | Some v => itree_of_wevents (gen_any v)
  | None => None
  end.
Definition roundtrip_written (o : oracle) (m : nsmap) (p : node_id) (t : itree) : option itree :=
  match tree_parse (pump o m p t) with
  | Some v => write_tree (gen_any v)
  | None => None
  end.
Definition holder_roundtrip (reg : list wcfg) (c : wcfg) (o : oracle) (t : itree) : option itree :=
  match wild_parse reg c (pump o [] [] t) with
  | Ok r => match gen_root c r with Some evs => itree_of_wevents evs | None => None end
  | Err _ => None
  end.
Definition holder_written (reg : list wcfg) (c : wcfg) (o : oracle) (t : itree) : option itree :=
  match wild_parse reg c (pump o [] [] t) with
  | Ok r => match gen_root c r with Some evs => write_tree evs | None => None end
  | Err _ => None
  end.

(* XML well-formedness: attribute names of an element are distinct *)
Definition has_key (k : str) (l : attrs) : bool := existsb (fun kv => str_eqb k (fst kv)) l.
Fixpoint nodup_keys (a : attrs) : bool :=
  match a with
  | [] => true
  | kv :: r => negb (has_key (fst kv) r) && nodup_keys r
  end.
Definition g_wf_node (m : nsmap) (t : itree) : bool := nodup_keys (i_atts t).
Definition g_wf := tree_all g_wf_node.
