(* Properties/C08.v — all backends agree (statements only).

   WRITERS.  Models: Model/Writer.v (EventHandler + the two SAX sinks, proved in C03),
   Model/TreeBuilder.v (TreeSerializer = the lxml sink without printing).
   HANDLERS.  Models: Model/Reader.v (XmlEventHandler.process_context / merge_parent_namespaces
   coupled with the parser it feeds, LxmlEventHandler.process_context with element.nsmap,
   native.iterwalk for ElementTree sources), Model/Parser.v (NodeParser).  Tie: the reader
   correspondence of harness/c08.py (events, outcome and recorder map of both REAL handlers on
   printed documents, compared in Coq).
   The source kinds (bytes / str / path / file object) and everything below the infoset
   (comments and PIs kept by already parsed lxml trees: finding C08-F4) are plumbing into the
   third-party tokenisers: oracle only (harness/c08.py). *)
From Coq Require Import NArith ZArith List Bool.
From XV Require Import Base.Str Base.Eqb Spec.XmlNs Model.Writer Model.TreeBuilder
  Model.Bind Model.Parser Model.Reader Model.ReaderCorr
  Proofs.WriterSound Proofs.ReaderWriters
  Proofs.ParserNs Proofs.ReaderMaps Proofs.ReaderAgree Proofs.ReaderConv Proofs.ReaderWitness Proofs.ReaderRefute Proofs.ReaderEt.
From XV Require Model.ConvQName.
Import ListNotations.

(* ================================================================== (i) writers *)
(* restated from C03: the tree the lxml writer builds IS the infoset an XML reader resolves
   from the native writer's text *)
Theorem C08_sinks_agree : forall cfg user evs,
  writer_guard cfg user evs = true -> lxml_domain cfg user evs = true ->
  exists d t, run_native cfg user evs = inl d /\ resolve d = Some t /\ run_lxml cfg user evs = inl t.
Proof. exact sinks_agree. Qed.
Print Assumptions C08_sinks_agree.

(* TreeSerializer shares the event loop and the sink with LxmlEventWriter *)
Theorem C08_tree_serializer_is_lxml_sink : forall cfg user evs, run_tree cfg user evs = run_lxml cfg user evs.
Proof. exact tree_serializer_is_lxml_sink. Qed.
Print Assumptions C08_tree_serializer_is_lxml_sink.

Theorem C08_writers_and_tree_agree : forall cfg user evs,
  writer_guard cfg user evs = true -> lxml_domain cfg user evs = true ->
  exists d t, run_native cfg user evs = inl d /\ resolve d = Some t
              /\ run_lxml cfg user evs = inl t /\ run_tree cfg user evs = inl t.
Proof. exact writers_and_tree_agree. Qed.
Print Assumptions C08_writers_and_tree_agree.

(* outside the guard (C03's clauses) the writers can differ; the former witness (finding C08-F2/F5:
   user map binding the default namespace + an attribute in it) was repaired in tefra/xsdata
   by commit 4948c8b and is now inside the guard *)

(* ================================================================== (ii) the two pumps *)
(* for EVERY document (whose elements do not declare a prefix twice), against a parser that
   keeps the maps: same events, per-element prefix maps lookup-equivalent.  `ns_equiv a b`:
   for every prefix p, a.get(p) = b.get(p); for the default namespace (key None) only up to
   truth value: {None: ""} (xmlns="") reads like an absent key — QNameConverter.resolve tests
   `if not uri`, ParserUtils.parse_any_attribute never looks the key None up.  [Both real
   handlers deliver {None: ""} for xmlns=""; the relation is the weakest the parser respects.] *)
Theorem C08_pumps_agree_plain : forall e, decls_wf e = true ->
  Forall2 pevent_equiv (native_pump_plain (doc_tokens e)) (lxml_pump (doc_tokens e)).
Proof. exact pumps_agree_plain. Qed.
Print Assumptions C08_pumps_agree_plain.

(* the maps themselves: merge_parent_namespaces (copy of the parent's map updated with the own
   declarations) answers every lookup like element.nsmap *)
Theorem C08_merge_parent_is_nsmap : forall a d ch, nodup_keys d = true -> ns_equiv a (lxml_nsmap ch) ->
  ns_equiv (ns_update a (ns_update [] d)) (lxml_nsmap (d :: ch)).
Proof. exact merge_equiv_lxml. Qed.
Print Assumptions C08_merge_parent_is_nsmap.

(* ================================================================== (iii) the parser *)
(* parse reads prefix maps only through lookups; the hypothesis on the converter ... *)
Theorem C08_parser_uses_lookup_only : forall cfg c u root evs evs',
  conv_lookup_only c ->
  Forall2 pevent_equiv evs evs' ->
  parse cfg c u root evs = parse cfg c u root evs'.
Proof. exact parser_uses_lookup_only. Qed.
Print Assumptions C08_parser_uses_lookup_only.

(* ... is what the modelled QNameConverter (Model/ConvQName.v, property C05) satisfies *)
Theorem C08_qname_converter_lookup_only : forall a b s, ns_equiv a b ->
  ConvQName.qname_deser s (Some a) = ConvQName.qname_deser s (Some b).
Proof. exact qname_deser_lookup_only. Qed.
Print Assumptions C08_qname_converter_lookup_only.

Theorem C08_conv_hypothesis_nonvacuous : conv_lookup_only qconv.
Proof. exact qconv_lookup_only. Qed.
Print Assumptions C08_conv_hypothesis_nonvacuous.

(* ================================================================== handlers: parse o native = parse o lxml *)
(* the native handler's outcome is NodeParser run on the events it hands over (the recorded list
   the correspondence compares) *)
Theorem C08_native_parse_of_events : forall n cfg c u root toks,
  native_parse_n n cfg c u root toks
  = finish (run cfg c u (replay_n n c u) root init_state (native_events_n n cfg c u root toks)).
Proof. exact native_parse_of_events. Qed.
Print Assumptions C08_native_parse_of_events.

(* FULL statement (no guard on union elements) is false of the faithful model: finding C08-F7 *)
Theorem C08_handlers_agree_refuted :
  exists cfg c u root e,
    conv_lookup_only c /\ decls_wf e = true
    /\ union_decl_free cfg c u root (doc_tokens e) = false
    /\ native_parse cfg c u root (doc_tokens e) <> lxml_parse cfg c u root (doc_tokens e).
Proof. exact handlers_agree_refuted. Qed.
Print Assumptions C08_handlers_agree_refuted.

(* guarded: no namespace declaration below an element bound through a UnionNode.  Skipped
   subtrees (SkipNode.ns_map = {}) and wrapper elements need no guard. *)
Theorem C08_handlers_agree : forall cfg c u root e,
  conv_lookup_only c -> decls_wf e = true ->
  union_decl_free cfg c u root (doc_tokens e) = true ->
  native_parse cfg c u root (doc_tokens e) = lxml_parse cfg c u root (doc_tokens e).
Proof. exact handlers_agree. Qed.
Print Assumptions C08_handlers_agree.

Example C08_handlers_agree_nonvacuous_skip :
  decls_wf doc_skip_qname_0 = true
  /\ union_decl_free lenient_cfg qconv u_skip_qname (Some root_skip_qname) (doc_tokens doc_skip_qname_0) = true
  /\ exists v, native_parse lenient_cfg qconv u_skip_qname (Some root_skip_qname) (doc_tokens doc_skip_qname_0) = Ok v [].
Proof. exact guard_nonvacuous_skip. Qed.

Example C08_handlers_agree_nonvacuous_wrapper :
  decls_wf doc_wrapper_qname_0 = true
  /\ union_decl_free strict_cfg qconv u_wrapper_qname (Some root_wrapper_qname) (doc_tokens doc_wrapper_qname_0) = true
  /\ exists v, native_parse strict_cfg qconv u_wrapper_qname (Some root_wrapper_qname) (doc_tokens doc_wrapper_qname_0) = Ok v [].
Proof. exact guard_nonvacuous_wrapper. Qed.

Example C08_handlers_agree_nonvacuous_union :
  decls_wf doc_union_qname_4 = true
  /\ union_decl_free strict_cfg qconv u_union_qname (Some root_union_qname) (doc_tokens doc_union_qname_4) = true
  /\ native_parse strict_cfg qconv u_union_qname (Some root_union_qname) (doc_tokens doc_union_qname_4)
     = Ok (VObj 4 [([117], VObj 2 [([100], VObj 1 [([120], VP (PQName [123;117;114;110;58;122;125;107]))])])]) [].
Proof. exact guard_nonvacuous_union. Qed.

(* under a SkipNode the native maps are NOT lookup-equivalent to lxml's (and need not be) *)
Example C08_skip_maps_differ :
  forallb2_pe (native_events lenient_cfg qconv u_skip_qname (Some root_skip_qname) (doc_tokens doc_skip_qname_0))
              (lxml_pump (doc_tokens doc_skip_qname_0)) = false
  /\ forallb2_pe (native_pump_plain (doc_tokens doc_skip_qname_0)) (lxml_pump (doc_tokens doc_skip_qname_0)) = true.
Proof. exact skip_maps_differ. Qed.

(* ElementTree sources: iterwalk regenerates prefixes (finding C08-F1) *)
Theorem C08_et_source_agrees_refuted :
  exists cfg c u root e,
    conv_lookup_only c /\ decls_wf e = true
    /\ union_decl_free cfg c u root (doc_tokens e) = true
    /\ native_parse cfg c u root (et_tokens e) <> native_parse cfg c u root (doc_tokens e).
Proof. exact et_source_agrees_refuted. Qed.
Print Assumptions C08_et_source_agrees_refuted.

(* guarded: a document without namespaces (no declarations, unqualified element names) *)
Theorem C08_et_source_agrees : forall cfg c u root e, no_namespaces e = true ->
  native_parse cfg c u root (et_tokens e) = native_parse cfg c u root (doc_tokens e).
Proof. exact et_source_agrees. Qed.
Print Assumptions C08_et_source_agrees.

Example C08_et_source_agrees_nonvacuous :
  no_namespaces doc_plain = true
  /\ exists v, native_parse lenient_cfg qconv u_skip_qname (Some root_skip_qname) (et_tokens doc_plain) = Ok v [].
Proof. exact et_source_agrees_nonvacuous. Qed.
