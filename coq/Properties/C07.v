(* Properties/C07.v — statements only.  Model: Model/Safe.v (xsdata/utils/text.py and the
   naming filters of formats/dataclass/filters.py), Model/Rename.v (ClassUtils
   rename_duplicate_attributes / unique_name, RenameDuplicateClasses).  Spec: Spec/PyIdent.v. *)
From Coq Require Import NArith List Bool String.
From XV Require Import Base.Str Gen.SafeTables Model.Safe Model.Rename Spec.PyIdent
  Proofs.SafeCase Proofs.SafeTerm Proofs.SafeIdent Proofs.RenameUnique Proofs.RenameInv
  Proofs.RenameFields Proofs.RenameClasses.
Import ListNotations.

(* ---- termination of Filters.safe_name ------------------------------------------------ *)
(* guard: the first ASCII alphanumeric character of the safe prefix is a letter *)
Theorem C07_safe_name_terminates : forall p k name,
  prefix_ok p = true -> exists r, safe_name 15 p (apply_case k) name = SOk r.
Proof. exact safe_name_terminates_15. Qed.
Print Assumptions C07_safe_name_terminates.

(* Filters.__init__ now refuses a configuration whose safe prefixes fail that test (fix for
   C07-F6; the former refutation "prefix 1a contains a letter and still diverges" is gone):
   every naming filter of an accepted configuration terminates *)
Theorem C07_filters_terminate : forall cv name,
  filters_init cv = true ->
  (exists r, class_name cv name = SOk r) /\ (exists r, field_name cv name = SOk r) /\
  (exists r, constant_name cv name = SOk r) /\ (exists r, module_name cv name = SOk r).
Proof. exact filters_terminate. Qed.
Print Assumptions C07_filters_terminate.

(* ---- results are identifiers ------------------------------------------------------------ *)
(* every split_words-based convention, every prefix, every input string *)
Theorem C07_safe_name_is_identifier : forall p k fuel name r,
  split_based k = true -> safe_name fuel p (apply_case k) name = SOk r ->
  is_identifier r /\ ~ keyword r.
Proof. exact safe_name_is_identifier. Qed.
Print Assumptions C07_safe_name_is_identifier.

(* every Python keyword is reserved (text.stop_words gained `await`: fix for C07-F1) *)
Theorem C07_keywords_reserved : forall r, is_keyword r = true -> is_reserved r = true.
Proof. exact keyword_is_reserved. Qed.
Print Assumptions C07_keywords_reserved.

(* originalCase: guard on the non-ASCII word characters of name and prefix *)
Theorem C07_original_case_identifier : forall p fuel name r,
  original_guard py_xid_continue name = true -> original_guard py_xid_continue p = true ->
  safe_name fuel p (apply_case Original) name = SOk r ->
  identifier_with py_xid_start py_xid_continue r = true /\ is_reserved r = false.
Proof. exact (safe_name_original_identifier py_xid_start py_xid_continue). Qed.
Print Assumptions C07_original_case_identifier.

Theorem C07_original_case_ascii_identifier : forall p fuel name r,
  original_guard (fun _ => false) name = true -> original_guard (fun _ => false) p = true ->
  safe_name fuel p (apply_case Original) name = SOk r ->
  is_identifier r /\ ~ keyword r.
Proof. exact safe_name_original_ascii. Qed.
Print Assumptions C07_original_case_ascii_identifier.

Theorem C07_original_case_identifier_refuted :
  exists name r, safe_name safe_fuel (Safe.lit "value") (apply_case Original) name = SOk r /\
                 identifier_with py_xid_start py_xid_continue r = false.
Proof. exact original_case_identifier_refuted. Qed.
Print Assumptions C07_original_case_identifier_refuted.

Example C07_original_guard_nonvacuous :
  original_guard py_xid_continue [233; 99; 111; 108; 101; 95; 49]%N = true /\
  original_guard py_xid_continue [97; 178]%N = false.
Proof. exact original_guard_nonvacuous. Qed.
Print Assumptions C07_original_guard_nonvacuous.

(* ---- uniqueness ------------------------------------------------------------------------ *)
Theorem C07_unique_name_fresh : forall name reserved,
  str_in (alnum (unique_name name reserved)) reserved = false.
Proof. exact unique_name_fresh. Qed.
Print Assumptions C07_unique_name_fresh.

(* unconditional since the by-preference rename goes through unique_name (fix for C07-F2) *)
Theorem C07_rename_slugs_distinct : forall l,
  NoDup (map a_slug (rename_duplicate_attributes l)).
Proof. exact rename_slugs_distinct. Qed.
Print Assumptions C07_rename_slugs_distinct.

Theorem C07_fields_distinct_after_rename : forall p k l,
  prefix_ok p = true ->
  adjust_fresh p k (map a_name (rename_duplicate_attributes l)) = true ->
  NoDup (map (fun a => final_name p k (a_name a)) (rename_duplicate_attributes l)).
Proof. exact fields_distinct_after_rename. Qed.
Print Assumptions C07_fields_distinct_after_rename.

Example C07_preference_witness_now_distinct :
  fields_of witness_preference = map SOk [Safe.lit "a"; Safe.lit "a_attribute_1"; Safe.lit "a_attribute"].
Proof. exact preference_witness_now_distinct. Qed.
Print Assumptions C07_preference_witness_now_distinct.

Theorem C07_fields_distinct_safe_prefix_refuted :
  ~ NoDup (fields_of witness_prefix) /\
  adjust_fresh conv_field_name_prefix Snake (map a_name (rename_duplicate_attributes witness_prefix)) = false.
Proof. exact fields_distinct_safe_prefix_refuted. Qed.
Print Assumptions C07_fields_distinct_safe_prefix_refuted.

Theorem C07_fields_distinct_reserved_suffix_refuted :
  ~ NoDup (fields_of witness_suffix) /\
  adjust_fresh conv_field_name_prefix Snake (map a_name (rename_duplicate_attributes witness_suffix)) = false.
Proof. exact fields_distinct_reserved_suffix_refuted. Qed.
Print Assumptions C07_fields_distinct_reserved_suffix_refuted.

Example C07_guards_nonvacuous :
  adjust_fresh conv_field_name_prefix Snake (map a_name (rename_duplicate_attributes example_ok)) = true /\
  fields_of example_ok = map SOk [Safe.lit "a"; Safe.lit "a_1"; Safe.lit "a_2"; Safe.lit "class_value";
                                  Safe.lit "value_1a"; Safe.lit "x"; Safe.lit "x_attribute"].
Proof. exact guards_nonvacuous. Qed.
Print Assumptions C07_guards_nonvacuous.

(* ---- classes ----------------------------------------------------------------------------- *)
Theorem C07_classes_distinct_after_rename : forall p k names,
  prefix_ok p = true -> NoDup (map alnum names) -> adjust_fresh p k names = true ->
  NoDup (map (final_name p k) names).
Proof. exact classes_distinct_after_rename. Qed.
Print Assumptions C07_classes_distinct_after_rename.

(* RenameDuplicateClasses.add_numeric_suffix: the renamed class gets a comparison key (slug of the
   name, or of the qualified name when classes are compared by qualified name) that no class had
   before, and the reserved set keeps covering every class *)
Theorem C07_numeric_suffix_fresh : forall u l res p,
  (p < List.length l)%nat -> res_ok u l res ->
  let st' := add_numeric_suffix u (l, res) p in
  ~ In (c_cmp u (cget (fst st') p)) (map (c_cmp u) l) /\
  (forall i, i <> p -> cget (fst st') i = cget l i) /\
  res_ok u (fst st') (snd st').
Proof. exact numeric_suffix_fresh. Qed.
Print Assumptions C07_numeric_suffix_fresh.

Theorem C07_classes_distinct_reserved_suffix_refuted :
  ~ NoDup (class_names_of [cl "None" false; cl "NoneType" false]).
Proof. exact classes_distinct_reserved_suffix_refuted. Qed.
Print Assumptions C07_classes_distinct_reserved_suffix_refuted.

(* add_abstract_suffix goes through the same freshness test since fix 5e6ea57 (the former
   refutation A(abstract), a, A_abstract is now a positive example) *)
Theorem C07_abstract_suffix_fresh : forall u l res p,
  (p < List.length l)%nat -> res_ok u l res ->
  let st' := add_abstract_suffix u (l, res) p in
  ~ In (c_cmp u (cget (fst st') p)) (map (c_cmp u) l) /\
  (forall i, i <> p -> cget (fst st') i = cget l i) /\
  res_ok u (fst st') (snd st').
Proof. exact abstract_suffix_fresh. Qed.
Print Assumptions C07_abstract_suffix_fresh.

Example C07_abstract_witness_now_distinct :
  map c_name (rename_duplicate_classes true [cl "A" true; cl "a" false; cl "A_abstract" false])
  = [Safe.lit "A_abstract_1"; Safe.lit "a"; Safe.lit "A_abstract"].
Proof. exact abstract_witness_now_distinct. Qed.
Print Assumptions C07_abstract_witness_now_distinct.

(* the hand-written keyword list of the specification is the interpreter's keyword.kwlist *)
Example C07_keywords_match_interpreter :
  forallb (fun w => str_in w keywords) py_kwlist && forallb (fun w => str_in w py_kwlist) keywords = true.
Proof. exact keywords_match_interpreter. Qed.
Print Assumptions C07_keywords_match_interpreter.
