(* Properties/C07.v — placeholder until Proofs/Safe*.v land. *)
From XV Require Import Base.Str Model.Safe Model.Rename Spec.PyIdent.
