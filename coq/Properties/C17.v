(* Properties/C17.v — WSDL generation yields usable SOAP bindings (statements only).
   Model: Model/Wsdl.v (xsdata/codegen/mappers/definitions.py, the lazy-namespace part of
   codegen/handlers/process_attributes_types.py, formats/dataclass/client.py);
   specification: Spec/WsdlSpec.v (`expected`, hand-written from WSDL 1.1 / SOAP 1.1). *)
From Coq Require Import NArith List Bool.
From XV Require Import Base.Str Base.Eqb Spec.WsdlSpec Model.Wsdl Model.WsdlCorr Proofs.WsdlClient.
Import ListNotations.
Open Scope N_scope.

(* ---- the client ---- *)
(* content-type text/xml; SOAPAction = the configured action when it is a non-empty string;
   every other user header preserved; user's SOAPAction kept when none is configured *)
Theorem C17_client_headers : forall act h,
  exists h', prepare_headers (Some SOAP_HTTP) act h = Some h'
    /\ hdr_lookup h' s_content_type = Some s_text_xml
    /\ (forall c a, act = Some (c :: a) -> hdr_lookup h' s_SOAPAction = Some (c :: a))
    /\ (act = None \/ act = Some [] -> hdr_lookup h' s_SOAPAction = hdr_lookup h s_SOAPAction)
    /\ (forall k, k <> s_content_type -> k <> s_SOAPAction -> hdr_lookup h' k = hdr_lookup h k).
Proof. exact prepare_headers_soap. Qed.
Print Assumptions C17_client_headers.

Theorem C17_client_foreign_transport : forall tr act h,
  tr <> Some SOAP_HTTP -> prepare_headers tr act h = None.
Proof. exact prepare_headers_foreign. Qed.
Print Assumptions C17_client_foreign_transport.

(* "SOAPAction present iff the binding declares one": false (soapAction="" is dropped) ... *)
Theorem C17_client_soapaction_iff_declared_refuted : ~ soapaction_iff_declared_statement.
Proof. exact soapaction_iff_declared_refuted. Qed.
Print Assumptions C17_client_soapaction_iff_declared_refuted.

(* ... true when the declared action is not the empty string *)
Theorem C17_client_soapaction_iff_declared : forall act h h',
  act <> Some [] ->
  prepare_headers (Some SOAP_HTTP) act h = Some h' ->
  hdr_lookup h s_SOAPAction = None ->
  hdr_lookup h' s_SOAPAction = act.
Proof. exact soapaction_iff_declared. Qed.
Print Assumptions C17_client_soapaction_iff_declared.

(* send posts exactly the rendered payload (encoded if configured), once, to the service
   location, with the prepared headers, and returns the parse of the answer into the output
   class; over every serializer, parser and transport *)
Theorem C17_client_posts_payload :
  forall (Obj Cls Parsed : Type) isinstance as_dict decode_dict render encode post parse
         (cfg : client_config Cls) (obj : Obj) h data h',
    prepare_payload Obj Cls isinstance as_dict decode_dict render encode cfg obj = inr data ->
    prepare_headers (cc_transport _ cfg) (cc_soap_action _ cfg) h = Some h' ->
    send Obj Cls Parsed isinstance as_dict decode_dict render encode post parse cfg obj h =
      ([mk_call (cc_location _ cfg) data h'],
       inr (parse (post (cc_location _ cfg) data h') (cc_output _ cfg))).
Proof. exact send_posts_payload. Qed.
Print Assumptions C17_client_posts_payload.

Theorem C17_client_payload_is_render :
  forall (Obj Cls : Type) isinstance as_dict decode_dict render encode (cfg : client_config Cls) (obj : Obj),
    as_dict obj = false -> isinstance obj (cc_input _ cfg) = true ->
    prepare_payload Obj Cls isinstance as_dict decode_dict render encode cfg obj =
      match cc_encoding _ cfg with
      | Some (c :: e) => match encode (c :: e) (render obj) with Some b => inr (PBytes b) | None => inl EncodeError end
      | _ => inr (PStr (render obj))
      end.
Proof. exact payload_of_instance. Qed.
Print Assumptions C17_client_payload_is_render.

Theorem C17_client_wrong_input :
  forall (Obj Cls Parsed : Type) isinstance as_dict decode_dict render encode post parse
         (cfg : client_config Cls) (obj : Obj) h,
    as_dict obj = false -> isinstance obj (cc_input _ cfg) = false ->
    send Obj Cls Parsed isinstance as_dict decode_dict render encode post parse cfg obj h = ([], inl ClientValueError).
Proof. exact send_wrong_input. Qed.
Print Assumptions C17_client_wrong_input.

Theorem C17_client_send_foreign_transport :
  forall (Obj Cls Parsed : Type) isinstance as_dict decode_dict render encode post parse
         (cfg : client_config Cls) (obj : Obj) h data,
    prepare_payload Obj Cls isinstance as_dict decode_dict render encode cfg obj = inr data ->
    cc_transport _ cfg <> Some SOAP_HTTP ->
    send Obj Cls Parsed isinstance as_dict decode_dict render encode post parse cfg obj h = ([], inl ClientValueError).
Proof. exact send_foreign_transport. Qed.
Print Assumptions C17_client_send_foreign_transport.
