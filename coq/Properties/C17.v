(* Properties/C17.v — WSDL generation yields usable SOAP bindings (statements only).
   Model: Model/Wsdl.v (xsdata/codegen/mappers/definitions.py, the lazy-namespace part of
   codegen/handlers/process_attributes_types.py, formats/dataclass/client.py);
   specification: Spec/WsdlSpec.v (`expected`, hand-written from WSDL 1.1 / SOAP 1.1). *)
From Coq Require Import NArith List Bool.
From XV Require Import Base.Str Base.Eqb Spec.WsdlSpec Model.Wsdl Model.WsdlCorr Proofs.WsdlClient
  Proofs.WsdlRefute Proofs.WsdlTheorem Proofs.WsdlSucceeds.
Import ListNotations.
Open Scope N_scope.

(* ---- generation ---- *)
(* mapper_matches te d :  option_map (final_shapes te) (map_definitions d) = Some (expected te d)
   i.e. generation succeeds and the services the generated code publishes (DefinitionsMapper,
   then ClassValidator keeping the last of equally named classes, then the resolution of
   types and namespaces by the rest of the pipeline) carry exactly the style, location,
   transport, soapAction and the input/output envelope shapes WSDL 1.1 / SOAP 1.1 prescribe.
   `te` lists the global simple types of the schemas. *)

(* full strength (every document of the fragment): FALSE of the faithful model ... *)
Theorem C17_mapper_matches_expected_refuted : ~ mapper_matches_statement.
Proof. exact mapper_matches_statement_refuted. Qed.
Print Assumptions C17_mapper_matches_expected_refuted.

(* ... with one witness per guard clause, each violating that clause only
   (open known findings C17-F2, F5-F8, F11; reproduced on the real code by every run;
   clauses 1, 3, 4, 9 were deleted when F1, F3, F4, F9 were repaired in /repo) *)
Theorem C17_clause2_rpc_response_name_refuted :
  wf_definitions witness2 = true /\ findings [] witness2 = [[2%nat]] /\ names_distinct [] witness2 = true
  /\ no_shadow witness2 = true /\ ~ mapper_matches [] witness2.
Proof. exact clause2_refuted. Qed.
Theorem C17_clause5_document_type_part_refuted :
  wf_definitions witness5 = true /\ findings [] witness5 = [[5%nat]] /\ names_distinct [] witness5 = true
  /\ no_shadow witness5 = true /\ ~ mapper_matches [] witness5.
Proof. exact clause5_refuted. Qed.
Theorem C17_clause6_rpc_element_part_refuted :
  wf_definitions witness6 = true /\ findings [] witness6 = [[6%nat]] /\ names_distinct [] witness6 = true
  /\ no_shadow witness6 = true /\ ~ mapper_matches [] witness6.
Proof. exact clause6_refuted. Qed.
Theorem C17_clause7_rpc_body_parts_refuted :
  wf_definitions witness7 = true /\ findings [] witness7 = [[7%nat]] /\ names_distinct [] witness7 = true
  /\ no_shadow witness7 = true /\ ~ mapper_matches [] witness7.
Proof. exact clause7_refuted. Qed.
Theorem C17_clause8_duplicate_service_name_refuted :
  wf_definitions witness8 = true /\ findings [] witness8 = [[]; []] /\ names_distinct [] witness8 = false
  /\ no_shadow witness8 = true /\ ~ mapper_matches [] witness8.
Proof. exact clause8_refuted. Qed.
Theorem C17_clause10_message_shadows_element_refuted :
  wf_definitions witness10 = true /\ findings [] witness10 = [[]] /\ names_distinct [] witness10 = true
  /\ no_shadow witness10 = false /\ ~ mapper_matches [] witness10.
Proof. exact clause10_refuted. Qed.
Print Assumptions C17_clause10_message_shadows_element_refuted.

(* the theorem: unbounded over all documents of the fragment that satisfy the six remaining clauses
   (any number of services, ports, bindings, operations, parts, headers, faults; document
   and rpc; parts by element and by type; any prefixes and local namespace declarations) *)
Theorem C17_mapper_matches_expected : forall te d,
  wf_definitions d = true -> guard te d = true ->
  option_map (final_shapes te) (map_definitions d) = Some (expected te d).
Proof. exact mapper_matches_expected. Qed.
Print Assumptions C17_mapper_matches_expected.

(* generation succeeds on EVERY document of the fragment, guard or not: the mapper raises
   nothing (no "Unknown WSDL Type", no AttributeError on a missing message, no StopIteration) *)
Theorem C17_generation_succeeds : forall d,
  wf_definitions d = true -> exists cs, map_definitions d = Some cs.
Proof. exact generation_succeeds_wf. Qed.
Print Assumptions C17_generation_succeeds.

(* non-vacuity: three operations over two bindings (rpc and document), a header, faults *)
Example C17_guard_inhabited :
  wf_definitions guard_example = true /\ guard [] guard_example = true
  /\ length (expected [] guard_example) = 3%nat /\ mapper_matches [] guard_example.
Proof. exact guard_inhabited. Qed.

(* ---- the client ---- *)
(* content-type text/xml; SOAPAction = the configured action whenever one is configured (the
   empty string included); every other user header preserved; the user's own SOAPAction kept
   when none is configured *)
Theorem C17_client_headers : forall act h,
  exists h', prepare_headers (Some SOAP_HTTP) act h = Some h'
    /\ hdr_lookup h' s_content_type = Some s_text_xml
    /\ (forall a, act = Some a -> hdr_lookup h' s_SOAPAction = Some a)
    /\ (act = None -> hdr_lookup h' s_SOAPAction = hdr_lookup h s_SOAPAction)
    /\ (forall k, k <> s_content_type -> k <> s_SOAPAction -> hdr_lookup h' k = hdr_lookup h k).
Proof. exact prepare_headers_soap. Qed.
Print Assumptions C17_client_headers.

Theorem C17_client_foreign_transport : forall tr act h,
  tr <> Some SOAP_HTTP -> prepare_headers tr act h = None.
Proof. exact prepare_headers_foreign. Qed.
Print Assumptions C17_client_foreign_transport.

(* SOAPAction present iff the binding declares one — unguarded since the repair of F3
   (/repo d4f6af6); before, soapAction="" was dropped and this statement was refuted *)
Theorem C17_client_soapaction_iff_declared : forall act h h',
  prepare_headers (Some SOAP_HTTP) act h = Some h' ->
  hdr_lookup h s_SOAPAction = None ->
  hdr_lookup h' s_SOAPAction = act.
Proof. exact soapaction_iff_declared. Qed.
Print Assumptions C17_client_soapaction_iff_declared.

(* send posts exactly the rendered payload (encoded if configured), once, to the service
   location, with the prepared headers, and returns the parse of the answer into the output
   class; over every serializer, parser and transport *)
Theorem C17_client_posts_payload :
  forall (Obj Cls Parsed : Type) isinstance as_dict decode_dict render encode post parse
         (cfg : client_config Cls) (obj : Obj) h data h',
    prepare_payload Obj Cls isinstance as_dict decode_dict render encode cfg obj = inr data ->
    prepare_headers (cc_transport _ cfg) (cc_soap_action _ cfg) h = Some h' ->
    send Obj Cls Parsed isinstance as_dict decode_dict render encode post parse cfg obj h =
      ([mk_call (cc_location _ cfg) data h'],
       inr (parse (post (cc_location _ cfg) data h') (cc_output _ cfg))).
Proof. exact send_posts_payload. Qed.
Print Assumptions C17_client_posts_payload.

Theorem C17_client_payload_is_render :
  forall (Obj Cls : Type) isinstance as_dict decode_dict render encode (cfg : client_config Cls) (obj : Obj),
    as_dict obj = false -> isinstance obj (cc_input _ cfg) = true ->
    prepare_payload Obj Cls isinstance as_dict decode_dict render encode cfg obj =
      match cc_encoding _ cfg with
      | Some (c :: e) => match encode (c :: e) (render obj) with Some b => inr (PBytes b) | None => inl EncodeError end
      | _ => inr (PStr (render obj))
      end.
Proof. exact payload_of_instance. Qed.
Print Assumptions C17_client_payload_is_render.

Theorem C17_client_wrong_input :
  forall (Obj Cls Parsed : Type) isinstance as_dict decode_dict render encode post parse
         (cfg : client_config Cls) (obj : Obj) h,
    as_dict obj = false -> isinstance obj (cc_input _ cfg) = false ->
    send Obj Cls Parsed isinstance as_dict decode_dict render encode post parse cfg obj h = ([], inl ClientValueError).
Proof. exact send_wrong_input. Qed.
Print Assumptions C17_client_wrong_input.

Theorem C17_client_send_foreign_transport :
  forall (Obj Cls Parsed : Type) isinstance as_dict decode_dict render encode post parse
         (cfg : client_config Cls) (obj : Obj) h data,
    prepare_payload Obj Cls isinstance as_dict decode_dict render encode cfg obj = inr data ->
    cc_transport _ cfg <> Some SOAP_HTTP ->
    send Obj Cls Parsed isinstance as_dict decode_dict render encode post parse cfg obj h = ([], inl ClientValueError).
Proof. exact send_foreign_transport. Qed.
Print Assumptions C17_client_send_foreign_transport.
