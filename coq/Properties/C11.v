(* Properties/C11.v — arbitrary XML survives the generic element model.
   Statements only; every proof is `exact <lemma>` of Proofs/Generic*.v.

   Reading guide.  `roundtrip_spec o m p t` = parse the event stream `pump o m p t`
   with the TreeParser, generate writer events, read them by the specification of the
   event protocol; `roundtrip_written` reads them with the faithful model of
   EventHandler.write instead.  `holder_roundtrip c o t` does the same through a typed
   class with a wildcard field described by `c`, `reg` being the holder classes the
   context finds by element qname (the theorems require that no child is one of them:
   child_ok; nested holders are under correspondence, with computed examples).  `is_full o`: every text and tail was
   fully visible when its `end` event was delivered.  Guards: Model/Generic.v. *)
From Coq Require Import NArith ZArith List Bool.
From XV Require Import Base.Str Spec.Infoset Model.Generic
  Proofs.GenericParse Proofs.GenericWrite Proofs.GenericRoundtrip Proofs.GenericNs Proofs.GenericHolder
  Proofs.GenericHolderW Proofs.GenericRefute.
Import ListNotations.

(* ---- the generic tree -------------------------------------------------------------- *)
Theorem C11_tree_parser_builds :
  forall o m p t, tree_parse (pump o m p t) = Some (any_of o m p t).
Proof. exact tree_parse_pump. Qed.
Print Assumptions C11_tree_parser_builds.

Theorem C11_any_roundtrip :
  forall o m p t,
    is_full o -> g_wf m t = true -> guard_any m t = true ->
    roundtrip_spec o m p t = Some (norm_ws (canon m t)).
Proof. exact any_roundtrip. Qed.
Print Assumptions C11_any_roundtrip.

Theorem C11_any_roundtrip_written :
  forall o m p t,
    is_full o -> g_wf m t = true -> guard_any m t = true -> guard_write m t = true ->
    roundtrip_written o m p t = Some (norm_ws (canon m t)).
Proof. exact any_roundtrip_written. Qed.
Print Assumptions C11_any_roundtrip_written.

Theorem C11_writer_agrees_with_spec :
  forall o m p t,
    g_wf m t = true -> guard_any m t = true -> guard_write m t = true ->
    roundtrip_written o m p t = roundtrip_spec o m p t.
Proof. exact writer_agrees_with_spec. Qed.
Print Assumptions C11_writer_agrees_with_spec.

(* ---- typed classes holding a wildcard ----------------------------------------------- *)
Theorem C11_holder_captures :
  forall reg c o t,
    is_full o -> holder_pre reg c t = true ->
    wild_parse reg c (pump o [] [] t)
    = Ok (mkRobj (if c_amap c then parse_any_attributes (i_nsd t ++ []) (i_atts t) else [])
                 (holder_value c (normalize_content (cut None (i_text t)))
                               (any_kids o (i_nsd t ++ []) [] 0 (i_kids t)))).
Proof. exact holder_captures. Qed.
Print Assumptions C11_holder_captures.

Theorem C11_tree_parser_eq_wildcard_capture :
  forall reg c o rq rd rx k rl,
    is_full o -> c_kind c = KSingle -> all_ws rx = true ->
    holder_pre reg c (INode rq [] rd rx [k] rl) = true ->
    exists v, tree_parse (pump o (rd ++ []) [O] k) = Some v /\
              wild_parse reg c (pump o [] [] (INode rq [] rd rx [k] rl)) = Ok (mkRobj [] (WOne v)).
Proof. exact tree_parser_eq_wildcard_capture. Qed.
Print Assumptions C11_tree_parser_eq_wildcard_capture.

Theorem C11_wildcard_list_captures_tree_parser :
  forall reg c o t,
    is_full o -> c_kind c <> KSingle -> holder_pre reg c t = true ->
    exists vs,
      map Some vs = mapi (fun i k => tree_parse (pump o (i_nsd t ++ []) [i] k)) 0 (i_kids t) /\
      exists pre ra, wild_parse reg c (pump o [] [] t) = Ok (mkRobj ra (WMany (pre ++ vs))).
Proof. exact wildcard_list_captures_tree_parser. Qed.
Print Assumptions C11_wildcard_list_captures_tree_parser.

(* single value, list, mixed list, compound field with a wildcard choice; with or
   without an Attributes map; any namespace constraint (through child_ok) *)
Theorem C11_holder_roundtrip :
  forall reg c o t,
    is_full o -> holder_pre reg c t = true ->
    holder_roundtrip reg c o t = Some (norm_ws_root (canon [] t)).
Proof. exact holder_roundtrip_ok. Qed.
Print Assumptions C11_holder_roundtrip.

(* the same through the faithful model of EventHandler.write; holder_pre_w = holder_pre
   and the two writer clauses (xsi:nil, datatype Clark values) *)
Theorem C11_holder_roundtrip_written :
  forall reg c o t,
    is_full o -> holder_pre_w reg c t = true ->
    holder_written reg c o t = Some (norm_ws_root (canon [] t)).
Proof. exact holder_written_ok. Qed.
Print Assumptions C11_holder_roundtrip_written.

(* ---- namespace constraints ------------------------------------------------------------ *)
Theorem C11_match_namespace_spec :
  forall target ks uri local,
    ks <> [] ->
    wf_ouri target = true -> wf_ouri uri = true -> wf_local local = true ->
    forallb (kw_ok target uri) ks = true ->
    match_namespace (map (resolve_kw target) ks) (qname_of uri local) = xsd_allows target ks uri.
Proof. exact match_namespace_spec. Qed.
Print Assumptions C11_match_namespace_spec.

Theorem C11_match_namespace_other_refuted :
  exists target ks uri local,
    wf_ouri target = true /\ wf_ouri uri = true /\ wf_local local = true /\
    match_namespace (map (resolve_kw target) ks) (qname_of uri local) <> xsd_allows target ks uri.
Proof. exact match_namespace_other_refuted. Qed.
Print Assumptions C11_match_namespace_other_refuted.

Theorem C11_match_namespace_target_refuted :
  exists target ks uri local,
    wf_ouri target = true /\ wf_ouri uri = true /\ wf_local local = true /\
    match_namespace (map (resolve_kw target) ks) (qname_of uri local) <> xsd_allows target ks uri.
Proof. exact match_namespace_target_refuted. Qed.
Print Assumptions C11_match_namespace_target_refuted.

(* ---- where the full statement fails: one witness per guard clause ------------------------ *)
Theorem C11_tail_cut_refuted :
  exists o t, g_wf [] t && guard_any [] t && guard_write [] t = true /\ roundtrip_spec o [] [] t <> expect t.
Proof. exact tail_cut_refuted. Qed.
Print Assumptions C11_tail_cut_refuted.

Theorem C11_text_cut_refuted :
  exists o t, g_wf [] t && guard_any [] t && guard_write [] t = true /\ roundtrip_spec o [] [] t <> expect t.
Proof. exact text_cut_refuted. Qed.
Print Assumptions C11_text_cut_refuted.

Theorem C11_xsi_nil_dropped_refuted :
  exists t, g_wf [] t && guard_any [] t && g_dtclark [] t = true /\
            roundtrip_spec full_oracle [] [] t = expect t /\ roundtrip_written full_oracle [] [] t <> expect t.
Proof. exact xsi_nil_dropped_refuted. Qed.
Print Assumptions C11_xsi_nil_dropped_refuted.

Theorem C11_attr_value_rewritten_refuted :
  exists t, g_wf [] t && g_xsitype [] t && g_space [] t && guard_write [] t = true /\
            roundtrip_spec full_oracle [] [] t <> expect t.
Proof. exact attr_value_rewritten_refuted. Qed.
Print Assumptions C11_attr_value_rewritten_refuted.

Theorem C11_attr_datatype_clark_refuted :
  exists t, g_wf [] t && guard_any [] t && g_nil [] t = true /\
            roundtrip_spec full_oracle [] [] t = expect t /\ roundtrip_written full_oracle [] [] t <> expect t.
Proof. exact attr_datatype_clark_refuted. Qed.
Print Assumptions C11_attr_datatype_clark_refuted.

Theorem C11_xsi_type_default_ns_refuted :
  exists t, g_wf [] t && g_rewrite [] t && g_space [] t && guard_write [] t = true /\
            roundtrip_spec full_oracle [] [] t <> expect t.
Proof. exact xsi_type_default_ns_refuted. Qed.
Print Assumptions C11_xsi_type_default_ns_refuted.

Theorem C11_python_space_refuted :
  exists t, g_wf [] t && g_rewrite [] t && g_xsitype [] t && guard_write [] t = true /\
            roundtrip_spec full_oracle [] [] t <> expect t.
Proof. exact python_space_refuted. Qed.
Print Assumptions C11_python_space_refuted.

Theorem C11_holder_xsi_primitive_refuted :
  exists t, g_wf [] t && guard_any [] t && guard_write [] t = true /\ g_first_level [] t = false /\
            roundtrip_spec full_oracle [] [] t = expect t /\
            holder_roundtrip reg_w cfg_single full_oracle t <> expect_root t /\
            holder_roundtrip reg_w cfg_list full_oracle t <> expect_root t /\
            holder_roundtrip reg_w cfg_mixed full_oracle t <> expect_root t.
Proof. exact holder_xsi_primitive_refuted. Qed.
Print Assumptions C11_holder_xsi_primitive_refuted.

Theorem C11_holder_xsi_primitive_choice_refuted :
  exists t, g_wf [] t && guard_any [] t && guard_write [] t = true /\
            holder_roundtrip reg_w cfg_choice full_oracle t <> expect_root t.
Proof. exact holder_xsi_primitive_choice_refuted. Qed.
Print Assumptions C11_holder_xsi_primitive_choice_refuted.

Theorem C11_holder_xsi_primitive_child_refuted :
  exists t, g_wf [] t && guard_any [] t && guard_write [] t = true /\
            roundtrip_spec full_oracle [] [] t = expect t /\
            wild_parse reg_w cfg_list (pump full_oracle [] [] t) = Err EContext.
Proof. exact holder_xsi_primitive_child_refuted. Qed.
Print Assumptions C11_holder_xsi_primitive_child_refuted.

Theorem C11_tree_parser_ne_wildcard_refuted :
  exists rd k v w,
    tree_parse (pump full_oracle (rd ++ []) [O] k) = Some v /\
    wild_parse reg_w cfg_single (pump full_oracle [] [] (INode [82%N] [] rd [] [k] [])) = Ok (mkRobj [] (WOne w)) /\
    v <> w.
Proof. exact tree_parser_ne_wildcard_refuted. Qed.
Print Assumptions C11_tree_parser_ne_wildcard_refuted.

(* holder classes found by qname below another holder (reg_w: list, mixed, single,
   list + Attributes map) *)
Theorem C11_typed_child_tail_refuted :
  exists t, g_wf [] t && guard_any [] t && guard_write [] t = true /\
            holder_written reg_w cfg_mixed full_oracle t = Some (canon [] t) /\
            holder_written reg_w cfg_list full_oracle t <> Some (canon [] t) /\
            holder_written reg_w cfg_single full_oracle t <> Some (canon [] t).
Proof. exact typed_child_tail_refuted. Qed.
Print Assumptions C11_typed_child_tail_refuted.

Theorem C11_single_holder_tail_refuted :
  exists t, g_wf [] t && guard_any [] t && guard_write [] t = true /\
            holder_roundtrip reg_w cfg_mixed full_oracle t <> Some (canon [] t) /\
            holder_written reg_w cfg_mixed full_oracle t <> Some (canon [] t).
Proof. exact single_holder_tail_refuted. Qed.
Print Assumptions C11_single_holder_tail_refuted.

Example C11_nested_holders_computed :
  holder_written reg_w cfg_mixed full_oracle w_nested_ok = Some (norm_ws (canon [] w_nested_ok)) /\
  holder_roundtrip reg_w cfg_mixed full_oracle w_nested_ok = Some (norm_ws (canon [] w_nested_ok)).
Proof. exact nested_holders_computed. Qed.
Print Assumptions C11_nested_holders_computed.

(* ---- the guards are not vacuous ------------------------------------------------------------- *)
Example C11_guards_nonvacuous :
  g_wf [] w_ok && guard_any [] w_ok && guard_write [] w_ok = true /\
  roundtrip_written full_oracle [] [] w_ok = expect w_ok.
Proof. exact guards_nonvacuous. Qed.
Print Assumptions C11_guards_nonvacuous.

Example C11_holder_pre_nonvacuous :
  holder_pre reg_w cfg_single w_ok_holder = true /\ holder_pre reg_w cfg_list w_ok_holder = true /\
  holder_pre reg_w cfg_mixed w_ok_holder = true /\ holder_pre reg_w cfg_choice w_ok_choice = true /\
  holder_pre reg_w cfg_list_amap w_ok_amap = true.
Proof. exact holder_pre_nonvacuous. Qed.
Print Assumptions C11_holder_pre_nonvacuous.

Example C11_match_namespace_guard_nonvacuous :
  forallb (kw_ok (Some [117;114;110;58;97]%N) (Some [117;114;110;58;98]%N))
          [KOther; KLocal; KTarget; KUri [117;114;110;58;99]%N] = true.
Proof. exact match_namespace_guard_nonvacuous. Qed.
Print Assumptions C11_match_namespace_guard_nonvacuous.

Example C11_holder_pre_w_nonvacuous :
  holder_pre_w reg_w cfg_single w_ok_holder = true /\ holder_pre_w reg_w cfg_list w_ok_holder = true /\
  holder_pre_w reg_w cfg_mixed w_ok_holder = true /\ holder_pre_w reg_w cfg_choice w_ok_choice = true /\
  holder_pre_w reg_w cfg_list_amap w_ok_amap = true.
Proof. exact holder_pre_w_nonvacuous. Qed.
Print Assumptions C11_holder_pre_w_nonvacuous.
