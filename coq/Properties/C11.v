(* Properties/C11.v — statements only. *)
From Coq Require Import NArith ZArith List Bool.
From XV Require Import Base.Str Spec.Infoset Model.Generic Proofs.GenericRefute.
Import ListNotations.

Theorem C11_tail_cut_refuted :
  exists o t, guard_any [] t = true /\ roundtrip o t <> Some (norm_ws (canon [] t)).
Proof. exact tail_cut_refuted. Qed.
Print Assumptions C11_tail_cut_refuted.
