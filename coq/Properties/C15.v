(* Properties/C15.v — bad input fails cleanly (statements only; binding layer).
   Model: Model/Parser.v.  Documented = {Ok, ParserError, ConverterError, XmlContextError,
   XmlHandlerError} (xsdata/exceptions.py); the model's outcome type contains the Python
   exceptions the code does not catch, so the statements below are real. *)
From Coq Require Import NArith ZArith List Bool Arith.
From XV Require Import Base.Str Base.Eqb Base.PyInt Model.Bind Model.Parser Model.ParserCorr Spec.Inject
  Proofs.ParserWitness Proofs.ParserDoc Proofs.ParserCost.
Import ListNotations.

(* FULL statement: for EVERY stream of parser events the outcome is documented.  Refuted, one
   witness per defect (each witness is a real document / stream, replayed on the implementation
   by ./check C15 on every run). *)
Definition outcome_documented_statement : Prop :=
  forall cfg c u root d, outcome_documented (parse cfg c u root d) = true.

(* 1. a required field (no default) is missing: cls( **params) raises TypeError in ElementNode.bind *)
Theorem C15_outcome_documented_refuted_missing_required :
  exists cfg c u root d, parse cfg c u root d = Err (PyTypeError TMissingArg).
Proof. do 5 eexists. exact (proj1 w_missing_required). Qed.
Print Assumptions C15_outcome_documented_refuted_missing_required.

(* 2. xsi:type = xs:hexBinary / xs:base64Binary on an anyType element with empty or
      unconvertible text: StandardNode.bind calls XmlHexBinary("") -> TypeError *)
Theorem C15_outcome_documented_refuted_bytes_wrapper :
  exists cfg c u root d, parse cfg c u root d = Err (PyTypeError TBytesWrapper).
Proof. do 5 eexists. exact (proj1 w_bytes_wrapper_empty). Qed.
Print Assumptions C15_outcome_documented_refuted_bytes_wrapper.

(* 3. text after a class-typed child of a class with a (non-mixed) wildcard field: bind_objects
      looks up the children of qname None -> match_namespace(None) -> TypeError *)
Theorem C15_outcome_documented_refuted_tail_wildcard :
  exists cfg c u root d, parse cfg c u root d = Err (PyTypeError TNoneQname).
Proof. do 5 eexists. exact (proj1 w_tail_none_qname). Qed.
Print Assumptions C15_outcome_documented_refuted_tail_wildcard.

(* 4. a wildcard field declared init=False: the parser passes it to the constructor anyway *)
Theorem C15_outcome_documented_refuted_noninit_wildcard :
  exists cfg c u root d, parse cfg c u root d = Err (PyTypeError TUnexpectedKw).
Proof. do 5 eexists. exact (proj1 w_unexpected_keyword). Qed.
Print Assumptions C15_outcome_documented_refuted_noninit_wildcard.

(* 5. (event streams only; no tokeniser produces them) an `end` without `start`: queue.pop() *)
Theorem C15_outcome_documented_refuted_unbalanced :
  exists cfg c u root d, parse cfg c u root d = Err PyIndexError.
Proof. do 5 eexists. exact (proj1 w_end_without_start). Qed.
Print Assumptions C15_outcome_documented_refuted_unbalanced.

(* GUARDED statement: one clause per refutation above, plus the well-formedness of the metadata
   the real XmlContext exports (kinds of the variables in each table of XmlMeta, one role per
   field name, every referenced class has metadata) -- evaluated in Coq on every exported
   universe by ./check C15.  `d` ranges over ALL event streams: not well nested beyond clause 5,
   not fitting the model, unknown names, wrong root, bad xsi:type / xsi:nil, unconvertible text. *)
Theorem C15_outcome_documented : forall n cfg c u root d,
  wf_universe u = true -> root_ok u root = true ->
  all_required_have_defaults cfg = true ->     (* 1: every init field has a default *)
  xsi_types_ok c d = true ->                   (* 2: no xsi:type naming a datatype with a bytes wrapper class *)
  tails_blank d = true ->                      (* 3: no character data after a child element *)
  init_fields_only u = true ->                 (* 4: wildcard / attributes fields are init fields *)
  well_nested d = true ->                      (* 5: no `end` without an open element *)
  outcome_documented (parse_n n cfg c u root d) = true.
Proof. intros. apply outcome_documented_main; assumption. Qed.
Print Assumptions C15_outcome_documented.

(* non-vacuity: real exported metadata (model `wildtail`: class-typed child, list of int,
   wildcard) and a stream with an unknown element, a misplaced end name, an unconvertible
   value and a duplicated child satisfy every guard; the outcome is a documented error *)
Definition reject_all : conv :=
  mk_conv (fun _ _ _ _ => None) (fun _ _ => []) (fun _ _ => false) (fun _ => ([], false)) (fun _ => None).
Definition d_nonvacuous : list pevent :=
  [PStart [87] [] []; PStart [99] [([118]%N, [113]%N)] []; PEnd [99] None None;
   PStart [100] [] []; PEnd [120] (Some [49;50;120]%N) None;
   PStart [99] [] []; PEnd [99] None None;
   PStart [122;122] [] []; PEnd [122;122] None None; PEnd [87] None None].
Example C15_guard_nonvacuous :
  wf_universe u_wildtail = true /\ root_ok u_wildtail (Some root_wildtail) = true
  /\ all_required_have_defaults (cfg_of true false true nodefault_wildtail) = true
  /\ xsi_types_ok reject_all d_nonvacuous = true /\ tails_blank d_nonvacuous = true
  /\ init_fields_only u_wildtail = true /\ well_nested d_nonvacuous = true
  /\ parse (cfg_of true false true nodefault_wildtail) reject_all u_wildtail (Some root_wildtail) d_nonvacuous = Err ParserError.
Proof. repeat split; vm_compute; reflexivity. Qed.

(* the exported universes of the witness models violate exactly the clause they refute *)
Example C15_guard_clauses_separate :
  all_required_have_defaults (cfg_of false false false nodefault_required) = false
  /\ xsi_types_ok (conv_of_table tbl_bytes_wrapper_empty) ev_bytes_wrapper_empty = false
  /\ tails_blank ev_tail_none_qname = false
  /\ init_fields_only u_noinitwild = false
  /\ well_nested ev_end_without_start = false
  /\ wf_universe u_required = true /\ wf_universe u_anytype = true /\ wf_universe u_wildtail = true
  /\ wf_universe u_noinitwild = true /\ wf_universe u_scalarwild = true.
Proof. repeat split; vm_compute; reflexivity. Qed.

Theorem C15_outcome_documented_parse : forall cfg c u root d,
  wf_universe u = true -> root_ok u root = true ->
  all_required_have_defaults cfg = true -> xsi_types_ok c d = true -> tails_blank d = true ->
  init_fields_only u = true -> well_nested d = true ->
  outcome_documented (parse cfg c u root d) = true.
Proof. intros. unfold parse. apply outcome_documented_main; assumption. Qed.
Print Assumptions C15_outcome_documented_parse.

(* bounded time, binding layer: the model is a structural recursion over the event list (total
   by construction; UnionNode replays by fuel); beyond termination: one step per event, and the
   loops over child objects (bind_objects / bind_mixed_objects / fetch_any_children) make at
   most 2 iterations per event over the whole parse.  `run_cost` = sum over the steps of
   1 + (number of child objects the ending node binds).  Replay work of UnionNodes not counted. *)
Theorem C15_parse_work_linear : forall cfg c u replay root evs,
  (run_cost cfg c u replay root init_state evs <= 3 * length evs)%nat.
Proof. exact parse_work_linear. Qed.
Print Assumptions C15_parse_work_linear.
