(* Properties/C15.v — bad input fails cleanly (statements only; binding layer).
   Model: Model/Parser.v.  Documented = {Ok, ParserError, ConverterError, XmlContextError,
   XmlHandlerError} (xsdata/exceptions.py); the model's outcome type contains the Python
   exceptions the code does not catch, so the statements below are real. *)
From Coq Require Import NArith ZArith List Bool Arith.
From XV Require Import Base.Str Base.Eqb Base.PyInt Model.Bind Model.Parser Model.ParserCorr Spec.Inject
  Proofs.ParserWitness.
Import ListNotations.

(* FULL statement: for EVERY stream of parser events the outcome is documented.  Refuted, one
   witness per defect (each witness is a real document / stream, replayed on the implementation
   by ./check C15 on every run). *)
Definition outcome_documented_statement : Prop :=
  forall cfg c u root d, outcome_documented (parse cfg c u root d) = true.

(* 1. a required field (no default) is missing: cls( **params) raises TypeError in ElementNode.bind *)
Theorem C15_outcome_documented_refuted_missing_required :
  exists cfg c u root d, parse cfg c u root d = Err (PyTypeError TMissingArg).
Proof. do 5 eexists. exact (proj1 w_missing_required). Qed.
Print Assumptions C15_outcome_documented_refuted_missing_required.

(* 2. xsi:type = xs:hexBinary / xs:base64Binary on an anyType element with empty or
      unconvertible text: StandardNode.bind calls XmlHexBinary("") -> TypeError *)
Theorem C15_outcome_documented_refuted_bytes_wrapper :
  exists cfg c u root d, parse cfg c u root d = Err (PyTypeError TBytesWrapper).
Proof. do 5 eexists. exact (proj1 w_bytes_wrapper_empty). Qed.
Print Assumptions C15_outcome_documented_refuted_bytes_wrapper.

(* 3. text after a class-typed child of a class with a (non-mixed) wildcard field: bind_objects
      looks up the children of qname None -> match_namespace(None) -> TypeError *)
Theorem C15_outcome_documented_refuted_tail_wildcard :
  exists cfg c u root d, parse cfg c u root d = Err (PyTypeError TNoneQname).
Proof. do 5 eexists. exact (proj1 w_tail_none_qname). Qed.
Print Assumptions C15_outcome_documented_refuted_tail_wildcard.

(* 4. a wildcard field declared init=False: the parser passes it to the constructor anyway *)
Theorem C15_outcome_documented_refuted_noninit_wildcard :
  exists cfg c u root d, parse cfg c u root d = Err (PyTypeError TUnexpectedKw).
Proof. do 5 eexists. exact (proj1 w_unexpected_keyword). Qed.
Print Assumptions C15_outcome_documented_refuted_noninit_wildcard.

(* 5. (event streams only; no tokeniser produces them) an `end` without `start`: queue.pop() *)
Theorem C15_outcome_documented_refuted_unbalanced :
  exists cfg c u root d, parse cfg c u root d = Err PyIndexError.
Proof. do 5 eexists. exact (proj1 w_end_without_start). Qed.
Print Assumptions C15_outcome_documented_refuted_unbalanced.
