(* Properties/C15.v — bad input fails cleanly (statements only; binding layer).
   Model: Model/Parser.v.  Documented = {Ok, ParserError, ConverterError, XmlContextError,
   XmlHandlerError} (xsdata/exceptions.py); the model's outcome type contains the Python
   exceptions the code does not catch, so the statements below are real.

   History.  The full statement had five machine-checked refutations.  Four of the defects
   were repaired in /repo and their refutations and guard clauses are gone:
     missing required field / init=False wildcard -> TypeError from cls( **params)   fixed 24a005e
     xs:hexBinary / xs:base64Binary wrapper on empty or unconverted text -> TypeError  fixed 32d0281
     text after a class-typed child next to a wildcard -> TypeError                   fixed 8cca284
   their witnesses stay in Proofs/ParserWitness.v (model = observation, documented) and are
   replayed on the implementation by ./check C15 on every run. *)
From Coq Require Import NArith ZArith List Bool Arith.
From XV Require Import Base.Str Base.Eqb Base.PyInt Model.Bind Model.DictCodec Model.DictLeak Model.DictLeakCorr
  Proofs.DictLeakDoc Model.Parser Model.ParserCorr Spec.Inject
  Proofs.ParserWitness Proofs.ParserDoc Proofs.ParserCost.
Import ListNotations.

(* FULL statement: for EVERY stream of parser events the outcome is documented. *)
Definition outcome_documented_statement : Prop :=
  forall cfg c u root d, outcome_documented (parse cfg c u root d) = true.

(* the one remaining refutation (event streams only; no tokeniser produces them): an `end`
   without `start` reaches queue.pop() on an empty list *)
Theorem C15_outcome_documented_refuted_unbalanced :
  exists cfg c u root d, parse cfg c u root d = Err PyIndexError.
Proof. do 5 eexists. exact (proj1 w_end_without_start). Qed.
Print Assumptions C15_outcome_documented_refuted_unbalanced.

(* GUARDED statement: the clause of the remaining refutation (well_nested), the validity of the
   converter parameter (resolving an xsi:type value gives a QName or fails), and the
   well-formedness of the metadata the real XmlContext exports (kinds of the variables in each
   table of XmlMeta, one role per field name, every referenced class has metadata) -- the last
   two evaluated in Coq on every case / every exported universe by ./check C15.
   `d` ranges over ALL well nested event streams: not fitting the model, unknown names, wrong
   root, missing required fields, character data anywhere, bad xsi:type / xsi:nil,
   unconvertible text. *)
Theorem C15_outcome_documented : forall n cfg c u root d,
  wf_universe u = true -> root_ok u root = true ->
  xsi_types_ok c d = true ->
  well_nested d = true ->
  outcome_documented (parse_n n cfg c u root d) = true.
Proof. exact outcome_documented_main. Qed.
Print Assumptions C15_outcome_documented.

Theorem C15_outcome_documented_parse : forall cfg c u root d,
  wf_universe u = true -> root_ok u root = true ->
  xsi_types_ok c d = true -> well_nested d = true ->
  outcome_documented (parse cfg c u root d) = true.
Proof. exact outcome_documented_parse. Qed.
Print Assumptions C15_outcome_documented_parse.

(* non-vacuity: real exported metadata (model `wildtail`: class-typed child, list of int,
   wildcard) and a stream with an unknown element, a misplaced end name, an unconvertible
   value, a duplicated child and stray character data satisfy every guard *)
Definition reject_all : conv :=
  mk_conv (fun _ _ _ _ => None) (fun _ _ => []) (fun _ _ => false) (fun _ => ([], false)) (fun _ => None).
Definition d_nonvacuous : list pevent :=
  [PStart [87] [] []; PStart [99] [([118]%N, [113]%N)] []; PEnd [99] None (Some [116;97;105;108]%N);
   PStart [100] [] []; PEnd [120] (Some [49;50;120]%N) None;
   PStart [99] [] []; PEnd [99] None None;
   PStart [122;122] [] []; PEnd [122;122] None None; PEnd [87] None None].
Example C15_guard_nonvacuous :
  wf_universe u_wildtail = true /\ root_ok u_wildtail (Some root_wildtail) = true
  /\ xsi_types_ok reject_all d_nonvacuous = true /\ well_nested d_nonvacuous = true
  /\ parse (cfg_of true false true nodefault_wildtail) reject_all u_wildtail (Some root_wildtail) d_nonvacuous = Err ParserError.
Proof. repeat split; vm_compute; reflexivity. Qed.

(* the former witnesses now satisfy every guard (and are documented by the theorem), the
   remaining one violates exactly its clause; the exported universes are well formed *)
Example C15_former_witnesses_guarded :
  well_nested ev_missing_required = true /\ well_nested ev_tail_none_qname = true
  /\ well_nested ev_bytes_wrapper_empty = true /\ well_nested ev_unexpected_keyword = true
  /\ xsi_types_ok (conv_of_table tbl_bytes_wrapper_empty) ev_bytes_wrapper_empty = true
  /\ well_nested ev_end_without_start = false
  /\ wf_universe u_required = true /\ wf_universe u_anytype = true /\ wf_universe u_wildtail = true
  /\ wf_universe u_noinitwild = true /\ wf_universe u_scalarwild = true.
Proof. repeat split; vm_compute; reflexivity. Qed.

(* bounded time, binding layer: the model is a structural recursion over the event list (total
   by construction; UnionNode replays by fuel); beyond termination: one step per event, and the
   loops over child objects (bind_objects / bind_mixed_objects / fetch_any_children) make at
   most 2 iterations per event over the whole parse.  `run_cost` = sum over the steps of
   1 + (number of child objects the ending node binds).  Replay work of UnionNodes not counted. *)
Theorem C15_parse_work_linear : forall cfg c u replay root evs,
  (run_cost cfg c u replay root init_state evs <= 3 * length evs)%nat.
Proof. exact parse_work_linear. Qed.
Print Assumptions C15_parse_work_linear.

(* ---------------------------------------------------------------- dictionary / JSON decoder *)
(* Model/DictLeak.v: DictDecoder.decode / verify_type / detect_type / bind_dataclass / find_var /
   bind_value / bind_text / bind_complex_type / bind_best_dataclass / bind_derived_value over
   ARBITRARY JSON values; `dkind` contains TypeError, AttributeError, KeyError, IndexError,
   ValueError, AssertionError next to the documented errors.  For every JSON value -- any JSON
   kind at any key --, every configuration, with or without a target class, the decoder answers
   a value or a documented error, provided the exported metadata is closed (dict_wf: the class of
   every field and of every xsi index entry has metadata, choices have no choices; evaluated in
   Coq on every exported universe).  No refutation is left: the leaks this statement had on the
   original tree (F10, F11, F14, F15, F17, F18) were repaired in /repo (76c1b13 ee69885 40fe45b
   c47e5c1 d56ac8c) and the model follows the repaired code; the unreachable Python-error branches
   of the model (`value[var.local_name]` on a non-dictionary, `" ".join` of None, `data[key]`)
   are proved unreachable.  Not covered: Python's recursion limit (finding C15-F19). *)
Definition dict_outcome_documented (r : dres value) : bool :=
  match r with DOk _ => true | DErr k => ddocumented k end.

Theorem C15_dict_outcome_documented : forall g c u cfg clazz is_list j,
  dict_wf u g = true ->
  match clazz with Some cl => has_meta u cl = true | None => True end ->
  dict_outcome_documented (DictLeak.decode g c u cfg clazz is_list j) = true.
Proof.
  intros g c u cfg clazz is_list j Hwf Hroot.
  pose proof (decode_documented g c u Hwf cfg clazz is_list j Hroot) as H.
  unfold dict_outcome_documented. destruct (DictLeak.decode g c u cfg clazz is_list j); [reflexivity|exact H].
Qed.
Print Assumptions C15_dict_outcome_documented.

(* non-vacuity: real exported metadata (model `wildtail` with the generic classes) is closed, and
   misfit documents -- an unknown key with a list value inside a nested object, a list nested in
   a list of integers, a scalar document without target class -- are answered with ParserError *)
Example C15_dict_guard_nonvacuous :
  dict_wf u_wildtail g_wildtail = true /\ dict_wf u_required g_required = true /\ dict_wf u_anytype g_anytype = true
  /\ DictLeak.decode g_wildtail reject_all u_wildtail (mk_dconfig true false []) (Some root_wildtail) false
       (JDict [([99]%N, JDict [([122;122]%N, JList false [JNull; JBool true])])]) = DErr KParserError
  /\ DictLeak.decode g_wildtail reject_all u_wildtail (mk_dconfig true false []) (Some root_wildtail) false
       (JDict [([100]%N, JList false [JList false [JNull]])]) = DErr KParserError
  /\ DictLeak.decode g_wildtail reject_all u_wildtail (mk_dconfig true false []) None false (JInt 3) = DErr KParserError.
Proof. repeat split; vm_compute; reflexivity. Qed.
