(* Properties/C10.v — strictness options do what they say (statements only).
   Model: Model/Parser.v (parsers/bases.py, parsers/nodes/*.py, parsers/utils.py, parsers/config.py);
   specification of "adding unknown content": Spec/Inject.v; the notion "the innermost open
   element is bound to a class" is the parser's own binding of the prefix (Model/ParserCorr.v:
   skips_child / drops_attr / admissible_step), evaluated with these same definitions by the
   oracle of harness/c10.py on the implementation's observed outcomes.

   `parse_n n` is the parser with fuel n for UnionNode replays; `parse = parse_n (length evs)`.
   The statements hold for every fuel. *)
From Coq Require Import NArith ZArith List Bool Arith.
From XV Require Import Base.Str Base.Eqb Base.PyInt Model.Bind Model.DictCodec Model.DictLeak Model.DictLeakCorr
  Proofs.DictLeakDoc Proofs.DictLeakSkip Model.Parser Model.ParserCorr Spec.Inject
  Proofs.ParserSkip Proofs.ParserMatrix Proofs.ParserAttrs Proofs.ParserWitness Proofs.ParserFuel.
Import ListNotations.

(* 1. fail_on_unknown_properties = False: a balanced subtree (any attributes, any text, any
      descendants) whose root name matches no field / choice / wildcard of the class the
      enclosing element is bound to -- directly, inside one of its wrapper elements, or
      anywhere inside an already skipped subtree -- does not change the outcome (value,
      warnings or error) *)
Theorem C10_skip_transparent_element : forall n cfg c u root pre sub post st q,
  fail_unknown_props cfg = false ->
  is_tree sub = true -> tree_root sub = Some q ->
  run_n n cfg c u root pre = ROk st ->
  skips_child st q = true ->
  parse_n n cfg c u root (pre ++ sub ++ post) = parse_n n cfg c u root (pre ++ post).
Proof. exact skip_transparent_sub. Qed.
Print Assumptions C10_skip_transparent_element.

(* 2. unknown attributes: an attribute that matches no attribute / any-attribute field of the
      class the element is bound to (or any attribute of a skipped element) is dropped when
      fail_on_unknown_attributes is off or the attribute is in the xsi namespace (xsi:type and
      xsi:nil, which the parser interprets, excepted) ... *)
Theorem C10_skip_transparent_attribute : forall n cfg c u root d' i k d,
  admissible_step n cfg c u root d' (UndoAttr i k) = true ->
  undo_step d' (UndoAttr i k) = Some d ->
  parse_n n cfg c u root d' = parse_n n cfg c u root d.
Proof. exact undo_attr_transparent. Qed.
Print Assumptions C10_skip_transparent_attribute.

(* ... FULL statement without the clause `attrs_not_captured` of drops_attr is refuted: a class
   with a scalar wildcard field stores ALL attributes of its element, unknown ones included, in
   the AnyElement that receives the element's text (ElementNode.bind_wild_text) *)
Theorem C10_unknown_attribute_dropped_refuted :
  exists cfg t t' u root d d',
    fail_unknown_attrs cfg = false /\
    undo_step d' (UndoAttr 0 0) = Some d /\
    outcome_eqb (parse cfg (conv_of_table t') u root d') (parse cfg (conv_of_table t) u root d) = false.
Proof.
  exists (cfg_of false false false nodefault_scalarwild), tbl_attr_captured_plain, tbl_attr_captured,
         u_scalarwild, (Some root_scalarwild), ev_attr_captured_plain, ev_attr_captured.
  repeat split; vm_compute; reflexivity.
Qed.
Print Assumptions C10_unknown_attribute_dropped_refuted.

(* 3. any set of such injections (the closure the oracle evaluates) *)
Theorem C10_skip_transparent : forall n cfg c u root steps d' d,
  undo_admissible n cfg c u root d' steps = Some d ->
  parse_n n cfg c u root d' = parse_n n cfg c u root d.
Proof. exact undo_admissible_transparent. Qed.
Print Assumptions C10_skip_transparent.

(* non-vacuity: a real document, a real injection set that satisfies the hypotheses *)
Example C10_skip_transparent_nonvacuous :
  undo_admissible 20 (cfg_of false false false nodefault_required) (conv_of_table tbl_missing_required_inner) u_required
    (Some root_required)
    (firstn 3 ev_missing_required_inner
     ++ [PStart [122;122] [([122]%N, [49]%N)] []; PStart [97] [] []; PEnd [97] (Some [49]%N) None; PEnd [122;122] None (Some [116]%N)]
     ++ skipn 3 ev_missing_required_inner)
    [UndoSub 3 4] = Some ev_missing_required_inner.
Proof. vm_compute. reflexivity. Qed.

(* 4. strict default: one unknown element at a class-bound position -> ParserError *)
Theorem C10_strict_rejects : forall n cfg c u root pre sub post st q,
  fail_unknown_props cfg = true ->
  tree_root sub = Some q ->
  run_n n cfg c u root pre = ROk st ->
  class_bound_unknown st q = true ->
  parse_n n cfg c u root (pre ++ sub ++ post) = Err ParserError.
Proof. exact strict_rejects_sub. Qed.
Print Assumptions C10_strict_rejects.

(* 5. the unknown-attribute matrix of ElementNode.bind_attrs: fails iff
      fail_on_unknown_attributes and the attribute is not in the xsi namespace *)
Theorem C10_unknown_attr_matrix : forall cfg c en a1 a v a2 p ws,
  unknown_attr (en_meta en) a = true ->
  bind_attrs_loop cfg c en (a1 ++ (a, v) :: a2) p ws
  = match bind_attrs_loop cfg c en a1 p ws with
    | RErr k => RErr k
    | ROk r =>
        if fail_unknown_attrs cfg && negb (in_xsi_namespace a) then RErr ParserError
        else bind_attrs_loop cfg c en a2 (fst r) (snd r)
    end.
Proof. exact unknown_attr_matrix_loop. Qed.
Print Assumptions C10_unknown_attr_matrix.

(* 6. the conversion matrix: an unconvertible text is kept as given with exactly one
      conversion warning, or is a ParserError iff fail_on_converter_warnings *)
Theorem C10_conversion_matrix : forall c failc m var s ns,
  unconvertible c var (v_types var) (v_format var) ns s = true ->
  parse_var c failc m var (Some s) ns None None
  = if failc then RErr ParserError
    else ROk (VP (PStr s), [WConv (m_clazz m) (v_name var)]).
Proof. exact conversion_matrix_var. Qed.
Print Assumptions C10_conversion_matrix.

Theorem C10_conversion_matrix_element : forall cfg c u replay root st m var ns Q q s tail,
  st_queue st = NPrimitive m var ns :: Q ->
  unconvertible c var (v_types var) (v_format var) ns s = true ->
  step cfg c u replay root st (PEnd q (Some s) tail)
  = if fail_conv_warnings cfg then RErr ParserError
    else ROk (mk_pstate Q
                (let objs1 := st_objects st ++ [(Some q, VP (PStr s))] in
                 if m_mixed_content m then append_tail objs1 tail else objs1)
                (st_warn st ++ [WConv (m_clazz m) (v_name var)])).
Proof. exact conversion_matrix_step. Qed.
Print Assumptions C10_conversion_matrix_element.

Theorem C10_conversion_matrix_attribute : forall cfg c en var s p,
  v_init var = true ->
  unconvertible c var (v_types var) (v_format var) (en_ns en) s = true ->
  bind_attr cfg c en var s p
  = if fail_conv_warnings cfg then RErr ParserError
    else ROk (pset (v_name var) (PV (VP (PStr s))) p, [WConv (m_clazz (en_meta en)) (v_name var)]).
Proof. exact conversion_matrix_attr. Qed.
Print Assumptions C10_conversion_matrix_attribute.

(* 7. the fuel of `parse` is enough (a UnionNode replays a strictly shorter stream), so the
      statements above read for `parse` itself: *)
Theorem C10_parse_fuel : forall n c u cfg root evs,
  (length evs <= n)%nat -> parse_n n cfg c u root evs = parse cfg c u root evs.
Proof. exact parse_n_ge. Qed.
Print Assumptions C10_parse_fuel.

Theorem C10_skip_transparent_parse : forall cfg c u root steps d' d,
  undo_admissible (length d') cfg c u root d' steps = Some d ->
  parse cfg c u root d' = parse cfg c u root d.
Proof. exact skip_transparent_parse. Qed.
Print Assumptions C10_skip_transparent_parse.

Theorem C10_strict_rejects_parse : forall cfg c u root pre sub post st q,
  fail_unknown_props cfg = true ->
  tree_root sub = Some q ->
  run_n (length (pre ++ sub ++ post)) cfg c u root pre = ROk st ->
  class_bound_unknown st q = true ->
  parse cfg c u root (pre ++ sub ++ post) = Err ParserError.
Proof. intros. unfold parse. eapply strict_rejects_sub; eassumption. Qed.
Print Assumptions C10_strict_rejects_parse.

(* 8. UnionNode (elements bound through a union of classes are recorded and replayed per
      candidate): the replay configuration differs from the user's only in
      fail_on_converter_warnings, and it is the only configuration the replay is called with;
      so the strictness options act inside union-bound elements as everywhere else, and an
      injection that is transparent for every candidate's replay is transparent for the union *)
Theorem C10_union_replay_config : forall k,
  fail_unknown_props (with_fail_conv k) = fail_unknown_props k
  /\ fail_unknown_attrs (with_fail_conv k) = fail_unknown_attrs k
  /\ cf_nodefault (with_fail_conv k) = cf_nodefault k
  /\ fail_conv_warnings (with_fail_conv k) = true.
Proof. exact with_fail_conv_spec. Qed.
Print Assumptions C10_union_replay_config.

Theorem C10_union_replay_only_config : forall cfg c (r1 r2 : replay_t) un q t tl objs,
  (forall root' evs', r1 (with_fail_conv cfg) root' evs' = r2 (with_fail_conv cfg) root' evs') ->
  union_bind cfg c r1 un q t tl objs = union_bind cfg c r2 un q t tl objs.
Proof. exact union_bind_replay_config. Qed.
Print Assumptions C10_union_replay_only_config.

(* 9. dictionary / JSON decoder (Model/DictLeak.v): with fail_on_unknown_properties off, a key
      that matches no field and no wrapper of the class (DictDecoder.find_var answers None) can be
      added anywhere in a dictionary bound by bind_dataclass without changing the outcome (the
      derived-element key set {qname, type, value} excepted: it switches the reading of the
      dictionary); with the strict default the same key is a ParserError *)
Theorem C10_dict_unknown_key_transparent : forall g c u cfg cl meta m1 k x m2,
  d_fail_unknown cfg = false ->
  u_meta u cl = Some meta ->
  find_var (get_all_vars meta) k x = None ->
  keys_are (m1 ++ m2) DERIVED_KEYS = false ->
  keys_are (m1 ++ (k, x) :: m2) DERIVED_KEYS = false ->
  DictLeak.decode g c u cfg (Some cl) false (JDict (m1 ++ (k, x) :: m2))
  = DictLeak.decode g c u cfg (Some cl) false (JDict (m1 ++ m2)).
Proof. exact decode_unknown_key_transparent. Qed.
Print Assumptions C10_dict_unknown_key_transparent.

Theorem C10_dict_unknown_key_transparent_nested : forall g c u cfg cl meta m1 k x m2,
  d_fail_unknown cfg = false ->
  u_meta u cl = Some meta ->
  find_var (get_all_vars meta) k x = None ->
  keys_are (m1 ++ m2) DERIVED_KEYS = false ->
  keys_are (m1 ++ (k, x) :: m2) DERIVED_KEYS = false ->
  dec g c u (JDict (m1 ++ (k, x) :: m2)) cfg (EDataclass cl) = dec g c u (JDict (m1 ++ m2)) cfg (EDataclass cl).
Proof. exact dict_unknown_key_transparent. Qed.
Print Assumptions C10_dict_unknown_key_transparent_nested.

Theorem C10_dict_unknown_key_strict : forall g c u cfg cl meta m1 k x m2 acc,
  d_fail_unknown cfg = true ->
  u_meta u cl = Some meta ->
  find_var (get_all_vars meta) k x = None ->
  keys_are (m1 ++ (k, x) :: m2) DERIVED_KEYS = false ->
  bind_items c cfg meta (get_all_vars meta) m1 (map (fun kv => (fst kv, dec g c u (snd kv))) m1) [] = DOk acc ->
  dec g c u (JDict (m1 ++ (k, x) :: m2)) cfg (EDataclass cl) = DErr KParserError.
Proof. exact dict_unknown_key_strict. Qed.
Print Assumptions C10_dict_unknown_key_strict.
