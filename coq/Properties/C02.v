(* Properties/C02.v — statements only. *)
From XV Require Import Base.Str Spec.Cm Spec.XsdVal Spec.XsdCm Proofs.Cm.

Theorem C02_count_le_maxcount : forall q c w, lang c w -> ele (count q w) (maxcount c q).
Proof. exact count_le_maxcount. Qed.
Print Assumptions C02_count_le_maxcount.
