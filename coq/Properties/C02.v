(* Properties/C02.v — C02: generated classes are faithful to the XML Schema they came from.
   Statements only; every proof is `exact <lemma>` followed by Print Assumptions.

   Level: translation validation.  The generator pipeline (parsers, mappers, ~25 handlers, Filters, templates)
   is NOT modelled; for every generated program the harness feeds the binding metadata the real XmlContext
   built and the schema as read by an independent reader to the validator whose soundness is proved here.

   Spec side: Spec/Cm.v (content models, language, slot assignment), Spec/XsdCm.v (namespace-constrained
   wildcards, the encoding, schemas, typed infosets), Spec/XsdVal.v (simple types and value equality).
   What is proved, what is only validated per program, what is missing: design.d/C02.md. *)
From Coq Require Import NArith ZArith List Bool Arith Permutation.
From XV Require Import Base.Str Base.Eqb Spec.Cm Spec.XsdVal Spec.XsdCm Spec.XsdPrims
  Model.ConvBool Model.ConvFactory Model.XsdCorr
  Proofs.Cm Proofs.XsdCm Proofs.XsdTypes Proofs.XsdTree Proofs.XsdExamples.
Import ListNotations.

(* ======================= every valid children word is accepted ======================= *)
(* the validator accepts (c, m)  ==>  every word of the content model is bound by the greedy slot assignment of
   ElementNode.child over m's fields (namespace-constrained wildcards included) and fills every required field *)
Theorem C02_children_accepted : forall c m w,
  xcheck_children c m = true -> xlang c w -> xaccepts_word m w = true.
Proof. exact xcheck_sound. Qed.
Print Assumptions C02_children_accepted.

(* capacity form: no kind of child occurs more often than the fields for it can hold *)
Theorem C02_capacity : forall c m,
  xcheck_children c m = true ->
  forall w, xlang c w ->
    let K := known_names c m in let NSS := known_nss c m in
    (forall q, ele (count q (map (abs_name K NSS) w)) (capacity (xenc_meta c m) q))
    /\ xaccepts_word m w = true.
Proof. exact xaccepts_all_sound. Qed.
Print Assumptions C02_capacity.

(* the reused word-level theorems of the shared validator *)
Theorem C02_count_le_maxcount : forall q c w, lang c w -> ele (count q w) (maxcount c q).
Proof. exact count_le_maxcount. Qed.
Print Assumptions C02_count_le_maxcount.

(* ======================= lossless (level of the abstract metadata) ======================= *)
(* accepted, and what the serializer emits (fields by rank, items of a field in arrival order) is a
   permutation of the children that were parsed: nothing lost, nothing invented *)
Theorem C02_lossless : forall c m w,
  xcheck_children c m = true -> xlang c w ->
  xaccepts_word m w = true /\ Permutation w (emit_order (xrank_of (xm_fields m)) w).
Proof. exact xlossless. Qed.
Print Assumptions C02_lossless.

(* attributes: a declared attribute, present or absent, comes back with the value an XSD-aware reader sees
   (defaults and fixed values materialise), values compared canonically per simple type *)
Theorem C02_attributes : forall d k,
  attrs_check d k = true ->
  forall x, In x (td_attrs d) -> forall present, valid_attr (attr_decl_canon x) present = true ->
    exists f, afield_roundtrip f present = Some (effective (attr_decl_canon x) present).
Proof. exact xattrs_sound. Qed.
Print Assumptions C02_attributes.

(* ======================= order ======================= *)
(* under the decidable side condition the serializer's order IS the document order *)
Theorem C02_order_preserved : forall c m w,
  xorder_safe c m = true -> xlang c w -> emit_order (xrank_of (xm_fields m)) w = w.
Proof. exact xorder_preserved. Qed.
Print Assumptions C02_order_preserved.

(* ======================= not retyped ======================= *)
(* a compatible field has ONE candidate type, the one the schema type is bound to: converter priority
   (sort_types) has nothing to choose, whatever the converter *)
Theorem C02_not_retyped_first_type : forall (V : Type) (conv : pytype -> str -> option V) b ws f py fmt s v,
  type_compat (STAtom b None ws) f = true -> expected_py b = Some (py, fmt) ->
  conv (TName py) s = Some v ->
  deserialize_gen conv s (sort_types (map TName (ft_types f))) = Some (TName py, v).
Proof. exact @type_compat_first_type. Qed.
Print Assumptions C02_not_retyped_first_type.

(* ... and under `conv_faithful` (what C05 must provide for the builtin: every lexical form is accepted by the
   bound Python type and written back XSD-equal) every lexical form survives the round trip as the same value.
   PARTIAL: conv_faithful is an explicit hypothesis.  It is discharged from C05's theorems, in terms of
   Spec/XsdVal.v's own canon functions, for xs:boolean and xs:string (below).  For the xs:integer family, xs:decimal,
   xs:hexBinary, xs:base64Binary, xs:date, xs:time and xs:dateTime its content (every lexical form accepted, written
   back as a lexical form of the same value) is established by citation of C05 / C06 at the END of this file, stated
   over the generative lexical spaces of Spec/XsdPrims.v / Spec/XsdDates.v under C05's / C06's guards; the bridge from
   those specifications to Spec/XsdVal.v's canon functions is NOT proved.  Not discharged at all: float/double
   (C05's float theorems are parametric in the float model), duration and the g* types (C06 proves acceptance only),
   QName / anyURI / the token family beyond xs:string. *)
Theorem C02_not_retyped_atomic_partial :
  forall (V : Type) (conv : pytype -> str -> option V) (ser : V -> option str -> option str) b ws f py fmt,
  type_compat (STAtom b None ws) f = true -> expected_py b = Some (py, fmt) ->
  conv_faithful conv ser b ws py fmt ->
  forall s, value_valid (STAtom b None ws) s = true ->
    exists v out, deserialize_gen conv s (sort_types (map TName (ft_types f))) = Some (TName py, v)
                  /\ ser v (ft_format f) = Some out /\ value_eqb (STAtom b None ws) s out = true.
Proof. exact @not_retyped_atomic. Qed.
Print Assumptions C02_not_retyped_atomic_partial.

Theorem C02_not_retyped_boolean : forall core c a b,
  canon_builtin B_boolean core = Some c -> forallb xml_ws a = true -> forallb xml_ws b = true ->
  exists v, bool_deser (a ++ core ++ b) = Some v /\ canon_builtin B_boolean (bool_ser v) = Some c.
Proof. exact not_retyped_boolean. Qed.
Print Assumptions C02_not_retyped_boolean.

Theorem C02_not_retyped_string : forall s,
  exists v, string_deser s = Some v /\ value_eqb (STAtom B_string None WsPreserve) s (string_ser v) = true.
Proof. exact not_retyped_string. Qed.
Print Assumptions C02_not_retyped_string.

(* ======================= output-only options ======================= *)
(* metadata of two option sets that is equal up to what output-only options change (collection factories and
   class nesting are not part of the abstract at all) accepts the same words *)
Theorem C02_options_irrelevant : forall m m',
  meta_equiv m m' = true -> forall w, xaccepts_word m w = xaccepts_word m' w.
Proof. exact options_irrelevant. Qed.
Print Assumptions C02_options_irrelevant.

(* ======================= from checked pairs to documents ======================= *)
(* the pairing of schema types with classes is proposed by the harness and CHECKED (pair_flags): if every pair
   passes the word-level validator and is closed, every schema-valid element tree rooted at a paired type is
   accepted at every node *)
Theorem C02_tree_accepted : forall p,
  pairs_checked p ->
  forall tr, tvalid (p_schema p) tr -> forall c, pair_mem p (st_type tr) c = true -> baccepts p c tr.
Proof. exact tree_accepted. Qed.
Print Assumptions C02_tree_accepted.

(* ======================= non-vacuity ======================= *)
Example C02_example_accepts :
  xcheck_children ex_cm ex_meta = true /\ xlang ex_cm [nA; nA; nB; nW] /\ xaccepts_word ex_meta [nA; nA; nB; nW] = true.
Proof. exact (conj ex_check (conj ex_word_valid ex_word_accepted)). Qed.
Print Assumptions C02_example_accepts.

Example C02_example_rejects :
  xcheck_children ex_cm ex_meta_small = false /\ xrejected_word ex_cm ex_meta_small = Some [nA; nA; nA].
Proof. exact ex_rejects. Qed.
Print Assumptions C02_example_rejects.

Example C02_example_order :
  xorder_safe ex_choice ex_compound = true /\ xorder_safe ex_choice ex_plain = false
  /\ xorder_claimed ex_choice = true
  /\ emit_order (xrank_of (xm_fields ex_plain)) [nB; nA] = [nA; nB].
Proof. exact ex_order. Qed.
Print Assumptions C02_example_order.

Example C02_example_type_compat :
  type_compat (STAtom B_int None WsCollapse) (mk_ftype [py_int] None false None) = true
  /\ type_compat (STAtom B_int None WsCollapse) (mk_ftype [py_str] None false None) = false
  /\ type_compat (STAtom B_int None WsCollapse) (mk_ftype [py_int; py_str] None false None) = false
  /\ type_compat (STAtom B_hexBinary None WsCollapse) (mk_ftype [py_bytes] None false None) = false
  /\ type_compat (STAtom B_hexBinary None WsCollapse) (mk_ftype [py_bytes] (Some fmt_base16) false None) = true.
Proof. exact ex_type_compat. Qed.
Print Assumptions C02_example_type_compat.

Example C02_example_meta_equiv :
  meta_equiv ex_meta ex_meta = true /\ meta_equiv ex_meta ex_meta_small = false.
Proof. exact ex_meta_equiv. Qed.
Print Assumptions C02_example_meta_equiv.

(* ======================= not retyped: further types by citation of C05 / C06 ======================= *)
(* Every lexical form of the XSD type (Spec/XsdPrims.v, Spec/XsdDates.v: the generative lexical spaces C05 / C06 are
   proved against), with XML white space around it, is accepted by the Python type the schema type is bound to
   (`expected_py`), and what the converter writes back is again a lexical form of that type denoting the same value,
   which reads back to the same Python value.  Guards are C05's / C06's (digit limits, finite year widths, real
   calendar values).  These statements are NOT instances of `conv_faithful` as typed: they speak about
   Spec/XsdPrims.v / Spec/XsdDates.v, not about Spec/XsdVal.v's canon functions. *)
From XV Require Import Base.Dec Base.PyInt Gen.ConvTables Model.ConvInt Model.ConvBytes Model.ConvDecimal Model.ConvGuards
  Model.Dates Model.DatesCorr Spec.XsdDates Proofs.DatesParse Proofs.DatesFormat.

Theorem C02_not_retyped_integer : forall i a b,
  wf_integer i = true -> int_sp_in_limit i = true ->
  forallb xml_ws a = true -> forallb xml_ws b = true ->
  (int_ndigits (val_integer i) <= int_max_str_digits)%N ->
  exists out i', int_deser (a ++ lex_integer i ++ b) = Some (val_integer i)
    /\ int_ser (val_integer i) = Some out
    /\ wf_integer i' = true /\ lex_integer i' = out /\ val_integer i' = val_integer i
    /\ int_deser out = Some (val_integer i).
Proof. exact not_retyped_integer. Qed.
Print Assumptions C02_not_retyped_integer.

Theorem C02_not_retyped_decimal : forall d a b,
  wf_decimal d = true -> dec_sp_fits d = true ->
  forallb xml_ws a = true -> forallb xml_ws b = true ->
  let v := val_decimal d in
  let py := DFin (dn_neg v) (dn_coeff v) (dn_exp v) in
  exists d', dec_deser (a ++ lex_decimal d ++ b) = Some py
    /\ wf_decimal d' = true /\ lex_decimal d' = dec_ser py
    /\ decnum_eq (val_decimal d') (mk_decnum (dn_neg v) (dn_coeff v) (dn_exp v)) = true.
Proof. exact not_retyped_decimal. Qed.
Print Assumptions C02_not_retyped_decimal.

Theorem C02_not_retyped_hexBinary : forall k core v a b,
  xsd_hexBinary core = Some v -> bytes_ok v = true ->
  forallb xml_ws a = true -> forallb xml_ws b = true ->
  exists out, bytes_deser (Some bytes_fmt_base16) (a ++ core ++ b) = Some v
    /\ bytes_ser k (Some bytes_fmt_base16) v = Some out /\ xsd_hexBinary out = Some v.
Proof. exact not_retyped_hexBinary. Qed.
Print Assumptions C02_not_retyped_hexBinary.

Theorem C02_not_retyped_base64Binary : forall s v,
  xsd_base64Binary s = Some v -> bytes_ok v = true ->
  exists out, bytes_deser (Some bytes_fmt_base64) s = Some v
    /\ bytes_ser BPlain (Some bytes_fmt_base64) v = Some out /\ xsd_base64Binary out = Some v.
Proof. exact not_retyped_base64Binary. Qed.
Print Assumptions C02_not_retyped_base64Binary.

Theorem C02_not_retyped_date : forall sp a b,
  wf_date sp = true -> year_len_ok (ds_year sp) ->
  forallb xml_ws a = true -> forallb xml_ws b = true ->
  let v := mk_xdate (val_year (ds_year sp)) (ds_month sp) (ds_day sp) (val_tz (ds_tz sp)) in
  valid_date_value v = true -> year_fits (d_year v) ->
  date_from_string (a ++ lex_date sp ++ b) = Some v
  /\ date_str v = lex_date (canon_date v) /\ wf_date (canon_date v) = true
  /\ date_from_string (date_str v) = Some v.
Proof. exact not_retyped_date. Qed.
Print Assumptions C02_not_retyped_date.

Theorem C02_not_retyped_time : forall sp a b,
  wf_time sp = true -> forallb xml_ws a = true -> forallb xml_ws b = true ->
  let v := mk_xtime (ts_hour sp) (ts_minute sp) (ts_second sp) (val_frac (ts_frac sp)) (val_tz (ts_tz sp)) in
  valid_time_value v = true ->
  time_from_string (a ++ lex_time sp ++ b) = Some v
  /\ time_str v = lex_time (canon_time v) /\ wf_time (canon_time v) = true
  /\ time_from_string (time_str v) = Some v.
Proof. exact not_retyped_time. Qed.
Print Assumptions C02_not_retyped_time.

Theorem C02_not_retyped_dateTime : forall sp a b,
  wf_datetime sp = true -> year_len_ok (dts_year sp) ->
  forallb xml_ws a = true -> forallb xml_ws b = true ->
  let v := mk_xdatetime (val_year (dts_year sp)) (dts_month sp) (dts_day sp)
             (dts_hour sp) (dts_minute sp) (dts_second sp) (val_frac (dts_frac sp)) (val_tz (dts_tz sp)) in
  valid_datetime_value v = true -> year_fits (dt_year v) ->
  datetime_from_string (a ++ lex_datetime sp ++ b) = Some v
  /\ datetime_str v = lex_datetime (canon_datetime v) /\ wf_datetime (canon_datetime v) = true
  /\ datetime_from_string (datetime_str v) = Some v.
Proof. exact not_retyped_dateTime. Qed.
Print Assumptions C02_not_retyped_dateTime.
