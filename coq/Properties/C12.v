(* Properties/C12.v — code generation is reproducible (statements only).
   Models: Model/Graph.v (utils/graphs.py, the toposort package, designate_class_packages.py,
   resolver.py, models.py Attr.native_types, converter.sort_types,
   reset_attribute_sequence_numbers.py); specification: Spec/GraphSpec.v.
   A Python set / dict-of-sets is a list whose order is chosen by the caller; id() values
   are labels chosen by the caller: every theorem quantifies over all of them. *)
From Coq Require Import NArith List Bool Permutation Sorted.
From XV Require Import Base.Str Spec.GraphSpec Model.Graph Model.GraphCorr
  Proofs.GraphBase Proofs.GraphScc Proofs.GraphSccAlg Proofs.GraphTopo Proofs.GraphMisc Proofs.GraphPlan.
Import ListNotations.

(* 1. strongly connected components.  The partition into mutual-reachability classes is
      unique, so it cannot depend on vertex or edge iteration order ... *)
Theorem C12_scc_spec_perm_invariant :
  forall (V V' : str -> Prop) (R R' : str -> str -> Prop) comps comps',
    graph_equiv V V' R R' -> scc_spec V R comps -> scc_spec V' R' comps' ->
    partition_equiv comps comps'.
Proof. exact (@scc_spec_unique str). Qed.
Print Assumptions C12_scc_spec_perm_invariant.

(* ... the checker that the harness evaluates on every output of the model and of the
   implementation is sound for that specification ... *)
Theorem C12_scc_check_sound :
  forall E comps, s_scc_check E comps = true ->
    scc_spec (isvertex E) (edge str_eqb E) comps.
Proof. exact (scc_check_sound str_eqb str_eqb_eq). Qed.
Print Assumptions C12_scc_check_sound.

(* ... and the path-based algorithm of utils/graphs.py is correct: whenever it returns, its
   output satisfies the specification (components = mutual-reachability classes, emitted in
   reverse topological order); it never runs out of fuel.  `vo` = iteration order of
   set(edges): any list that covers the keys. *)
Theorem C12_scc_run_correct :
  forall E vo out, (forall k, In k (keys E) -> In k vo) ->
    s_scc_run vo E = Ok out -> scc_spec (isvertex E) (edge str_eqb E) out.
Proof. exact (scc_run_correct str_eqb str_eqb_eq). Qed.
Print Assumptions C12_scc_run_correct.

Theorem C12_scc_run_total : forall E vo, s_scc_run vo E <> OutOfFuel.
Proof. exact (scc_run_fuel_sufficient str_eqb str_eqb_eq). Qed.
Print Assumptions C12_scc_run_total.

(* Hence: the set of components does not depend on the iteration order of set(edges) nor on
   the order of the adjacency lists (list(set(dependencies))). *)
Theorem C12_scc_partition_perm_invariant :
  forall E E' vo vo' out out',
    graph_equiv (isvertex E) (isvertex E') (edge str_eqb E) (edge str_eqb E') ->
    (forall k, In k (keys E) -> In k vo) -> (forall k, In k (keys E') -> In k vo') ->
    s_scc_run vo E = Ok out -> s_scc_run vo' E' = Ok out' ->
    partition_equiv out out'.
Proof. exact (scc_partition_perm_invariant str_eqb str_eqb_eq). Qed.
Print Assumptions C12_scc_partition_perm_invariant.

(* 2. toposort_flatten(sort=True): same dict of sets => same list, same exception *)
Theorem C12_toposort_flatten_perm_invariant :
  forall d d', dict_equiv d d' -> s_toposort_flatten d = s_toposort_flatten d'.
Proof.
  exact (toposort_flatten_perm_invariant str_eqb str_eqb_eq str_leb str_leb_total str_leb_trans str_leb_antisym).
Qed.
Print Assumptions C12_toposort_flatten_perm_invariant.

Theorem C12_toposort_flatten_total : forall d, s_toposort_flatten d <> OutOfFuel.
Proof. exact (toposort_flatten_fuel_sufficient str_eqb str_eqb_eq str_leb). Qed.
Print Assumptions C12_toposort_flatten_total.

(* sort_classes / create_class_list: independent of the order of the group set, of the
   dependency generators and of the container *)
Theorem C12_sort_classes_perm_invariant :
  forall deps deps' g g', NoDup g -> NoDup g' -> seteq g g' -> (forall q, seteq (deps q) (deps' q)) ->
    sort_classes str_eqb str_leb deps g = sort_classes str_eqb str_leb deps' g'.
Proof.
  exact (sort_classes_perm_invariant str_eqb str_eqb_eq str_leb str_leb_total str_leb_trans str_leb_antisym).
Qed.
Print Assumptions C12_sort_classes_perm_invariant.

Theorem C12_create_class_list_perm_invariant :
  forall deps deps' g g', NoDup g -> NoDup g' -> seteq g g' -> (forall q, seteq (deps q) (deps' q)) ->
    create_class_list str_eqb str_leb deps g = create_class_list str_eqb str_leb deps' g'.
Proof.
  exact (create_class_list_perm_invariant str_eqb str_eqb_eq str_leb str_leb_total str_leb_trans str_leb_antisym).
Qed.
Print Assumptions C12_create_class_list_perm_invariant.

(* 3. package assignment: the order in which disjoint groups are assigned is irrelevant *)
Theorem C12_assign_order_irrelevant :
  forall (gs gs' : list (list str * str)) (m : str -> option str),
    NoDup (concat (map fst gs)) -> Permutation gs gs' ->
    forall q, assign_all str_eqb gs m q = assign_all str_eqb gs' m q.
Proof. exact (assign_order_irrelevant str_eqb str_eqb_eq). Qed.
Print Assumptions C12_assign_order_irrelevant.

(* group_by_strong_components end to end: two presentations of the component partition
   (other yield order, other set orders, other dependency orders) => every class gets the
   same module *)
Theorem C12_cluster_assignment_deterministic :
  forall (modname : str -> str) deps deps' comps comps' p p' (m : str -> option str),
    (forall q, seteq (deps q) (deps' q)) ->
    NoDup (concat comps) -> NoDup (concat comps') -> partition_equiv comps comps' ->
    cluster_plan str_eqb str_leb modname deps comps = Ok p ->
    cluster_plan str_eqb str_leb modname deps' comps' = Ok p' ->
    forall q, assign_all str_eqb p m q = assign_all str_eqb p' m q.
Proof.
  exact (cluster_assignment_deterministic str_eqb str_eqb_eq str_leb str_leb_total str_leb_trans str_leb_antisym).
Qed.
Print Assumptions C12_cluster_assignment_deterministic.

(* 4. Attr.native_types followed by converter.sort_types.  Since /repo 4392a4a native_types is
      list(dict.fromkeys(types)): a function of the declared type list alone (no set order):
      the members, once each, in declared order ... *)
Theorem C12_native_types_declared_order :
  forall types,
    GraphTables.native_types_is_order_preserving = true /\
    NoDup (native_types types) /\ seteq (native_types types) types /\
    (NoDup types -> native_types types = types) /\
    native_types (native_types types) = native_types types.
Proof. exact native_types_declared_order. Qed.
Print Assumptions C12_native_types_declared_order.

(* ... and what the generator uses is that list stably sorted by priority *)
Theorem C12_sorted_native_types_spec :
  forall types,
    Permutation (sorted_native_types types) (native_types types) /\
    StronglySorted (fun a b => prio_leb a b = true) (sorted_native_types types).
Proof. exact sorted_native_types_spec. Qed.
Print Assumptions C12_sorted_native_types_spec.

(* sort_types itself (also used at run time on annotation order) does not depend on the order
   of its argument when at most one type lies outside the priority table.  (Without the guard
   it keeps the argument order for the {bytes, object} tie: Proofs.GraphMisc.sort_types_tie_refuted;
   the generator no longer feeds it an address-dependent order.) *)
Theorem C12_sort_types_order_invariant :
  forall ord ord', NoDup ord -> NoDup ord' -> seteq ord ord' -> native_guard ord = true ->
    sort_types ord = sort_types ord'.
Proof. exact sort_types_order_invariant. Qed.
Print Assumptions C12_sort_types_order_invariant.

(* 5. sequence numbers: independent of the id() values as long as ids are injective *)
Theorem C12_sequence_renumbering_label_invariant :
  forall (f : N -> N) base attrs,
    (forall x y, In (Some x) attrs -> In (Some y) attrs -> x <> 0%N -> y <> 0%N -> f x = f y -> x = y) ->
    (forall x, In (Some x) attrs -> (f x = 0%N <-> x = 0%N)) ->
    reset_sequence_numbers base (map (option_map f) attrs) = reset_sequence_numbers base attrs.
Proof. exact sequence_renumbering_label_invariant. Qed.
Print Assumptions C12_sequence_renumbering_label_invariant.

(* The injectivity hypothesis is met by construction since /repo ec91b39: the labels are id()
   values of objects (compositors of the parsed schemas, kept in ResourceTransformer.parsed;
   attrs of living classes) that are all alive while the classes are analysed, and CPython gives
   simultaneously living objects distinct ids.  (That the hypothesis cannot be dropped is
   Proofs.GraphMisc.sequence_renumbering_collision_refuted; the check keeps the 2 x 150 groups
   witness as a regression test.) *)

(* 6. imports: sorted by name, a permutation of the input, unique *)
Theorem C12_imports_sorted_unique :
  forall imps, NoDup (map fst imps) ->
    Permutation (sorted_imports imps) imps /\ NoDup (map fst (sorted_imports imps)) /\
    StronglySorted (fun a b => name_leb a b = true) (sorted_imports imps).
Proof. exact imports_sorted_unique. Qed.
Print Assumptions C12_imports_sorted_unique.

Theorem C12_sorted_imports_perm_invariant :
  forall imps imps', NoDup (map snd imps) -> Permutation imps imps' ->
    sorted_imports imps = sorted_imports imps'.
Proof. exact sorted_imports_perm_invariant. Qed.
Print Assumptions C12_sorted_imports_perm_invariant.

(* ---- non-vacuity ---- *)
Definition va : str := [97]%N. Definition vb : str := [98]%N.
Definition vc : str := [99]%N. Definition vd : str := [100]%N.
Definition ex_edges : dict := [(va, [vb]); (vb, [vc; va]); (vc, [vd]); (vd, [vc])].
Definition ex_edges' : dict := [(vd, [vc]); (vb, [va; vc]); (va, [vb]); (vc, [vd])].

(* the checker accepts what the algorithm model returns under two different iteration
   orders, and the two results are different lists denoting the same partition *)
Example C12_scc_checker_accepts :
  (match s_scc_run [va; vb; vc; vd] ex_edges with Ok o => s_scc_check ex_edges o | _ => false end) = true /\
  (match s_scc_run [vd; vc; vb; va] ex_edges' with Ok o => s_scc_check ex_edges' o | _ => false end) = true /\
  s_scc_run [va; vb; vc; vd] ex_edges <> s_scc_run [vd; vc; vb; va] ex_edges'.
Proof. vm_compute. repeat split; try reflexivity. discriminate. Qed.

Example C12_toposort_examples :
  s_toposort_flatten [(va, [vb; vc]); (vb, [vc; vd]); (vc, [])] = Ok [vc; vd; vb; va] /\
  s_toposort_flatten [(vc, []); (vb, [vd; vc; vc]); (va, [vc; vb])] = Ok [vc; vd; vb; va] /\
  s_toposort_flatten [(va, [vb]); (vb, [va])] = Raise CircularDependencyError.
Proof. vm_compute. repeat split; reflexivity. Qed.

Example C12_guards_inhabited :
  native_guard [ty_str; ty_bytes; ty_int] = true /\ native_guard [ty_bytes; ty_object] = false /\
  sort_types [ty_str; ty_bytes; ty_int] = [ty_bytes; ty_int; ty_str] /\
  sorted_native_types [ty_str; ty_object; ty_int; ty_object; ty_bytes; ty_str] = [ty_object; ty_bytes; ty_int; ty_str] /\
  filter (fun t => negb (in_table t)) GraphTables.datatype_python_types = [ty_bytes; ty_object] /\
  reset_sequence_numbers [Some 2%N] [Some 77%N; None; Some 5%N; Some 77%N; Some 0%N]
    = [Some 3%N; None; Some 4%N; Some 3%N; Some 0%N].
Proof. vm_compute. repeat split; reflexivity. Qed.
