(* Properties/C16.v — statements only.
   Generated classes are faithful to the DTD they came from.

   Part 1 (shared validator, Spec/Cm.v): if `check` accepts (content model, binding metadata) then
   every word of the model is bound by the parser's slot assignment without losing a child and with
   every required field filled; under `order_safe` the serializer's field order reproduces the input
   order; `check_attrs` implies that defaults / fixed values re-materialise.
   Part 2 (faithful model of DtdParser + DtdMapper, Model/Dtd.v): at full strength,
       forall c dc m q, parse_content c = Some dc -> cm_of_raw c = Some m ->
         maxcount m q <= cap (build_content dc no_kwargs []) q /\ minsum (build_content dc no_kwargs []) q <= mincount m q
   (C16_dtd_capacity; no guard since the /repo fixes 160d460 and 1017a9f — the refutations for
   (a,b)*, (a,b)?, (a*|b) and the clauses guard_seq / guard_or were deleted).  What remains refuted:
   element namespaces (guard_ns) and, with compound fields, a sequence below a non-repeated choice
   (guard_orseq: lost after the mapper, in CreateCompoundFields). *)
From Coq Require Import NArith List Bool String.
From XV Require Import Base.Str Spec.Cm Spec.Dtd Model.Dtd Model.DtdCorr Proofs.Cm Proofs.CmMatch Proofs.Dtd.
Import ListNotations.
Local Open Scope string_scope.

(* ---- Part 1: the validator *)
Theorem C16_count_le_maxcount : forall q c w, lang c w -> ele (count q w) (maxcount c q).
Proof. exact count_le_maxcount. Qed.
Print Assumptions C16_count_le_maxcount.

Theorem C16_mincount_le_count : forall q c w, lang c w -> (mincount c q <= count q w)%nat.
Proof. exact mincount_le_count. Qed.
Print Assumptions C16_mincount_le_count.

Theorem C16_validator_sound : forall c m w, check_children c m = true -> lang c w -> accepts_word m w = true.
Proof. exact check_sound. Qed.
Print Assumptions C16_validator_sound.

Theorem C16_accepts_all_sound : forall c m, check_children c m = true -> forall w, lang c w ->
  (forall q, ele (count q w) (capacity m q) /\ (In q w -> capacity m q <> Some 0%nat)) /\ accepts_word m w = true.
Proof. exact accepts_all_sound. Qed.
Print Assumptions C16_accepts_all_sound.

Theorem C16_order_preserved : forall c m w, order_safe c m = true -> lang c w ->
  emit_order (rank_of (m_fields m)) w = w.
Proof. exact order_preserved. Qed.
Print Assumptions C16_order_preserved.

Theorem C16_attribute_defaults_sound : forall ds fs, check_attrs ds fs = true ->
  forall d, In d ds -> forall present, valid_attr d present = true ->
    exists f, find_afield fs (ad_name d) = Some f /\ afield_roundtrip f present = Some (effective d present).
Proof. exact check_attrs_sound. Qed.
Print Assumptions C16_attribute_defaults_sound.

Theorem C16_matches_correct : forall w c, occ_ok c = true -> (matches c w = true <-> lang c w).
Proof. exact matches_correct. Qed.
Print Assumptions C16_matches_correct.

Theorem C16_rejected_word_sound : forall c m w,
  occ_ok c = true -> rejected_word c m = Some w -> lang c w /\ accepts_word m w = false.
Proof. exact rejected_word_sound. Qed.
Print Assumptions C16_rejected_word_sound.

(* ---- Part 2: the DTD mapper *)
Theorem C16_dtd_capacity : forall c dc m, parse_content c = Some dc -> cm_of_raw c = Some m ->
  forall q, enat_leb (maxcount m q) (cap (build_content dc no_kwargs []) q) = true
            /\ (minsum (build_content dc no_kwargs []) q <= mincount m q)%nat.
Proof. exact dtd_capacity. Qed.
Print Assumptions C16_dtd_capacity.

Theorem C16_dtd_children_fit : forall c dc m w,
  parse_content c = Some dc -> cm_of_raw c = Some m -> lang m w ->
  forall q, ele (count q w) (cap (build_content dc no_kwargs []) q)
            /\ (minsum (build_content dc no_kwargs []) q <= count q w)%nat.
Proof. exact dtd_children_fit. Qed.
Print Assumptions C16_dtd_children_fit.

(* the witnesses of the former refutations, kept as regression examples *)
Example C16_dtd_former_witnesses :
  attrs_summary w_seq_star = Some [(lit "a", Some 0%N, Some Gen.DtdTables.sys_maxsize); (lit "b", Some 0%N, Some Gen.DtdTables.sys_maxsize)] /\
  attrs_summary w_seq_opt = Some [(lit "a", Some 0%N, Some 1%N); (lit "b", Some 0%N, Some 1%N)] /\
  attrs_summary w_or_member = Some [(lit "a", Some 0%N, Some Gen.DtdTables.sys_maxsize); (lit "b", Some 0%N, Some 1%N)].
Proof. exact dtd_former_witnesses. Qed.
Print Assumptions C16_dtd_former_witnesses.

Example C16_dtd_mapping_example :
  attrs_summary w_ok
  = Some [(lit "a", Some 1%N, Some 1%N); (lit "b", Some 0%N, Some Gen.DtdTables.sys_maxsize);
          (lit "c", Some 0%N, Some Gen.DtdTables.sys_maxsize); (lit "d", Some 0%N, Some 1%N)].
Proof. exact dtd_mapping_example. Qed.
Print Assumptions C16_dtd_mapping_example.

Theorem C16_dtd_default_ns_refuted :
  guard_ns w_default_ns = false /\
  option_map (map (fun k => (k_qname k, map (fun a => (a_name a, a_namespace a)) (filter is_element_attr (k_attrs k)))))
             (dtd_classes w_default_ns)
  = Some [(lit "{http://www.example.com/}root", [(lit "child1", None)]); (lit "child1", [])].
Proof. exact dtd_default_ns_children_unqualified. Qed.
Print Assumptions C16_dtd_default_ns_refuted.

Theorem C16_dtd_choice_of_sequence_refuted :
  guard_orseq w_or_seq = false /\
  option_map (fun dc => map (fun a => (a_max a, a_choice a)) (build_content dc no_kwargs [])) (parse_content w_or_seq)
  = Some [(Some 1%N, Some []); (Some 1%N, Some []); (Some 1%N, Some []); (Some 1%N, Some [])] /\
  option_map (maxcountP (fun _ => true)) (cm_of_raw w_or_seq) = Some (Some 3%nat).
Proof. exact dtd_choice_of_sequence_one_choice_id. Qed.
Print Assumptions C16_dtd_choice_of_sequence_refuted.

Theorem C16_dtd_attr_defaults : forall ra da qn d m present,
  parse_attribute ra = Some da -> attr_decl_of_raw qn ra = Some d -> valid_attr d present = true ->
  afield_roundtrip (afield_of_attr qn (build_attribute m da) (model_enum da)) present = Some (effective d present).
Proof. exact dtd_attr_defaults. Qed.
Print Assumptions C16_dtd_attr_defaults.

Example C16_dtd_default_ampersand :
  option_map da_default_value
    (parse_attribute (mk_raw_attr None (lit "a") (lit "cdata") S_none (Some (lit "R&#38;D")) []))
  = Some (Some (lit "R&D")).
Proof. exact dtd_default_ampersand. Qed.
Print Assumptions C16_dtd_default_ampersand.

Theorem C16_dtd_repeated_choice_member_outside_refuted :
  option_map rep_confined (cm_of_raw w_rep_dup) = Some true /\
  option_map rep_names_unique (cm_of_raw w_rep_dup) = Some false /\
  option_map (fun dc => map (fun a => (a_name a, a_max a, a_choice a)) (build_content dc no_kwargs [])) (parse_content w_rep_dup)
  = Some [(lit "f", Some 1%N, None); (lit "Tag", Some 1%N, None);
          (lit "Tag", Some Gen.DtdTables.sys_maxsize, Some [true; true]); (lit "k2", Some Gen.DtdTables.sys_maxsize, Some [true; true])].
Proof. exact dtd_repeated_choice_member_outside. Qed.
Print Assumptions C16_dtd_repeated_choice_member_outside_refuted.

Theorem C16_dtd_same_name_in_two_choices_refuted :
  option_map (fun dc => choice_dups_ok (build_content dc no_kwargs [])) (parse_content w_dup_choice) = Some false /\
  option_map (fun dc => map (fun a => (a_name a, a_max a, a_choice a)) (build_content dc no_kwargs [])) (parse_content w_dup_choice)
  = Some [(lit "b", Some 1%N, Some [false]); (lit "o", Some 1%N, Some [false]);
          (lit "b", Some 1%N, Some [true]); (lit "c", Some 1%N, Some [true])] /\
  option_map (fun m => maxcount m (lit "b")) (cm_of_raw w_dup_choice) = Some (Some 2%nat).
Proof. exact dtd_same_name_in_two_choices. Qed.
Print Assumptions C16_dtd_same_name_in_two_choices_refuted.
