(* Properties/C01.v — XML round trip: parsing what was serialized gives back the same object.
   Statements only.

   Models: Model/EventGen.v (EventGenerator), Model/Writer.v (XmlEventWriter / LxmlEventWriter,
   property C03), Model/Parser.v (NodeParser); specification side: Spec/XmlNs.v (what an event
   list means: `itree_of_events`; what a document says: `doc_says`), Spec/Fits.v (`reads`: the
   parser event streams an XML reader may deliver for a document that says `e`; the guards
   `wf_model`, `fits`; the converter law `conv_roundtrips`).

   FULL STATEMENT (property text): for every binding model `u`, class `cls`, instance `o`,
   writer, handler and serializer configuration,
       parse cfg c u (Some cls) (events the handler delivers for the document the writer
                                 produced from (generate ign c u o)) = Ok o [].
   It is false of the faithful models (see the _refuted theorems below: xsi:nil conflation on
   nillable fields, token lists inside sequence groups, QName values under a user default namespace,
   xsi:type dropped).  What is PROVED is the statement under the computable guards `wf_model u cls`
   (the metadata fragment) and `fits ... o`, for every ignore_default_attributes flag, every parser
   configuration whose class factory has a default for every field, every converter satisfying the
   round-trip law on the values of `o`:
   - C01_roundtrip_S4: for EVERY event stream that reads as the document (any attribute order, any
     prefix maps, indentation white space), when no class of the fragment has an attribute MAP or a
     WILDCARD field (`nomaps_u`: a dict comes back in the order the attributes were reported);
   - C01_roundtrip_ordered_S5_partial: the same for every event stream that keeps the attribute
     order (`reads_o true`: what XML readers deliver), attribute maps (xs:anyAttribute), wildcard fields
     (xs:any) holding generic elements and xs:anyType elements holding a str included;
   - C01_roundtrip_pump_S4 (canonical stream, attribute maps included), C01_document_parses_S4 /
     _native_S4 / _lxml_S4 (through C03's writers down to the printed document).
   Proved slices: S1-S4 (attributes, elements, Text, nesting, lists, tokens, wrappers, sequence groups,
   namespaces), QName values of elements / attributes / Text, recursive class graphs, subclass instances
   announced by xsi:type, nillable fields and classes, and of S5 (generic content) xs:anyType elements
   holding a str, attribute maps and wildcard fields holding AnyElement trees (names, attributes, text,
   nested children; no mixed content).  The forms that go through `pump` or through C03's writers are
   stated for instances without QName values (`noq o`) and without xsi:type (`exact_classes`): under a
   user prefix map that binds the default namespace a QName without namespace is written bare and read
   back inside that namespace (C01_qname_default_ns_refuted, finding C01-F3).  The rest of the
   quantifier (mixed content and other values in wildcard fields, compound fields, unions, DerivedElement,
   QName token lists, a wrapped list inside a sequence group) is covered by the correspondence and the oracle of
   harness/c01.py only. *)
From Coq Require Import NArith ZArith List Bool.
From XV Require Import Base.Str Base.Eqb Base.PyInt Spec.XmlNs Model.Bind Model.WriterBridge Spec.Fits Model.RoundtripCorr
  Proofs.RoundtripParse Proofs.RoundtripMain Proofs.RoundtripWitness Proofs.RoundtripExamples
  Model.Writer Proofs.RoundtripGen Proofs.RoundtripTree Proofs.RoundtripText.
From XV Require Model.EventGen Model.Parser Model.ParserCorr.
Import ListNotations.

(* ---- the round trip at the infoset level, slices S1-S4 ----
   S1: Attribute / Element fields of primitive type through the abstract converter, optional
       or required, with or without defaults;  S2: nested class-typed Element fields (any depth);
   S3: list fields, token lists (attributes, elements, lists of token lists), Text fields of
       simple-content classes;  S4: wrapper elements around plain list fields (an empty list is
       an empty wrapper element); sequence groups (`sequence` metadata: the fields of a group are
       written interleaved, item by item - next_value - and the parser reassembles every list in
       document order whatever the interleaving); class / field namespaces ("" and inherited
       included) come for free: qualified names are opaque to both directions and the guards
       speak about the qualified names the real XmlContext built. *)
Theorem C01_roundtrip_S4 : forall cfg c u ok ign n cls o,
  conv_roundtrips c u ok ->                 (* converter law on the accepted values (C05 / C06) *)
  nodefault_free cfg = true ->              (* every field has a default (C15, first refutation) *)
  nomaps_u u = true ->                      (* no attribute map: a dict keeps the order the attributes are reported in *)
  wf_model u cls = true ->                  (* metadata fragment *)
  fits c u ok py_isspace n cls o = true ->  (* typed, representable instance *)
  exists evs e,
    EventGen.generate ign c u o = EventGen.Ok evs
    /\ itree_of_events (map (of_wevent c) evs) = Some e
    /\ forall k pevs, reads e pevs -> Parser.parse_n k cfg c u (Some cls) pevs = Parser.Ok o [].
Proof. intros. eapply (roundtrip_reads cfg c u ok ign H H0 false); try eassumption. right. assumption. Qed.
Print Assumptions C01_roundtrip_S4.

(* ---- slice S5 (generic content), partial: attribute maps (xs:anyAttribute, `dict[str, str]`), wildcard
   fields (xs:any) holding generic elements (AnyElement: name, attributes, text, nested generic children;
   no tails, no text next to children) and xs:anyType elements holding a str.  A map comes back in the order the attributes are reported:
   the statement is about every event stream that reads as the document AND keeps the attribute
   order of the tree (`reads_o true`: what XML readers deliver; prefix maps and indentation white
   space stay free).  Keys: distinct, admitted by the namespace constraint of the field, not claimed
   by a declared attribute, not xsi:nil / xsi:type; values without a colon (`fits_map`). *)
Theorem C01_roundtrip_ordered_S5_partial : forall cfg c u ok ign n cls o,
  conv_roundtrips c u ok -> nodefault_free cfg = true ->
  wf_model u cls = true -> fits c u ok py_isspace n cls o = true ->
  exists evs e,
    EventGen.generate ign c u o = EventGen.Ok evs
    /\ itree_of_events (map (of_wevent c) evs) = Some e
    /\ forall k pevs, reads_o true e pevs -> Parser.parse_n k cfg c u (Some cls) pevs = Parser.Ok o [].
Proof. intros. eapply (roundtrip_reads cfg c u ok ign H H0 true); try eassumption. left. reflexivity. Qed.
Print Assumptions C01_roundtrip_ordered_S5_partial.

(* ---- the same in the form of the property text: the canonical reader stream `pump` of the tree
   the emitted events mean (C03 connects that tree with the documents both writers produce) *)
Theorem C01_roundtrip_pump_S4 : forall cfg c u ok ign n cls o,
  conv_roundtrips c u ok -> nodefault_free cfg = true ->
  wf_model u cls = true -> fits c u ok py_isspace n cls o = true ->
  noq o = true ->                           (* `pump` binds no prefixes: no QName values, *)
  exact_classes u n cls o = true ->         (* no xsi:type (every nested instance of its field's declared class) *)
  exists evs,
    EventGen.generate ign c u o = EventGen.Ok evs
    /\ Parser.parse cfg c u (Some cls) (pump (itree_of_events (map (of_wevent c) evs))) = Parser.Ok o [].
Proof. intros. eapply roundtrip_pump; eassumption. Qed.
Print Assumptions C01_roundtrip_pump_S4.

(* ---- the text level: composition with property C03 (both writers) ---------------------------
   `pump_doc m t tail` = the events an XML reader delivers for the infoset tree `t` (ElementTree
   view: text before the first child, tails; any prefix map `m` in scope); `strip_indent t'` removes
   the white-space-only text nodes of elements that have child elements (what SerializerConfig.indent
   adds); `wf_doc`: no element carries two attributes with the same expanded name.
   Every document tree that says the expected tree, also after indentation, is parsed back: *)
Theorem C01_document_parses_S4 : forall cfg c u ok ign n cls o t' m k,
  conv_roundtrips c u ok -> nodefault_free cfg = true ->
  wf_model u cls = true -> fits c u ok py_isspace n cls o = true -> noq o = true -> exact_classes u n cls o = true ->
  nomaps_u u = true ->                      (* `doc_says` does not fix the attribute order *)
  wf_doc t' = true ->
  (* etop = the expected tree: the element of the instance; an empty instance of a nillable class keeps xsi:nil="true" *)
  doc_says (etop c u ign n o) (strip_indent t') = true ->
  Parser.parse_n k cfg c u (Some cls) (pump_doc m t' None) = Parser.Ok o [].
Proof. intros. eapply document_parses; try eassumption. reflexivity. Qed.
Print Assumptions C01_document_parses_S4.

(* XmlEventWriter: inside C03's writer_guard (user prefix map, names, XML 1.0 text) the call
   succeeds, the printed document resolves to an infoset tree t, and t - or t with any indentation
   white space added - is read and parsed back to the instance, by whatever handler delivers the
   reader events of the tree (C08: both handlers do, up to lookup-equivalent prefix maps, which
   the statement quantifies over) *)
Theorem C01_roundtrip_native_S4 : forall cfg c u ok ign n cls o wcfg user,
  conv_roundtrips c u ok -> nodefault_free cfg = true ->
  wf_model u cls = true -> fits c u ok py_isspace n cls o = true -> noq o = true -> exact_classes u n cls o = true ->
  nomaps_u u = true ->
  cfg_schema_location wcfg = None -> cfg_no_ns_schema_location wcfg = None ->
  exists evs,
    EventGen.generate ign c u o = EventGen.Ok evs
    /\ (writer_guard wcfg user (map (of_wevent c) evs) = true ->
        exists d t,
          run_native wcfg user (map (of_wevent c) evs) = inl d /\ resolve d = Some t
          /\ forall t' m k,
               wf_doc t' = true -> strip_indent t' = strip_indent t ->
               Parser.parse_n k cfg c u (Some cls) (pump_doc m t' None) = Parser.Ok o []).
Proof. intros. eapply roundtrip_native; eassumption. Qed.
Print Assumptions C01_roundtrip_native_S4.

(* LxmlEventWriter: the same for the tree the lxml sink builds *)
Theorem C01_roundtrip_lxml_S4 : forall cfg c u ok ign n cls o wcfg user,
  conv_roundtrips c u ok -> nodefault_free cfg = true ->
  wf_model u cls = true -> fits c u ok py_isspace n cls o = true -> noq o = true -> exact_classes u n cls o = true ->
  nomaps_u u = true ->
  cfg_schema_location wcfg = None -> cfg_no_ns_schema_location wcfg = None ->
  exists evs,
    EventGen.generate ign c u o = EventGen.Ok evs
    /\ (writer_guard wcfg user (map (of_wevent c) evs) = true ->
        lxml_domain wcfg user (map (of_wevent c) evs) = true ->
        exists t,
          run_lxml wcfg user (map (of_wevent c) evs) = inl t
          /\ forall t' m k,
               wf_doc t' = true -> strip_indent t' = strip_indent t ->
               Parser.parse_n k cfg c u (Some cls) (pump_doc m t' None) = Parser.Ok o []).
Proof. intros. eapply roundtrip_lxml; eassumption. Qed.
Print Assumptions C01_roundtrip_lxml_S4.

(* ---- the hypotheses are inhabited --------------------------------------------------------- *)
(* the converter law: property C05's models of the str / int / bool converters (C05_int_roundtrip,
   C05_bool_roundtrip) instantiate it, on every str, every bool and every int CPython can print *)
Theorem C01_converter_law_inhabited : forall u, conv_roundtrips conv_c05 u ok_c05.
Proof. exact conv_c05_law. Qed.
Print Assumptions C01_converter_law_inhabited.

(* metadata exported from the REAL XmlContext (Proofs/RoundtripWitness.v, regenerated and compared
   by every run of the check) and an instance with attributes, token lists, lists, nested
   simple-content objects, an empty string, wrapped lists, a sequence group of two lists and a
   scalar, namespaces: inside the guards *)
Example C01_guards_inhabited :
  wf_model u_rich root_rich = true
  /\ fits conv_c05 u_rich ok_c05 py_isspace 2 root_rich o_rich = true
  /\ nodefault_free cfg_strict = true.
Proof. exact guards_rich. Qed.
Print Assumptions C01_guards_inhabited.

(* the events the REAL handlers delivered for the REAL writers' output (XmlEventWriter with
   indentation and a user prefix map -> XmlEventHandler; LxmlEventWriter with
   ignore_default_attributes -> LxmlEventHandler) read as the expected tree, and are parsed back *)
Example C01_real_events_read :
  (match expected_rich false with Some e => reads_b true e pevs_rich_native_indent | None => false end) = true
  /\ (match expected_rich true with Some e => reads_b true e pevs_rich_lxml | None => false end) = true.
Proof. exact real_events_read_rich. Qed.

Example C01_real_events_parse :
  Parser.parse cfg_strict conv_c05 u_rich (Some root_rich) pevs_rich_native_indent = Parser.Ok o_rich []
  /\ Parser.parse cfg_strict conv_c05 u_rich (Some root_rich) pevs_rich_lxml = Parser.Ok o_rich []
  /\ Parser.parse cfg_strict conv_c05 u_rich (Some root_rich) (pump (expected_rich false)) = Parser.Ok o_rich [].
Proof. exact real_events_parse_rich. Qed.

(* ---- the full statement is false of the faithful models: one witness per guard clause ------- *)
(* clause `has_content` of fits for an instance in a nillable field (known finding C01-F1):
   A(b=B(x=1)) with b nillable - B(x=1) is written <b x="1" xsi:nil="true"/>, an element without
   content - comes back as A(b=None); the metadata is inside wf_model, and with the nillable flags
   cleared the very same instance fits *)
Theorem C01_nil_conflation_refuted :
  wf_model u_nil root_nil = true
  /\ fits conv_c05 u_nil ok_c05 py_isspace 2 root_nil o_nil = false
  /\ wf_model (clear_nil u_nil) root_nil = true
  /\ fits conv_c05 (clear_nil u_nil) ok_c05 py_isspace 2 root_nil o_nil = true
  /\ composition_nil = Parser.Ok (VObj root_nil [([98%N], VNone)]) []
  /\ Parser.parse cfg_strict conv_c05 u_nil (Some root_nil) pevs_nil = Parser.Ok (VObj root_nil [([98%N], VNone)]) []
  /\ ParserCorr.outcome_eqb composition_nil (Parser.Ok o_nil []) = false.
Proof. exact nil_conflation_refuted. Qed.
Print Assumptions C01_nil_conflation_refuted.

(* clause `seq_member` (known finding C01-F7): a token list inside the span of a sequence group is
   written token by token (S(x=['ab','cd'], y='q') -> <S><x>ab</x><y>q</y><x>cd</x></S>) and the
   second <x> is an unknown property for the parser (int tokens: the serializer raises TypeError);
   without the `sequence` numbers the very same metadata and instance are inside the guards; the
   faithful models agree with the real parser on the real events *)
Theorem C01_sequence_tokens_refuted :
  wf_model u_seqtok root_seqtok = false
  /\ wf_model (clear_seq u_seqtok) root_seqtok = true
  /\ fits conv_c05 (clear_seq u_seqtok) ok_c05 py_isspace 1 root_seqtok o_seqtok = true
  /\ ParserCorr.outcome_eqb composition_seqtok (Parser.Ok o_seqtok []) = false
  /\ ParserCorr.outcome_eqb (Parser.parse cfg_strict conv_c05 u_seqtok (Some root_seqtok) pevs_seqtok) (Parser.Ok o_seqtok []) = false
  /\ ParserCorr.outcome_eqb composition_seqtok (Parser.parse cfg_strict conv_c05 u_seqtok (Some root_seqtok) pevs_seqtok) = true.
Proof. exact sequence_tokens_refuted. Qed.
Print Assumptions C01_sequence_tokens_refuted.

(* ---- QName values ---------------------------------------------------------------------------- *)
(* metadata and instance with QName element values (with and without namespace, a list) exported from
   the real code are inside the guards (conv_c05 resolves QNames by the XML Schema rule), and the
   events the real LxmlEventHandler delivered for the indented output of the real LxmlEventWriter
   read as the expected tree - every QName through the prefix map of its own start event - and
   are parsed back *)
Example C01_guards_qname_inhabited :
  wf_model u_qn root_qn = true
  /\ fits conv_c05 u_qn ok_c05 py_isspace 2 root_qn o_qn = true
  /\ noq o_qn = false.
Proof. exact guards_qn. Qed.

Example C01_real_events_qname :
  (match expected_qn with Some e => reads_b true e pevs_qn | None => false end) = true
  /\ Parser.parse cfg_strict conv_c05 u_qn (Some root_qn) pevs_qn = Parser.Ok o_qn [].
Proof. exact real_events_qn. Qed.

(* the hypothesis `noq o` of the pump / document forms (known finding C01-F3): the same instance
   written by XmlEventWriter with the user prefix map {None: urn:a}: QName('local') is written bare under
   xmlns="urn:a"; metadata and instance are inside the guards of C01_roundtrip_S4, but the events
   the real handler delivered do not read as the expected tree and are parsed to another instance *)
Theorem C01_qname_default_ns_refuted :
  wf_model u_qn root_qn = true
  /\ fits conv_c05 u_qn ok_c05 py_isspace 2 root_qn o_qn = true
  /\ (match expected_qn with Some e => reads_b true e pevs_qn_default | None => true end) = false
  /\ ParserCorr.outcome_eqb (Parser.parse cfg_strict conv_c05 u_qn (Some root_qn) pevs_qn_default) (Parser.Ok o_qn []) = false
  /\ has_local_qname o_qn = true.
Proof. exact qname_default_ns_refuted. Qed.
Print Assumptions C01_qname_default_ns_refuted.

(* ---- recursive class graphs ------------------------------------------------------------------ *)
(* wf_model collects the classes reachable from the root (work list, visited set) and checks that
   the collected set is closed and inside the fragment: a class may refer to itself.  Node(label,
   kids : list[Node], next : Optional[Node]) exported from the real code, an instance of depth 4: inside
   the guards, and the events the real LxmlEventHandler delivered for the indented output of the real
   XmlEventWriter read as the expected tree and are parsed back, as is the canonical stream *)
Example C01_guards_recursive_inhabited :
  wf_model u_tree root_tree = true
  /\ fits conv_c05 u_tree ok_c05 py_isspace 4 root_tree o_tree = true
  /\ noq o_tree = true.
Proof. exact guards_tree. Qed.

Example C01_real_events_recursive :
  (match expected_of conv_c05 (EventGen.generate false conv_c05 u_tree o_tree) with
   | Some e => reads_b true e pevs_tree | None => false end) = true
  /\ Parser.parse cfg_strict conv_c05 u_tree (Some root_tree) pevs_tree = Parser.Ok o_tree []
  /\ Parser.parse cfg_strict conv_c05 u_tree (Some root_tree)
       (pump (expected_of conv_c05 (EventGen.generate false conv_c05 u_tree o_tree))) = Parser.Ok o_tree [].
Proof. exact real_events_tree. Qed.

(* ---- instances of subclasses (xsi:type) ------------------------------------------------------ *)
(* A class-typed field may hold an instance of a strict subclass of its declared class (clause
   derived_ok of fits): the serializer announces it with an xsi:type attribute whose value is the
   QName of the subclass, `reads` resolves that value through the prefix map of the start event,
   and the parser finds the subclass in the type registry (XmlContext.find_subclass).  Model `inh`
   exported from the real code (Sub(Base) in another namespace; a scalar and a list field of type
   Base holding Base and Sub instances): inside the guards, and the events both real handlers
   delivered for both real writers' output read as the expected tree and are parsed back *)
Example C01_guards_subclass_inhabited :
  wf_model u_inh root_inh = true
  /\ fits conv_c05 u_inh ok_c05 py_isspace 2 root_inh o_inh = true
  /\ exact_classes u_inh 2 root_inh o_inh = false.
Proof. exact guards_inh. Qed.

Example C01_real_events_subclass :
  (match expected_inh with Some e => reads_b true e pevs_inh_native | None => false end) = true
  /\ (match expected_inh with Some e => reads_b true e pevs_inh_lxml | None => false end) = true
  /\ Parser.parse cfg_strict conv_c05 u_inh (Some root_inh) pevs_inh_native = Parser.Ok o_inh []
  /\ Parser.parse cfg_strict conv_c05 u_inh (Some root_inh) pevs_inh_lxml = Parser.Ok o_inh [].
Proof. exact real_events_inh. Qed.

(* clause `t <> v_qname v` of derived_ok (known finding C01-F8, found while proving this slice): when the
   type qname of the subclass equals the element name of the field, EventGenerator.real_xsi_type
   drops xsi:type and the parser builds the declared class: R(item=item(x=1, y=2)) is written
   <R><item x="1" y="2"/></R> and rejected (unknown attribute y of Base); the faithful models agree
   with the real parser on the real events *)
Theorem C01_xsi_type_dropped_refuted :
  wf_model u_xdrop root_xdrop = true
  /\ fits conv_c05 u_xdrop ok_c05 py_isspace 2 root_xdrop o_xdrop = false
  /\ has_xsi_type_event (EventGen.generate false conv_c05 u_xdrop o_xdrop) = false
  /\ ParserCorr.outcome_eqb composition_xdrop (Parser.Ok o_xdrop []) = false
  /\ ParserCorr.outcome_eqb (Parser.parse cfg_strict conv_c05 u_xdrop (Some root_xdrop) pevs_xdrop) (Parser.Ok o_xdrop []) = false
  /\ ParserCorr.outcome_eqb composition_xdrop (Parser.parse cfg_strict conv_c05 u_xdrop (Some root_xdrop) pevs_xdrop) = true.
Proof. exact xsi_type_dropped_refuted. Qed.
Print Assumptions C01_xsi_type_dropped_refuted.

(* clause `map_value_ok` / `any_attr_ok` (known finding C01-F9, found while proving the attribute-map slice):
   the value of an attribute-map entry (or of an attribute of a generic element) is written literally, but read
   through ParserUtils.parse_any_attribute, which expands `prefix:local` when the prefix is bound - and the
   writer binds ns0, ns1, ... itself: R(m={'k': 'ns0:x'}) with R in namespace urn:a comes back as
   R(m={'k': '{urn:a}x'}).  The real handler events read as the tree the events mean, and the faithful parser
   model returns another instance for them; with the colon removed the very same instance is inside the guards *)
Theorem C01_any_attribute_prefix_refuted :
  wf_model u_mapq root_mapq = true
  /\ fits conv_c05 u_mapq ok_c05 py_isspace 1 root_mapq o_mapq = false
  /\ fits conv_c05 u_mapq ok_c05 py_isspace 1 root_mapq o_mapq_plain = true
  /\ (match expected_of conv_c05 (EventGen.generate false conv_c05 u_mapq o_mapq) with
      | Some e => reads_b true e pevs_mapq | None => false end) = true
  /\ ParserCorr.outcome_eqb (Parser.parse cfg_strict conv_c05 u_mapq (Some root_mapq) pevs_mapq) (Parser.Ok o_mapq []) = false
  /\ (match Parser.parse cfg_strict conv_c05 u_mapq (Some root_mapq) pevs_mapq with Parser.Ok _ [] => true | _ => false end) = true.
Proof. exact any_attribute_prefix_refuted. Qed.
Print Assumptions C01_any_attribute_prefix_refuted.

(* ---- empty instances of nillable classes: the element keeps xsi:nil="true" (the instance has no content) and
   ElementNode.bind builds the instance from its attributes all the same; covered by the theorems above (guard
   clause `strict_empty && nil_free` of fits).  The guards are inhabited by such instances, on metadata and handler
   events exported from the real code: *)
Theorem C01_nil_kept_example :
  wf_model u_nilk root_nilk = true
  /\ fits conv_c05 u_nilk ok_c05 py_isspace 2 root_nilk o_nilk = true
  /\ (match expected_of conv_c05 (EventGen.generate false conv_c05 u_nilk o_nilk) with
      | Some e => reads_b true e pevs_nilk | None => false end) = true
  /\ Parser.parse cfg_strict conv_c05 u_nilk (Some root_nilk) pevs_nilk = Parser.Ok o_nilk []
  /\ Parser.parse cfg_strict conv_c05 u_nilk (Some root_nilk)
       (pump (expected_of conv_c05 (EventGen.generate false conv_c05 u_nilk o_nilk))) = Parser.Ok o_nilk [].
Proof. exact nil_kept_example. Qed.
Print Assumptions C01_nil_kept_example.

(* clause `strict_empty`, Text part (Text variant of known finding C01-F1, found while proving this slice): the Text
   field of an empty instance of a nillable class must hold None.  R(l=L(v=[], x='3')) with v a token list is
   written <l x="3" xsi:nil="true"/>; under xsi:nil ElementNode.bind_text stores None and the instance comes back
   as L(v=None, x='3') *)
Theorem C01_nil_text_tokens_refuted :
  wf_model u_nilk root_nilk = true
  /\ fits conv_c05 u_nilk ok_c05 py_isspace 2 root_nilk o_nilk_tok = false
  /\ (match expected_of conv_c05 (EventGen.generate false conv_c05 u_nilk o_nilk_tok) with
      | Some e => reads_b true e pevs_nilk_tok | None => false end) = true
  /\ ParserCorr.outcome_eqb (Parser.parse cfg_strict conv_c05 u_nilk (Some root_nilk) pevs_nilk_tok) (Parser.Ok o_nilk_tok []) = false
  /\ (match Parser.parse cfg_strict conv_c05 u_nilk (Some root_nilk) pevs_nilk_tok with Parser.Ok _ [] => true | _ => false end) = true.
Proof. exact nil_text_tokens_refuted. Qed.
Print Assumptions C01_nil_text_tokens_refuted.
