(* Properties/C01.v — XML round trip: parsing what was serialized gives back the same object.
   Statements only.

   Models: Model/EventGen.v (EventGenerator), Model/Writer.v (XmlEventWriter / LxmlEventWriter,
   property C03), Model/Parser.v (NodeParser); specification side: Spec/XmlNs.v (what an event
   list means: `itree_of_events`; what a document says: `doc_says`), Spec/Fits.v (`reads`: the
   parser event streams an XML reader may deliver for a document that says `e`; the guards
   `wf_model`, `fits`; the converter law `conv_roundtrips`).

   FULL STATEMENT (property text): for every binding model `u`, class `cls`, instance `o`,
   writer, handler and serializer configuration,
       parse cfg c u (Some cls) (events the handler delivers for the document the writer
                                 produced from (generate ign c u o)) = Ok o [].
   It is false of the faithful models (see the _refuted theorems below: xsi:nil conflation on
   nillable fields, ...).  What is PROVED is the statement under the computable guards
   `wf_model u cls` (the metadata fragment: slices S1-S3 + namespaces) and `fits ... o`, for
   every ignore_default_attributes flag, every parser configuration whose class factory has a
   default for every field, every converter satisfying the round-trip law on the values of `o`,
   and EVERY event stream that reads as the document (any attribute order, any prefix maps,
   indentation white space): theorem C01_roundtrip_S3.  The rest of the quantifier (wrappers,
   sequence groups, nillable, wildcards, compound fields, xsi:type, unions, QName values) is
   covered by the correspondence and the oracle of harness/c01.py only. *)
From Coq Require Import NArith ZArith List Bool.
From XV Require Import Base.Str Base.Eqb Base.PyInt Spec.XmlNs Model.Bind Model.WriterBridge Spec.Fits
  Proofs.RoundtripParse Proofs.RoundtripMain.
From XV Require Model.EventGen Model.Parser.
Import ListNotations.

(* ---- the round trip at the infoset level, slices S1-S3 (+ namespaces of S4) -------------
   S1: Attribute / Element fields of primitive type through the abstract converter, optional
       or required, with or without defaults;  S2: nested class-typed Element fields (any depth);
   S3: list fields, token lists (attributes, elements, lists of token lists), Text fields of
       simple-content classes;  class / field namespaces ("" and inherited included) come for
       free: qualified names are opaque to both directions and the guards speak about the
       qualified names the real XmlContext built. *)
Theorem C01_roundtrip_S3 : forall cfg c u ok ign n cls o,
  conv_roundtrips c u ok ->                 (* converter law on the accepted values (C05 / C06) *)
  nodefault_free cfg = true ->              (* every field has a default (C15, first refutation) *)
  wf_model u cls = true ->                  (* metadata fragment *)
  fits c u ok py_isspace n cls o = true ->  (* typed, representable instance *)
  exists evs e,
    EventGen.generate ign c u o = EventGen.Ok evs
    /\ itree_of_events (map (of_wevent c) evs) = Some e
    /\ forall k pevs, reads e pevs -> Parser.parse_n k cfg c u (Some cls) pevs = Parser.Ok o [].
Proof. intros. eapply roundtrip_reads; eassumption. Qed.
Print Assumptions C01_roundtrip_S3.
