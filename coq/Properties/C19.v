(* Properties/C19.v — placeholder until Proofs/Sched*.v land. *)
From XV Require Import Base.Str Model.Context Model.Sched.
