(* Properties/C19.v — a shared binding context is safe under concurrent use.
   Statements only; proofs in Proofs/Sched*.v.

   Model: Model/Sched.v.  Every method of XmlContext that parsers and serializers
   use (build, fetch, find_types, find_type, find_subclass, build_xsi_cache) is cut
   into atomic actions — one marked source line of context.py each: a dict
   membership test, read or store, an attribute read or store.  `conc_run w st progs
   sched`: the threads `progs` (call-level scripts of Model/Context.v, expanded to
   actions) start on the shared state `st`, perform their actions in the order
   `sched` says (a list of thread numbers, any length), then run to completion; the
   result of every thread.  `solo_run w st s`: s alone on st.  The world (classes,
   len(sys.modules)) does not change during a run.

   History: until /repo commit ece294b build_xsi_cache cleared and refilled the shared
   index in place; `C19_cold_index_race_refuted` (a thread observing the cleared index:
   find_type -> None, "No class found matching root") held of the model and of the
   code, and the theorem needed a `warm` guard clause.  The index is now built aside
   and published with one store; the refutation and the clause are gone, the theorem
   covers cold contexts.  The old forced schedule stays in the check (harness/c19.py). *)
From Coq Require Import String NArith List Bool.
From XV Require Import Base.Str Base.Eqb Model.Context Model.Sched
  Proofs.ContextWitness Proofs.SchedSafe Proofs.SchedWitness.
Import ListNotations.
Open Scope N_scope.

(* The property at full strength — for every state, all thread sets, all schedules:
     conc_run w st progs sched = map (solo_run w st) progs
   is FALSE of the faithful model (and of the implementation): the concurrent form of the
   cache-key defect of C14.  Two threads serialize parents in different namespaces that
   share a child class without a namespace of its own: *)
Theorem C19_ns_cache_key_concurrent_refuted :
  exists w st progs sched i,
    nth_error (conc_run w st progs sched) i <> nth_error (map (solo_run w st) progs) i
    /\ conc_guard w st progs = false.
Proof.
  exists W, warm1, ns_threads, ns_sched, 1%nat. destruct ns_race as [H G].
  split; [|assumption]. cbn [map nth_error ns_threads]. exact H.
Qed.
Print Assumptions C19_ns_cache_key_concurrent_refuted.

(* second refutation: build_recursive stops at a class another thread has cached (C14's defect d) *)
Theorem C19_build_recursive_concurrent_refuted :
  exists w st progs sched i,
    nth_error (conc_run w st progs sched) i <> nth_error (map (solo_run w st) progs) i
    /\ forallb (ref_rec_closed w (eff_index w st)) progs = false.
Proof.
  exists W, s0, [rec_dep; serialize W vDep], [1; 1; 1]%nat, 0%nat. destruct rec_race as [H [_ G]].
  split; [|assumption]. cbn [map nth_error]. exact H.
Qed.
Print Assumptions C19_build_recursive_concurrent_refuted.

(* The guarded theorem.  conc_guard w st progs (computable, Model/Sched.v) =
     world_ok w && cache_known w (s_cache st) && unsup_ok w st
     && forallb (ref_rec_closed w (eff_index w st)) progs
                                 no build_recursive of any thread meets an unbuildable class below its argument
     && consistent (s_cache st ++ requests of all threads)
   every class is requested — by any thread, or earlier — under parent namespaces that
   give one and the same metadata.  Nothing is assumed about the index: the context may
   be cold, warm, or hold a stale index.  For ANY number of threads and ANY schedule every
   call returns what the reference semantics says over the index all lookups answer from
   (eff_index: the one held if it counts as current, else the one any thread builds),
   which is also what the call returns when it runs alone: *)
Theorem C19_context_safe :
  forall w st progs sched,
  conc_guard w st progs = true ->
  conc_run w st progs sched = map (ref_run w (eff_index w st)) progs
  /\ map (solo_run w st) progs = map (ref_run w (eff_index w st)) progs.
Proof. exact context_safe. Qed.
Print Assumptions C19_context_safe.

Theorem C19_context_safe_solo :
  forall w st progs sched,
  conc_guard w st progs = true -> conc_run w st progs sched = map (solo_run w st) progs.
Proof. intros w st progs sched Hg. destruct (context_safe w st progs sched Hg) as [H1 H2]. congruence. Qed.
Print Assumptions C19_context_safe_solo.

(* the schedule of the former cold-index race is harmless now *)
Theorem C19_former_race_schedule_harmless :
  conc_run W s0 [ftPA; ftPA] race_sched = [solo_run W s0 ftPA; solo_run W s0 ftPA]
  /\ conc_run W s0 [parsePA; parsePA] race_sched = [solo_run W s0 parsePA; solo_run W s0 parsePA]
  /\ solo_run W s0 ftPA = ROk (Node (q "c:2") []).
Proof. exact race_sched_harmless. Qed.
Print Assumptions C19_former_race_schedule_harmless.

(* the guard is not vacuous: six threads doing untyped dict decoding (find_type_by_fields over every
   class of the index, one unbuildable), local_names_match and lookups on a cold context; eight threads (serialize, parse with and without a target
   class, find_type, fetch with xsi:type, a class that cannot be built, a truncated
   document) on a cold context, on a warm one, and three on one with a stale index *)
Theorem C19_guard_nonvacuous :
  conc_guard W s0 good_threads = true /\ conc_guard W warm1 good_threads = true
  /\ conc_guard W stale1 [ftPA; parsePA; ftPA] = true
  /\ conc_guard W s0 untyped_threads = true
  /\ conc_guard W s0 [recPA; serialize W vPA; recPA; parsePA] = true.
Proof.
  split; [exact conc_guard_cold|]. split; [exact conc_guard_warm|]. destruct conc_guard_stale.
  split; [assumption|]. split; [exact conc_guard_untyped|exact conc_guard_rec].
Qed.
Print Assumptions C19_guard_nonvacuous.
