(* Properties/C19.v — a shared binding context is safe under concurrent use.
   Statements only; proofs in Proofs/Sched*.v.

   Model: Model/Sched.v.  Every method of XmlContext that parsers and serializers
   use (build, fetch, find_types, find_type, find_subclass, build_xsi_cache) is cut
   into atomic actions — one marked source line of context.py each: a dict
   membership test, read, store or clear, a list append or read, an attribute read
   or store.  `conc_run w st progs sched`: the threads `progs` (call-level scripts
   of Model/Context.v, expanded to actions) start on the shared state `st`, perform
   their actions in the order `sched` says (a list of thread numbers, any length),
   then run to completion; the result of every thread.  `solo_run w st s`: s alone
   on st.  The world (classes, len(sys.modules)) does not change during a run. *)
From Coq Require Import String NArith List Bool.
From XV Require Import Base.Str Base.Eqb Model.Context Model.Sched
  Proofs.ContextWitness Proofs.SchedSafe Proofs.SchedWitness.
Import ListNotations.
Open Scope N_scope.

(* The property at full strength — for every state st a context can be in, all
   thread sets and all schedules:
     conc_run w st progs sched = map (solo_run w st) progs
   is FALSE of the faithful model (and of the implementation).  On a cold context two
   threads that both look a class up by its qualified name: *)
Theorem C19_cold_index_race_refuted :
  exists w progs sched i,
    nth_error (conc_run w s0 progs sched) i <> nth_error (map (solo_run w s0) progs) i
    /\ conc_guard w [] progs = true        (* the requests are ns-closed: only "warm" fails *)
    /\ warm_b w s0 = false.
Proof.
  exists W, [ftPA; ftPA], race_sched, 1%nat. destruct cold_index_race as [H [G Wm]].
  split; [|split; assumption]. cbn [map nth_error]. exact H.
Qed.
Print Assumptions C19_cold_index_race_refuted.

(* what the parser makes of it: "No class found matching root" *)
Theorem C19_cold_index_race_parse :
  conc_run W s0 [parsePA; parsePA] race_sched
  = [ROk (tree_of_value vPA); RErr e_parser (q "No class found matching root: {urn:a}PA")]
  /\ solo_run W s0 parsePA = ROk (tree_of_value vPA).
Proof. exact race_parse. Qed.
Print Assumptions C19_cold_index_race_parse.

(* second refutation: the concurrent form of the cache-key defect of C14 (warm context) *)
Theorem C19_ns_cache_key_concurrent_refuted :
  exists w st progs sched i,
    nth_error (conc_run w st progs sched) i <> nth_error (map (solo_run w st) progs) i
    /\ warm_b w st = true /\ conc_guard w (s_cache st) progs = false.
Proof.
  exists W, warm1, ns_threads, ns_sched, 1%nat. destruct ns_race as [H [Wm G]].
  split; [|split; assumption]. cbn [map nth_error ns_threads]. exact H.
Qed.
Print Assumptions C19_ns_cache_key_concurrent_refuted.

(* The guarded theorem.  Guards (computable, Model/Sched.v):
     warm_b w st       build_xsi_cache has run for the current world: sys_modules is
                       len(sys.modules) and the index holds what it would build
     conc_guard w (s_cache st) progs =
       world_ok w && cache_known w cache && index_short w
       && consistent (cache ++ requests of all threads)
                       every class is requested — by any thread, or earlier — under parent
                       namespaces that give one and the same metadata.
   For ANY number of threads and ANY schedule every call returns what the stateless
   reference semantics says, which is also what it returns when it runs alone: *)
Theorem C19_warm_context_safe :
  forall w st progs sched,
  warm_b w st = true -> conc_guard w (s_cache st) progs = true ->
  conc_run w st progs sched = map (ideal_run_c w) progs
  /\ map (solo_run w st) progs = map (ideal_run_c w) progs.
Proof. exact warm_context_safe. Qed.
Print Assumptions C19_warm_context_safe.

Theorem C19_warm_context_solo :
  forall w st progs sched,
  warm_b w st = true -> conc_guard w (s_cache st) progs = true ->
  conc_run w st progs sched = map (solo_run w st) progs.
Proof.
  intros w st progs sched Hw Hg. destruct (warm_context_safe w st progs sched Hw Hg) as [H1 H2]. congruence.
Qed.
Print Assumptions C19_warm_context_solo.

(* the guard is not vacuous: eight threads (serialize, parse with and without a target
   class, find_type, fetch with xsi:type, a class that cannot be built, a truncated
   document) on a context warmed by one lookup *)
Theorem C19_guard_nonvacuous :
  warm_b W warm1 = true /\ conc_guard W (s_cache warm1) good_threads = true.
Proof. split; [exact warm1_is_warm|exact conc_guard_nonvacuous]. Qed.
Print Assumptions C19_guard_nonvacuous.
