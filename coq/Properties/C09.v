(* Properties/C09.v — parsing depends only on the XML infoset (statements only).

   Model: Model/Parser.v (NodeParser + nodes + ParserUtils), consumed at the level of parser
   events: element and attribute names resolved to Clark notation, attribute values and
   character data as delivered by the tokeniser.  Everything BELOW that level — comments,
   processing instructions, CDATA sections, character references, character encodings, XInclude,
   attribute-value normalisation — is the tokenisers' job (expat / libxml2): not modelled, oracle
   only (harness/c09.py rewrites real documents through both real handlers).

   (a) attribute order     (b) prefixes / default namespace     (c) whitespace between the
   children of element-only content     (d) XSD whitespace around non-string values.
   The hypotheses of (a) (b1) (c) are evaluated in Coq by harness/c09.py on pairs of REAL recorded
   event streams (document, rewritten document). *)
From Coq Require Import NArith ZArith List Bool Sorting.Permutation.
From XV Require Import Base.Str Base.Eqb Base.PyInt Spec.XsdPrims Model.Bind Model.Parser Model.ParserCorr
  Model.Reader Model.ReaderCorr Model.ParserInvCorr
  Model.ConvBool Model.ConvInt Model.ConvDecimal Model.ConvFloat Model.ConvBytes Model.ConvGuards Gen.ConvTables
  Proofs.ParserWitness Proofs.ReaderWitness Proofs.ReaderRefute Proofs.ReaderConv Proofs.ReaderAgree Proofs.ReaderMaps
  Proofs.ConvQName
  Proofs.ParserInvNs Proofs.ParserInvVal Proofs.ParserInvValC05 Proofs.ParserInvCombine
  Proofs.ParserCtx Proofs.ParserCtxGuard Proofs.ParserInvWs Proofs.ParserInvAttrs.
From XV Require Model.ConvQName.
Import ListNotations.

(* ================================================================== (a) attribute order *)
(* the result may differ in the ORDER of dict-valued results only (Attributes maps,
   AnyElement.attributes); Python's dict == ignores it: on lists with unique keys "same value for
   every key" (what dict.__eq__ decides) is "one is a permutation of the other" *)
Theorem C09_dict_equality_is_python : forall m m', NoDup (map fst m) -> NoDup (map fst m') ->
  (dict_eq m m' <-> Permutation m m').
Proof. exact dict_eq_iff_perm. Qed.
Print Assumptions C09_dict_equality_is_python.

Theorem C09_dict_equiv_is_dict_eq : forall m m', NoDup (map fst m) -> NoDup (map fst m') ->
  (dict_equiv m m' <-> dict_eq m m').
Proof. exact dict_equiv_iff. Qed.
Print Assumptions C09_dict_equiv_is_dict_eq.

(* FULL statement (any metadata) is false of the model — but only for metadata no XmlContext can
   build (two fields of one class with the same name): no real-code witness, no finding *)
Theorem C09_attr_order_unguarded_refuted :
  exists cfg c u root evs evs',
    Forall2 ev_perm evs evs' /\ ~ outcome_equiv (parse cfg c u root evs) (parse cfg c u root evs').
Proof. exact attrs_perm_invariant_refuted. Qed.
Print Assumptions C09_attr_order_unguarded_refuted.

Theorem C09_attr_order_unguarded_refuted_any :
  exists cfg c u root evs evs',
    Forall2 ev_perm evs evs' /\ ~ outcome_equiv (parse cfg c u root evs) (parse cfg c u root evs').
Proof. exact attrs_perm_invariant_refuted_any. Qed.
Print Assumptions C09_attr_order_unguarded_refuted_any.

(* guard: in every class the names of the attribute fields are pairwise distinct and differ from
   the names of the Attributes fields (computable; true of every real XmlMeta) *)
Theorem C09_attr_order : forall cfg c u root evs evs',
  universe_ok u = true ->
  Forall2 ev_perm evs evs' ->
  outcome_equiv (parse cfg c u root evs) (parse cfg c u root evs').
Proof. exact attrs_perm_invariant. Qed.
Print Assumptions C09_attr_order.

Example C09_attr_order_nonvacuous :
  universe_ok u_good = true
  /\ Forall2 ev_perm doc_good doc_good'
  /\ parse default_config w_conv u_good (Some 1%N) doc_good
     = Ok (VObj 1 [([120], VP (PStr [49])); ([121], VP (PStr [50])); ([114;101;115;116], VMap [([99], [51]); ([100], [52])])]) []
  /\ parse default_config w_conv u_good (Some 1%N) doc_good'
     = Ok (VObj 1 [([120], VP (PStr [49])); ([121], VP (PStr [50])); ([114;101;115;116], VMap [([100], [52]); ([99], [51])])]) []
  /\ outcome_equiv (parse default_config w_conv u_good (Some 1%N) doc_good) (parse default_config w_conv u_good (Some 1%N) doc_good').
Proof. exact guard_nontrivial. Qed.

(* the boolean equality the harness applies to the observed objects is sound for value_equiv *)
Theorem C09_value_eqb_dict_sound : forall a b, value_eqb_dict a b = true -> value_equiv a b.
Proof. exact value_eqb_dict_sound. Qed.
Print Assumptions C09_value_eqb_dict_sound.

(* as evaluated on recorded streams: attribute order together with another order of the xmlns
   declarations (start-ns events dropped, maps lookup-equivalent) *)
Theorem C09_attr_order_guarded : forall cfg c u root e1 e2,
  universe_ok u = true -> conv_lookup_only c ->
  forallb2 ev_permb (strip_ns e1) (strip_ns e2) = true ->
  outcome_equiv (parse cfg c u root e1) (parse cfg c u root e2).
Proof. exact attr_order_guarded. Qed.
Print Assumptions C09_attr_order_guarded.

(* ================================================================== (b) prefixes, default namespace *)
(* (b1) any rewrite that keeps every lookup: other order of the declarations, redundant
   redeclarations, declarations moved to an ancestor, xmlns="" spelled out or not *)
Theorem C09_prefix_maps_lookup_only : forall cfg c u root evs evs',
  conv_lookup_only c -> Forall2 pevent_equiv evs evs' ->
  parse cfg c u root evs = parse cfg c u root evs'.
Proof. exact prefix_maps_lookup_only. Qed.
Print Assumptions C09_prefix_maps_lookup_only.

Theorem C09_start_ns_ignored : forall cfg c u root evs,
  parse cfg c u root (strip_ns evs) = parse cfg c u root evs.
Proof. exact parse_strip_ns. Qed.
Print Assumptions C09_start_ns_ignored.

Theorem C09_lookup_only_guarded : forall cfg c u root e1 e2,
  conv_lookup_only c ->
  forallb2_pe (strip_ns e1) (strip_ns e2) = true ->
  parse cfg c u root e1 = parse cfg c u root e2.
Proof. exact lookup_only_guarded. Qed.
Print Assumptions C09_lookup_only_guarded.

(* the hypothesis on the converter holds of the modelled QNameConverter (C05's model) *)
Theorem C09_conv_hypothesis_nonvacuous : conv_lookup_only qconv.
Proof. exact qconv_lookup_only. Qed.

(* (b2) RENAMING a prefix is not invisible: finding C09-F3 (parse_any_attribute) *)
Theorem C09_prefix_renaming_refuted :
  exists cfg c u root evs p q,
    conv_lookup_only c
    /\ parse cfg c u root evs <> parse cfg c u root (map (rename_event p q) evs).
Proof. exact prefix_renaming_refuted. Qed.
Print Assumptions C09_prefix_renaming_refuted.

(* (b3) consistent RENAMING / re-binding of the prefixes in P, event level: the maps may differ
   arbitrarily on the prefixes in P (and only there); the xsi:type value is re-spelled so that it
   resolves to the same name and is expanded alike by parse_any_attribute; every other attribute
   value and every text is unchanged and uses none of the prefixes in P (`good P`: neither the
   string, nor its stripped form, nor one of its whitespace tokens has a lexical prefix in P).
   Converter law conv_prefix_local (QNameConverter.resolve looks up the prefix of ITS text only),
   proved for C05's model; guard: no class declares an attribute field named xsi:type. *)
Theorem C09_prefix_renaming : forall P cfg c u root evs evs',
  conv_prefix_local c -> no_xsi_type_attr u = true ->
  Forall2 (renamed P c) evs evs' ->
  parse cfg c u root evs = parse cfg c u root evs'.
Proof. exact prefix_renaming_invariant. Qed.
Print Assumptions C09_prefix_renaming.

(* as evaluated on recorded streams (P = every prefix of both streams) *)
Theorem C09_prefix_renaming_guarded : forall P cfg c u root e1 e2,
  conv_prefix_local c -> no_xsi_type_attr u = true ->
  forallb2 (renamedb P c) (strip_ns e1) (strip_ns e2) = true ->
  parse cfg c u root e1 = parse cfg c u root e2.
Proof. exact prefix_renaming_guarded. Qed.
Print Assumptions C09_prefix_renaming_guarded.

Theorem C09_conv_prefix_local_nonvacuous : conv_prefix_local qconv.
Proof. exact qconv_prefix_local. Qed.
Print Assumptions C09_conv_prefix_local_nonvacuous.

(* the generic form: any relation between the CONTEXTS (attributes, map) of the start events that
   every read of the parser respects (A1 xsi:type, A2 xsi:nil, A3 union candidates, A4 bind_attrs,
   A5 parse_any_attributes, A6 every text conversion of a `good` text) *)
Theorem C09_parse_reads_contexts_only : forall c u (CR : ctx -> ctx -> Prop) (MP : xmeta -> Prop) (good : str -> Prop),
  (forall cl m, u_meta u cl = Some m -> MP m) ->
  (forall a n a' n', CR (a, n) (a', n') -> xsi_type_of c a n = xsi_type_of c a' n') ->
  (forall a n a' n', CR (a, n) (a', n') -> xsi_nil_of a = xsi_nil_of a') ->
  (forall a n a' n', CR (a, n) (a', n') -> forall tys, filter_candidates c u a tys = filter_candidates c u a' tys) ->
  (forall a n a' n', CR (a, n) (a', n') -> forall cfg en, MP (en_meta en) ->
     bind_attrs cfg c (with_ctx en a n) = bind_attrs cfg c (with_ctx en a' n')) ->
  (forall a n a' n', CR (a, n) (a', n') -> parse_any_attributes a n = parse_any_attributes a' n') ->
  (forall a n a' n', CR (a, n) (a', n') -> forall failc m var txt tys fmt, ogood good txt ->
     parse_var c failc m var txt n tys fmt = parse_var c failc m var txt n' tys fmt) ->
  forall cfg root evs evs', Forall2 (cev_rel CR good) evs evs' ->
  parse cfg c u root evs = parse cfg c u root evs'.
Proof. exact parse_C. Qed.
Print Assumptions C09_parse_reads_contexts_only.

(* renamed maps AND re-spelled xsi:type: both parses Ok and equal; renaming the maps alone fails *)
Example C09_prefix_renaming_nonvacuous :
  parse default_config qconv u_any_attrs (Some root_any_attrs) ex_evs
  = parse default_config qconv u_any_attrs (Some root_any_attrs) ex_evs'
  /\ (exists v, parse default_config qconv u_any_attrs (Some root_any_attrs) ex_evs = Ok v []
             /\ parse default_config qconv u_any_attrs (Some root_any_attrs) ex_evs' = Ok v [])
  /\ ex_evs <> ex_evs'
  /\ parse default_config qconv u_any_attrs (Some root_any_attrs) (map (rename_event [112]%N [122]%N) ex_evs)
     = Err ConverterError.
Proof. exact prefix_renaming_example. Qed.

(* the side condition `good` cannot be dropped (finding C09-F3 again) *)
Theorem C09_prefix_renaming_side_condition_needed :
  exists P cfg c u root evs evs',
    conv_prefix_local c /\ no_xsi_type_attr u = true
    /\ Forall2 (renamed_gen P c (fun _ => True)) evs evs'
    /\ parse cfg c u root evs <> parse cfg c u root evs'.
Proof. exact good_side_condition_needed. Qed.
Print Assumptions C09_prefix_renaming_side_condition_needed.

(* PARTIAL — QName-typed TEXT / ordinary QName-typed attributes re-spelled with the new prefix:
   function level only (in C09_prefix_renaming such values must stay identical and `good`).
   QName content re-spelled consistently with the renamed map (other prefix, default-namespace
   spelling, XSD padding) denotes the same name: *)
Theorem C09_qname_respelling_partial : forall po po' local m m' a b a' b',
  good_name local = true ->
  good_prefix po ->
  good_prefix po' ->
  forallb xml_ws a = true -> forallb xml_ws b = true -> forallb xml_ws a' = true -> forallb xml_ws b' = true ->
  norm_uri (ns_get po m) = norm_uri (ns_get po' m') ->
  (norm_uri (ns_get po m) <> None \/ (po = None /\ po' = None)) ->
  ConvQName.qname_deser (a ++ qlex po local ++ b) (Some m) = ConvQName.qname_deser (a' ++ qlex po' local ++ b') (Some m').
Proof. exact qname_respelling. Qed.
Print Assumptions C09_qname_respelling_partial.

Theorem C09_xsi_type_respelling_partial : forall po po' local m m' attrs attrs',
  good_name local = true ->
  good_prefix po ->
  good_prefix po' ->
  assoc XSI_TYPE attrs = Some (qlex po local) -> assoc XSI_TYPE attrs' = Some (qlex po' local) ->
  norm_uri (ns_get po m) = norm_uri (ns_get po' m') ->
  (norm_uri (ns_get po m) <> None \/ (po = None /\ po' = None)) ->
  xsi_type_of qconv attrs m = xsi_type_of qconv attrs' m'.
Proof. exact xsi_type_respelling. Qed.
Print Assumptions C09_xsi_type_respelling_partial.

(* ================================================================== (c) whitespace, element-only content *)
(* `ws_variant_n`: the two streams differ only in tails (None / whitespace-only, read through
   normalize_content everywhere) and in the text of elements whose node ignores it: ElementNode
   of a class without text field (element-only content), WrapperNode, SkipNode, WildcardNode with
   children — evaluated along the parser's own run *)
Theorem C09_ws_invariant : forall cfg c u root evs evs',
  ws_variant_n (length evs) cfg c u root init_state evs evs' = true ->
  parse cfg c u root evs = parse cfg c u root evs'.
Proof. exact ws_invariant_parse. Qed.
Print Assumptions C09_ws_invariant.

Theorem C09_tails_invariant : forall cfg c u root evs evs',
  Forall2 ev_tail_rel evs evs' -> parse cfg c u root evs = parse cfg c u root evs'.
Proof. exact tails_invariant_parse. Qed.
Print Assumptions C09_tails_invariant.

(* in the vocabulary of the property: the text of an element bound to a class without text field *)
Theorem C09_ws_element_only : forall n cfg c u root pre post q t t' tl tl' st en Q,
  run_n n cfg c u root pre = ROk st ->
  st_queue st = NElement en :: Q -> m_text (en_meta en) = None ->
  normalize_content t = normalize_content t' ->
  normalize_content tl = normalize_content tl' ->
  parse_n n cfg c u root (pre ++ PEnd q t tl :: post) = parse_n n cfg c u root (pre ++ PEnd q t' tl' :: post).
Proof. exact ws_element_only_end. Qed.
Print Assumptions C09_ws_element_only.

(* each clause of the guard is needed *)
Theorem C09_ws_text_visible_refuted :
  exists cfg c u root evs evs',
    Forall2 ev_norm_rel evs evs'
    /\ parse cfg c u root evs <> parse cfg c u root evs'
    /\ ws_variant_n (length evs) cfg c u root init_state evs evs' = false.
Proof. exact ws_text_visible_refuted. Qed.
Print Assumptions C09_ws_text_visible_refuted.

Theorem C09_ws_text_field_visible_refuted :
  exists cfg c u root evs evs',
    Forall2 ev_norm_rel evs evs'
    /\ parse cfg c u root evs <> parse cfg c u root evs'
    /\ ws_variant_n (length evs) cfg c u root init_state evs evs' = false.
Proof. exact ws_text_field_visible_refuted. Qed.

Theorem C09_ws_childless_wildcard_visible_refuted :
  exists cfg c u root evs evs',
    Forall2 ev_norm_rel evs evs'
    /\ parse cfg c u root evs <> parse cfg c u root evs'
    /\ ws_variant_n (length evs) cfg c u root init_state evs evs' = false.
Proof. exact ws_childless_wildcard_visible_refuted. Qed.

Example C09_ws_invariant_nonvacuous :
  ws_variant_n (length ws_doc) ws_cfg (conv_of_table ws_tbl) u_required (Some root_required) init_state ws_doc ws_doc' = true
  /\ ws_doc <> ws_doc'
  /\ parse ws_cfg (conv_of_table ws_tbl) u_required (Some root_required) ws_doc
     = Ok (VObj 2 [([97], VP (PInt 1%Z)); ([98], VP (PStr [120])); ([105], VObj 1 [([118], VP (PInt 2%Z))])]) [].
Proof. exact ws_variant_nonvacuous. Qed.

(* ================================================================== (d) whitespace around non-string values *)
(* texts: wherever the converter reads the padded text like the original one (`reads_alike`,
   evaluated against the node on top of the parser's queue), the parse is unchanged *)
Theorem C09_value_ws_text : forall n cfg c u root evs evs',
  val_variant cfg c u (replay_n n c u) root init_state evs evs' ->
  parse_n n cfg c u root evs = parse_n n cfg c u root evs'.
Proof. exact val_invariant. Qed.
Print Assumptions C09_value_ws_text.

(* where `reads_alike` comes from: a converter law for single values, str.split() for tokens *)
Theorem C09_reads_alike_single : forall c tys d ns fmt s s' p,
  c_deser c tys fmt ns s = Some p -> c_deser c tys fmt ns s' = Some p ->
  reads_alike c tys d ns None fmt s s'.
Proof. exact reads_alike_single. Qed.
Print Assumptions C09_reads_alike_single.

Theorem C09_reads_alike_tokens : forall c tys d ns f fmt s a b v,
  forallb xml_ws a = true -> forallb xml_ws b = true ->
  parse_value c (Some s) tys d ns (Some f) fmt = ROk v ->
  reads_alike c tys d ns (Some f) fmt s (a ++ s ++ b).
Proof. exact reads_alike_tokens. Qed.
Print Assumptions C09_reads_alike_tokens.

(* the law, for the converters property C05 models (corollaries of C05_*_accepts_xsd) *)
Theorem C09_int_padding : forall i a b,
  wf_integer i = true -> int_sp_in_limit i = true -> forallb xml_ws a = true -> forallb xml_ws b = true ->
  int_deser (a ++ lex_integer i ++ b) = Some (val_integer i) /\ int_deser (lex_integer i) = Some (val_integer i).
Proof. exact int_padding. Qed.
Print Assumptions C09_int_padding.

Theorem C09_bool_padding : forall s v a b,
  xsd_boolean s = Some v -> forallb xml_ws a = true -> forallb xml_ws b = true ->
  bool_deser (a ++ s ++ b) = Some v /\ bool_deser s = Some v.
Proof. exact bool_padding. Qed.

Theorem C09_decimal_padding : forall d a b,
  wf_decimal d = true -> dec_sp_fits d = true -> forallb xml_ws a = true -> forallb xml_ws b = true ->
  dec_deser (a ++ lex_decimal d ++ b) = dec_deser (lex_decimal d).
Proof. exact decimal_padding. Qed.

Theorem C09_float_padding : forall d a b,
  wf_double d = true -> forallb xml_ws a = true -> forallb xml_ws b = true ->
  float_syntax (a ++ lex_double d ++ b) = float_syntax (lex_double d).
Proof. exact float_padding. Qed.

Theorem C09_qname_padding : forall q env a b v,
  wf_qname q = true -> val_qname env q = Some v -> qname_sp_edge_guard q = true ->
  forallb xml_ws a = true -> forallb xml_ws b = true ->
  ConvQName.qname_deser (a ++ lex_qname q ++ b) (Some env) = ConvQName.qname_deser (lex_qname q) (Some env).
Proof. exact qname_padding. Qed.

(* PARTIAL — attribute values: function level only (the attributes are stored in the node at
   `start` and read at `end`; the event-level statement needs a simulation like (a)'s) *)
Theorem C09_value_ws_attribute_partial : forall cfg c en var s s' p,
  reads_alike c (v_types var) (v_default var) (en_ns en) (v_tokens_factory var) (v_format var) s s' ->
  bind_attr cfg c en var s p = bind_attr cfg c en var s' p.
Proof. exact bind_attr_reads_alike. Qed.
Print Assumptions C09_value_ws_attribute_partial.

Example C09_value_ws_nonvacuous :
  val_variant (cfg_of true false false nodefault_required) conv_intbool u_required
              (replay_n 6 conv_intbool u_required) (Some root_required) init_state ev_val_plain ev_val_padded
  /\ ev_val_plain <> ev_val_padded
  /\ exists v, parse (cfg_of true false false nodefault_required) conv_intbool u_required (Some root_required) ev_val_padded = Ok v [].
Proof. exact val_variant_nonvacuous. Qed.

(* the restriction to non-string values is needed: padding the text of a str field is visible *)
Theorem C09_value_ws_str_refuted :
  exists cfg c u root evs evs',
    parse cfg c u root evs <> parse cfg c u root evs'
    /\ evs' = [PStart [82] [] []; PStart [97] [] []; PEnd [97] (Some [49;55]) None;
               PStart [98] [] []; PEnd [98] (Some [32;120]) None; PEnd [82] None None]%N
    /\ evs = ev_val_plain.
Proof. exact val_padding_str_refuted. Qed.
Print Assumptions C09_value_ws_str_refuted.
