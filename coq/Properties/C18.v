(* Properties/C18.v — statements only.
   C18: "Executing the Python source produced by the code serializer for any model
   instance in a fresh namespace binds the requested variable to an object equal to the
   original, and the emitted import lines are sufficient for that source to run."

   repr/imports  = Model/Pycode.v (PycodeSerializer, literal_value, the __repr__s)
   eval/veq      = Spec/PyEval.v  (CPython on the emitted subset; NaN-tolerant ==)
   wf            = invariants of real object graphs (fields match the class, dict keys
                   distinct hashable scalars, Decimal/float/date payloads well-formed)
   guard         = g_imports && g_init, one clause per refutation below (the clauses
                   g_array, g_enum, g_raw, g_std were deleted when the defects were
                   repaired in /repo: a2ce0be, fc8f170, 06e145c, db048b1) *)
From Coq Require Import NArith ZArith List Bool String.
From XV Require Import Base.Str Spec.PyEval Model.Pycode Proofs.Pycode Proofs.PycodeRefuted.
Import ListNotations.

(* the full statement is false of the faithful model ... *)
Theorem C18_evals_back_unguarded_refuted :
  exists W o, wf W o = true /\ roundtrip W o = false.
Proof. exists W_wit, wit_collision. split; apply import_collision_refuted. Qed.
Print Assumptions C18_evals_back_unguarded_refuted.

(* ... for exactly these reasons (each witness violates one clause of the guard only) *)
Theorem C18_import_collision_refuted :
  exists W o, wf W o = true /\ only_imports W o = true /\ roundtrip W o = false.
Proof. exists W_wit, wit_collision. exact import_collision_refuted. Qed.
Print Assumptions C18_import_collision_refuted.

Theorem C18_init_false_refuted :
  exists W o, wf W o = true /\ only_init W o = true /\ roundtrip W o = false.
Proof. exists W_wit, wit_init. exact init_false_refuted. Qed.
Print Assumptions C18_init_false_refuted.

(* inside the guard: all worlds, all instances, no bound *)
Theorem C18_pycode_evals_back :
  forall W o, wf W o = true -> guard W o = true ->
  exists o', eval W (env_of_imports (imports W o)) (repr W o) = Some o' /\ veq true o' o = true.
Proof. exact pycode_evals_back. Qed.
Print Assumptions C18_pycode_evals_back.

(* no guard at all: every name the expression needs is a builtin or bound by an emitted
   `from m import n` / `import m` line *)
Theorem C18_imports_sufficient :
  forall W o, wf W o = true ->
  forall n, In n (heads (repr W o)) ->
  is_builtin n = true \/ exists p, In p (imports W o) /\ bound_name p = n.
Proof. exact imports_sufficient. Qed.
Print Assumptions C18_imports_sufficient.

Example C18_guard_nonvacuous :
  wf W_wit wit_ok = true /\ guard W_wit wit_ok = true /\ roundtrip W_wit wit_ok = true.
Proof. exact guard_nonvacuous. Qed.
Print Assumptions C18_guard_nonvacuous.
