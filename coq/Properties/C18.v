(* Properties/C18.v — statements only. *)
From Coq Require Import ZArith List Bool.
From XV Require Import Base.Str Spec.PyEval Model.Pycode.
Import ListNotations.

Example C18_placeholder : roundtrip [] (VList [VInt 1%Z; VNone]) = true.
Proof. vm_compute. reflexivity. Qed.
Print Assumptions C18_placeholder.
