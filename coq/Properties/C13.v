(* Properties/C13.v — C13: models generated from sample documents accept those documents.
   Statements only; every proof is `exact <lemma>` followed by its Print Assumptions.
   Model: Model/Sample.v (faithful to xsdata/codegen/mappers/{element,mixins,dict}.py and
   ClassUtils.flatten / reduce_classes / reduce_attributes / sorted_attrs / merge_attributes / filter_types);
   the statements are the boolean predicates of Model/SampleCorr.v, which the check also evaluates on the
   REAL reduce_classes output of every generated sample set. *)
From Coq Require Import NArith List Bool.
From XV Require Import Base.Str Model.Sample Model.SampleCorr Proofs.SampleFit.
Import ListNotations.

(* 1. samples_fit + attrs_fit: for EVERY set of sample trees and EVERY behaviour of the converter tests, every
      node of every sample that gets a class (the root and every element with attributes or children) finds,
      in the merged class of its name, a slot for each child element (a list slot when the child name occurs
      more than once in the node: capacity >= occurrences), for each attribute and for its text; every part of
      the merged class that the node lacks has min_occurs = 0; text between children needs and finds a mixed
      class.  No side condition. *)
Theorem C13_samples_fit : forall cv (S : list tree), forallb (tree_fits (classes_of_xml cv S)) S = true.
Proof. exact samples_fit. Qed.
Print Assumptions C13_samples_fit.
