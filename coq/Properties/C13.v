(* Properties/C13.v — C13: models generated from sample documents accept those documents.
   Statements only; every proof is `exact <lemma>` followed by its Print Assumptions.
   Model: Model/Sample.v (faithful to xsdata/codegen/mappers/{element,mixins,dict}.py and
   ClassUtils.flatten / reduce_classes / reduce_attributes / sorted_attrs / merge_attributes / filter_types);
   the statements are the boolean predicates of Model/SampleCorr.v, which the check also evaluates on the
   REAL reduce_classes output and per document of every generated sample set. *)
From Coq Require Import NArith List Bool.
From XV Require Import Base.Str Model.Sample Model.SampleCorr Model.ConvFactory
  Proofs.SampleBuild Proofs.SampleFit Proofs.SampleTypes Proofs.SampleAccept Proofs.SampleGuarded Proofs.SampleJson Proofs.SampleBase Proofs.SampleOrder.
Import ListNotations.

(* 1. samples_fit + attrs_fit: for EVERY set of sample trees and EVERY behaviour of the converter tests, every
      node of every sample that gets a class (the root and every element with attributes or children) finds,
      in the merged class of its name, a slot for each child element (a list slot when the child name occurs
      more than once in the node: capacity >= occurrences), for each attribute and for its text; every part of
      the merged class that the node lacks has min_occurs = 0; text between children finds a mixed class.
      No side condition. *)
Theorem C13_samples_fit : forall cv (S : list tree), forallb (tree_fits (classes_of_xml cv S)) S = true.
Proof. exact samples_fit. Qed.
Print Assumptions C13_samples_fit.

(* 1b. the JSON analogue (DictMapper): every key of every sample object has a slot in the merged class of the
       object's name — a list slot for an array value, an optional one for null — and keys an object lacks are
       optional.  Hypothesis: the samples are what json.load returns (distinct keys per object, top level an
       object or an array of objects). *)
Theorem C13_json_samples_fit : forall cv name (S : list json),
  forallb json_top_wf S = true -> forallb (json_fits (classes_of_json cv name S) name) S = true.
Proof. exact json_samples_fit. Qed.
Print Assumptions C13_json_samples_fit.

(* 1c. a JSON string stays a string: DictMapper types every non-empty string leaf whose converter tests are
       known as xs:string or as a datatype that JSON can only carry as a string (date, time, dateTime, duration,
       g* period, QName).  No side condition since /repo fix 9a0cfef (before, {"s": "123"} was typed xs:int and
       written back as the number 123; the check still replays that witness). *)
Theorem C13_json_strings_kept : forall cv v, json_rows_known cv v = true -> g_json_strings cv v = true.
Proof. exact json_strings_kept. Qed.
Print Assumptions C13_json_strings_kept.

(* 2. the type inferred for every attribute value, leaf text, text content and complex child of every sample
      node is among the types of the merged attr — unless it is xs:anySimpleType (empty value) / xs:anyType /
      xs:error, which ClassUtils.filter_types may drop.  No side condition. *)
Theorem C13_inferred_types_kept : forall cv (S : list tree), forallb (tree_types_ok cv (classes_of_xml cv S)) S = true.
Proof. exact types_kept. Qed.
Print Assumptions C13_inferred_types_kept.

(* 3. inferred_type_accepts: hence no sample value can end in a ConverterWarning.  Converter interface of
      property C05 (`conv`, ConverterFactory.deserialize = deserialize_gen over sort_types); hypotheses = what
      RawDocumentMapper.build_attr_type relies on: a value that passed converter.test(v, [tp], strict=True) is
      accepted by tp's converter, and str accepts every text.  For every value v whose strict tests are known
      (sc_row cv v <> None), the merged field it is bound to has a candidate type list on which
      ConverterFactory.deserialize succeeds (via C05's deserialize_sorted_none). *)
Theorem C13_inferred_type_accepts :
  forall (V : Type) (cv : sconv) (conv : pytype -> str -> option V) (py_of : str -> pytype),
  (forall v row tp, sc_row cv v = Some row -> first_true (map fst Gen.SampleTables.explicit_type_datatype) row = Some tp ->
                    conv (py_of (from_explicit_type tp)) v <> None) ->
  (forall v, conv (py_of DT_STRING) v <> None) ->
  forall (S : list tree) t, In t S ->
    Forall_nodes (node_values_accepted V cv conv py_of (classes_of_xml cv S)) (root_ns t) t.
Proof. exact inferred_type_accepts. Qed.
Print Assumptions C13_inferred_type_accepts.

(* 4. nillable: the class of every node that says xsi:nil="true" is nillable.  No side condition since /repo
      fix 359d494 (reduce_classes merges nillable over the group; before, it copied group[0]'s and the statement
      was refuted by <r><n a="1" xsi:nil="true"/><n a="2">5</n></r>, which the check still replays). *)
Theorem C13_nil_fit : forall cv (S : list tree), forallb (tree_nil_ok (classes_of_xml cv S)) S = true.
Proof. exact nil_fit. Qed.
Print Assumptions C13_nil_fit.

(* 5. namespace: the merged class has the class namespace build_class computes for the node (None for an
      unqualified element whose ancestors are all unqualified, "" below a qualified ancestor), or it is
      explicitly unqualified ("") where the node would inherit none — never the namespace of whatever parent it is
      bound under.  No side condition since /repo fix 6637729 (before, reduce_classes copied group[0]'s namespace
      and the statement was refuted by an unqualified k below a qualified p and below an unqualified q, which the
      check still replays). *)
Theorem C13_ns_fit : forall cv (S : list tree), forallb (doc_ns_ok (classes_of_xml cv S)) S = true.
Proof. exact ns_fit. Qed.
Print Assumptions C13_ns_fit.

(* 5b. ClassUtils.sorted_attrs keeps the order of what it merges: attrs already placed never change their relative
       order; the first (largest) class is kept as it is; an attr that is NEW when its class is merged ends up
       before the attr that follows it in that class (a run of new attrs keeps its order, in front of the next
       known attr).  "Every class keeps its relative order" is false: two classes can list two attrs in opposite
       orders. *)
Theorem C13_sorted_attrs_stable : forall pre post, Subseq (sorted_attrs pre) (sorted_attrs (pre ++ post)).
Proof. exact sorted_attrs_stable. Qed.
Print Assumptions C13_sorted_attrs_stable.

Theorem C13_sorted_attrs_first : forall c post, Subseq c (sorted_attrs (c :: post)).
Proof. exact sorted_attrs_first. Qed.
Print Assumptions C13_sorted_attrs_first.

Theorem C13_sorted_attrs_new_before : forall pre c post a u v b,
  NoDup (keys c) -> c = a ++ u :: v :: b -> ~ In (key u) (keys (sorted_attrs pre)) ->
  kbefore (sorted_attrs (pre ++ c :: post)) (key u) (key v).
Proof. exact sorted_attrs_new_before. Qed.
Print Assumptions C13_sorted_attrs_new_before.

Theorem C13_sorted_attrs_order_refuted :
  exists cs c u v, In c cs /\ c = [u; v] /\ ~ kbefore (sorted_attrs cs) (key u) (key v).
Proof. exact sorted_attrs_order_refuted. Qed.
Print Assumptions C13_sorted_attrs_order_refuted.

(* 6. the remaining clauses of `regular` (evaluated per document by the check, no unbounded theorem under
      them): each is a statement about the merged classes that the faithful model falsifies; every witness
      also fails on the real code. *)
Theorem C13_kind_empty_refuted : exists cv S, forallb (doc_kind_empty_ok (raw_of cv S)) S = false.
Proof. exact kind_empty_refuted. Qed.
Print Assumptions C13_kind_empty_refuted.

Theorem C13_kind_leaf_refuted : exists cv S, forallb (doc_kind_leaf_ok (raw_of cv S)) S = false.
Proof. exact kind_leaf_refuted. Qed.
Print Assumptions C13_kind_leaf_refuted.

Theorem C13_nil_present_refuted : exists cv S, forallb (doc_nil_present_ok (classes_of_xml cv S)) S = false.
Proof. exact nil_present_refuted. Qed.
Print Assumptions C13_nil_present_refuted.

Theorem C13_order_kept_refuted : exists cv S, forallb (doc_order_ok (classes_of_xml cv S)) S = false.
Proof. exact order_kept_refuted. Qed.
Print Assumptions C13_order_kept_refuted.

Theorem C13_values_exact_refuted :
  exists tbl vt S, forallb (g_values_exact vt (classes_of_xml (sconv_of_table tbl) S)) S = false.
Proof. exact values_exact_refuted. Qed.
Print Assumptions C13_values_exact_refuted.

Example C13_regular_nonvacuous :
  let cs := classes_of_xml no_tests w_regular in
  forallb (doc_kind_empty_ok (raw_of no_tests w_regular)) w_regular
  && forallb (doc_kind_leaf_ok (raw_of no_tests w_regular)) w_regular
  && forallb (doc_nil_present_ok cs) w_regular && forallb (doc_order_ok cs) w_regular
  && forallb (doc_ns_ok cs) w_regular && forallb (tree_nil_ok cs) w_regular = true.
Proof. exact regular_nonvacuous. Qed.
Print Assumptions C13_regular_nonvacuous.
