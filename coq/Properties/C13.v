(* Properties/C13.v — statements only (being extended). *)
From XV Require Import Base.Str Model.Sample Model.SampleCorr Proofs.SampleBase.

Theorem C13_attr_key_refl : forall a, attr_eqb a a = true.
Proof. exact attr_eqb_refl. Qed.
Print Assumptions C13_attr_key_refl.
