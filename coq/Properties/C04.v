(* Properties/C04.v — JSON and dictionary round trip (statements only).
   Model: Model/DictCodec.v (serializers/dict.py, parsers/dict.py). *)
From Coq Require Import NArith ZArith List Bool.
From XV Require Import Base.Str Base.Eqb Model.Bind Model.EventGen Model.DictCodec.
Import ListNotations.

Example C04_placeholder : dict_of [([97]%N, 1%N); ([98]%N, 2%N); ([97]%N, 3%N)] = [([97]%N, 3%N); ([98]%N, 2%N)].
Proof. reflexivity. Qed.
Print Assumptions C04_placeholder.
