(* Properties/C04.v — JSON and dictionary round trip (statements only).
   Model: Model/DictCodec.v (serializers/dict.py DictEncoder, parsers/dict.py DictDecoder,
   parsers/utils.py parse_var/parse_value, compat.py score_object); guards and clause
   predicates: Model/DictCodecCorr.v; proofs: Proofs/DictCodecRoundtrip.v; witnesses
   (exported from the implementation): Proofs/DictCodecWitness.v.

   JSON text <-> dictionary is json.dump / json.load (trusted; every run checks
   json.loads(JsonSerializer.render(o)) == DictEncoder.encode(o) and that JsonParser and
   DictDecoder return the same object). *)
From Coq Require Import NArith ZArith List Bool.
From XV Require Import Base.Str Base.Eqb Model.Bind Model.EventGen Model.DictCodec Model.DictCodecCorr
  Proofs.DictCodecRoundtrip Proofs.DictCodecWitness Proofs.DictCodecRefute.
Import ListNotations.
Open Scope N_scope.

(* ---------------------------------------------------------------- the round trip, proved slice D1 *)
(* d1_value g fac c u n o (Model/DictCodecCorr.v), n = 1 + depth of o: every reachable class has
   Text / Element / Attribute fields of ONE primitive, enum or class type (a class without
   subclasses), scalar / list / tokens / list-of-token-lists, no wrapper; field names and JSON
   keys are distinct; the key set is not that of a generic AnyElement / DerivedElement
   dictionary; a None sits only where the field default is None; every primitive leaf survives
   the converter (c_deser (json text of p) = p — property C05's subject, here a computable
   condition on the instance), tokens are non-empty and free of whitespace. *)

Theorem C04_dict_roundtrip : forall g c u cl fs,
  d1_value g FDict c u (S (vdepth (VObj cl fs))) (VObj cl fs) = true ->
  exists j, encode g FDict false c u (VObj cl fs) = Ok j
            /\ decode g c u cl false j = Ok (VObj cl fs).
Proof. exact dict_roundtrip. Qed.
Print Assumptions C04_dict_roundtrip.

(* the None-filtering factory: None-valued keys are absent and decode to the field defaults;
   inside the slice the default of such a field is None, so the instance itself comes back *)
Theorem C04_dict_roundtrip_filter_none : forall g c u cl fs,
  d1_value g FFilterNone c u (S (vdepth (VObj cl fs))) (VObj cl fs) = true ->
  exists j, encode g FFilterNone false c u (VObj cl fs) = Ok j
            /\ decode g c u cl false j = Ok (VObj cl fs).
Proof. exact dict_roundtrip_filter_none. Qed.
Print Assumptions C04_dict_roundtrip_filter_none.

(* list-of-models documents: a list of instances of one class encodes to a JSON array and decodes,
   with clazz = list[cls], to the same list (either factory) *)
Theorem C04_dict_roundtrip_list : forall g fac c u cl l,
  (forall o, In o l -> exists fs, o = VObj cl fs /\ d1_value g fac c u (S (vdepth o)) o = true) ->
  exists j, encode g fac false c u (VList false l) = Ok j
            /\ decode g c u cl true j = Ok (VList false l).
Proof. exact dict_roundtrip_list. Qed.
Print Assumptions C04_dict_roundtrip_list.

(* the encoded form is made of null / bool / int / float / str / list / dict-with-str-keys only:
   that is the model's output type; on the implementation side the exporter refuses any other
   leaf, and json.dumps(encode(o)) is run on every generated case *)
Theorem C04_encode_json_native : forall g fac ign c u o j,
  encode g fac ign c u o = Ok j -> json_native j = true.
Proof. exact encode_json_native. Qed.
Print Assumptions C04_encode_json_native.

(* ---------------------------------------------------------------- non-vacuity of the guard *)
Example C04_guard_inhabited :
  in_proved_slice (w_inside_slice_u, w_inside_slice_k) = true
  /\ in_proved_slice (w_inside_slice_filter_none_u, w_inside_slice_filter_none_k) = true
  /\ theorem_instance (w_inside_slice_u, w_inside_slice_k) = true
  /\ theorem_instance (w_inside_slice_filter_none_u, w_inside_slice_filter_none_k) = true
  /\ model_roundtrip (w_wrapper_under_best_match_u, w_wrapper_under_best_match_k) = true
  /\ roundtrip_ok (w_wrapper_under_best_match_u, w_wrapper_under_best_match_k) = true.
Proof. exact guard_inhabited. Qed.
Print Assumptions C04_guard_inhabited.

(* ---------------------------------------------------------------- refutations *)
(* The full statement "for every typed instance, decode (encode o) = the promised object" is false
   of the faithful model; each lemma exhibits a typed witness (exported from the implementation,
   where it fails as well — replayed by every run of the check) that violates exactly one clause. *)

(* 1. two fields share a JSON key *)
Theorem C04_key_collision_refuted :
  is_typed (w_json_key_collision_u, w_json_key_collision_k) = true
  /\ clauses_failing (w_json_key_collision_u, w_json_key_collision_k) = [1]
  /\ model_roundtrip (w_json_key_collision_u, w_json_key_collision_k) = false.
Proof. exact key_collision_refuted. Qed.
Print Assumptions C04_key_collision_refuted.

(* 2. JSON null decodes to the field default *)
Theorem C04_null_default_refuted :
  is_typed (w_null_decodes_to_default_u, w_null_decodes_to_default_k) = true
  /\ clauses_failing (w_null_decodes_to_default_u, w_null_decodes_to_default_k) = [2]
  /\ model_roundtrip (w_null_decodes_to_default_u, w_null_decodes_to_default_k) = false.
Proof. exact null_default_refuted. Qed.
Print Assumptions C04_null_default_refuted.

(* 3. no type marker: two candidate classes with the same best score, set order decides *)
Theorem C04_best_match_tie_refuted :
  is_typed (w_best_match_tie_u, w_best_match_tie_k) = true
  /\ clauses_failing (w_best_match_tie_u, w_best_match_tie_k) = [3]
  /\ decode_ambiguous (w_best_match_tie_u, w_best_match_tie_k) = true.
Proof. exact best_match_tie_refuted. Qed.
Print Assumptions C04_best_match_tie_refuted.

(* 4. compound field: the JSON form of a value selects another choice (documented limitation) *)
Theorem C04_compound_shadowed_refuted :
  is_typed (w_compound_choice_shadowed_in_json_u, w_compound_choice_shadowed_in_json_k) = true
  /\ clauses_failing (w_compound_choice_shadowed_in_json_u, w_compound_choice_shadowed_in_json_k) = [4]
  /\ model_roundtrip (w_compound_choice_shadowed_in_json_u, w_compound_choice_shadowed_in_json_k) = false.
Proof. exact compound_shadowed_refuted. Qed.
Print Assumptions C04_compound_shadowed_refuted.

(* 5. (repaired in /repo, 5e5f372: local_names_match now compares with the wrapper key) a class with a
      wrapper field could never be bound through bind_best_dataclass; the lemma is gone, the witness
      round-trips (C04_guard_inhabited) *)

(* 6. no type marker: the class is guessed from keys and values, a sibling with stricter types wins *)
Theorem C04_best_match_guess_refuted :
  is_typed (w_best_match_guess_u, w_best_match_guess_k) = true
  /\ clauses_failing (w_best_match_guess_u, w_best_match_guess_k) = [3]
  /\ decode_ambiguous (w_best_match_guess_u, w_best_match_guess_k) = false
  /\ model_roundtrip (w_best_match_guess_u, w_best_match_guess_k) = false.
Proof. exact best_match_guess_refuted. Qed.
Print Assumptions C04_best_match_guess_refuted.

(* 7. the None-filtering factory strips keys of the generic AnyElement dictionary *)
Theorem C04_generic_keys_filtered_refuted :
  is_typed (w_generic_keys_filtered_u, w_generic_keys_filtered_k) = true
  /\ clauses_failing (w_generic_keys_filtered_u, w_generic_keys_filtered_k) = [7]
  /\ model_roundtrip (w_generic_keys_filtered_u, w_generic_keys_filtered_k) = false.
Proof. exact generic_keys_filtered_refuted. Qed.
Print Assumptions C04_generic_keys_filtered_refuted.
